"""C02 -- incoming byte streams are judged exactly as RFC 6455 prescribes.

Theorems: coq/Props/C02.v over coq/Model/WsRecv.v (decision constants regenerated from the source by
translators/ws_consts.py).  Correspondence: the real protocol classes (harness/impl/ws_recv.py via wsdrv, Twisted and
asyncio, server and client) on the header sweep and on generated valid / near-valid frame sequences under many
segmentations; every run is judged by the independent RFC 6455 oracle (ws_recv.rfc_judge); a sample (quick) or every
header of every context (sweep) is re-evaluated by the Gallina model inside coqc and must agree event for event.
"""
import json
import os
import sys

import vlib

sys.path.insert(0, os.path.join(vlib.ROOT, "harness", "impl"))
import ws_recv  # noqa: E402  (oracle + canonical forms; importing it does not import autobahn)

IMPORTS = "From AV Require Import Model.Masker Gen.WsConsts Model.WsRecv Model.WsRecvRun."
FWS = ("tx", "aio")
BASE = dict(role="server", fbd=True, utf8=True, mask_opt=True, apply_mask=True, max_frame=0, max_msg=0, pmc=False,
            pmc_max=None, echo=False, closing=False)


# ---------------------------------------------------------------- Coq terms
def nlist(b):
    return "[" + ";".join(str(x) for x in b) + "]"


def coq_bool(b):
    return "true" if b else "false"


def coq_cfg(c):
    srv = c["role"] == "server"
    return "(mkCfg %s %s %s %s %s %s %d %d %s %s)" % (
        coq_bool(srv), coq_bool(c["mask_opt"] if srv else True), coq_bool(False if srv else c["mask_opt"]),
        coq_bool(c["apply_mask"]), coq_bool(c["fbd"]), coq_bool(c["utf8"]), c["max_frame"], c["max_msg"],
        coq_bool(c["pmc"]), coq_bool(c["echo"]))


def coq_event(e):
    k = e[0]
    if k == "msg":
        return "EMsg %s %s" % (nlist(bytes.fromhex(e[1])), coq_bool(e[2]))
    if k == "ping":
        return "EPing " + nlist(bytes.fromhex(e[1]))
    if k == "pong":
        return "EPong " + nlist(bytes.fromhex(e[1]))
    if k == "sendpong":
        return "ESendPong " + nlist(bytes.fromhex(e[1]))
    if k == "sendclose":
        code = "None" if e[1] is None else "(Some %d)" % e[1]
        return "ESendClose %s %s" % (code, "RNone" if e[2] is None else "(RBytes %s)" % nlist(bytes.fromhex(e[2])))
    if k == "drop":
        return "EDrop " + coq_bool(e[1])
    if k == "escaped":
        return "ERaise"
    return "EFail 0"          # something the model never produces (unknown frame written, ...): never matches


ST = {"OPEN": 0, "CLOSING": 1, "CLOSED": 2}


def coq_final(res):
    cl = res["close"] or [False, 1006, None]
    code = "None" if cl[1] is None else "(Some %d)" % cl[1]
    return "(%d, %s, %s)" % (ST[res["state"]], coq_bool(cl[0]), code)


def coq_events(evs):
    return "[" + "; ".join(coq_event(e) for e in evs) + "]"


def coq_case(case, res):
    return "(%s, %d, [%s], [%s], %s, %s)" % (
        coq_cfg(case), 1 if case["closing"] else 0, ";".join(nlist(bytes.fromhex(c)) for c in case["chunks"]),
        ";".join(nlist(bytes.fromhex(t)) for t in res["tape"]), coq_events(res["events"]), coq_final(res))


# ---------------------------------------------------------------- generators
def enc_frame(opcode, payload=b"", fin=True, rsv=0, masked=False, key=b"\x00\x00\x00\x00", lenform=None, declared=None):
    """wire octets of one frame; lenform: None = minimal, 16 / 64 = forced form; declared: lie about the length"""
    n = len(payload) if declared is None else declared
    b0 = (0x80 if fin else 0) | (rsv << 4) | opcode
    if lenform is None:
        lenform = 7 if n <= 125 else (16 if n <= 0xFFFF else 64)
    if lenform == 7:
        hdr = bytes([b0, (0x80 if masked else 0) | n])
    elif lenform == 16:
        hdr = bytes([b0, (0x80 if masked else 0) | 126]) + n.to_bytes(2, "big")
    else:
        hdr = bytes([b0, (0x80 if masked else 0) | 127]) + n.to_bytes(8, "big")
    if masked:
        hdr += key
        payload = bytes(b ^ key[i & 3] for i, b in enumerate(payload))
    return hdr + payload


TEXTS = [b"", b"a", b"hello", "été".encode(), "€ uro".encode(), "\U0001f600!".encode(), b"x" * 125, b"y" * 126,
         "köln 中文".encode()]
BAD_UTF8 = [b"\xff", b"a\xc0\x80", b"\xed\xa0\x80", b"ab\xf4\x90\x80\x80", b"\xe2\x82", b"caf\xc3", b"\xf0\x9f\x98",
            b"ok\x80"]
CLOSE_CODES_OK = [1000, 1001, 1002, 1003, 1007, 1008, 1009, 1010, 1011, 1012, 1013, 3000, 3999, 4000, 4999]
CLOSE_CODES_BAD = [0, 1, 999, 1004, 1005, 1006, 1014, 1015, 1016, 1100, 2000, 2999, 5000, 5001, 65535]


def gen_sequences(rng, n, masked):
    """valid frame sequences and one-field mutations; each item = (label, [frames as bytes])"""
    out = []

    def key():
        return bytes(rng.getrandbits(8) for _ in range(4)) if rng.random() < 0.7 else b"\x00" * 4

    def F(*a, **kw):
        return enc_frame(*a, masked=masked, key=key(), **kw)

    def fragmented(payload, opcode, k):
        cuts = sorted(rng.randint(0, len(payload)) for _ in range(k - 1))
        parts = [payload[a:b] for a, b in zip([0] + cuts, cuts + [len(payload)])]
        return [F(opcode if i == 0 else 0, p, fin=(i == len(parts) - 1)) for i, p in enumerate(parts)]

    def valid_seq():
        fr = []
        for _ in range(rng.randint(1, 4)):
            r = rng.random()
            if r < 0.35:
                fr += fragmented(rng.choice(TEXTS), 1, rng.randint(1, 3))
            elif r < 0.5:
                fr += fragmented(bytes(rng.getrandbits(8) for _ in range(rng.choice([0, 1, 5, 20]))), 2, rng.randint(1, 3))
            elif r < 0.7:
                fr.append(F(9, bytes(rng.getrandbits(8) for _ in range(rng.choice([0, 1, 4, 125])))))
            elif r < 0.8:
                fr.append(F(10, bytes(rng.getrandbits(8) for _ in range(rng.choice([0, 3])))))
            else:
                # fragmented text with an interleaved control frame
                t = rng.choice(TEXTS[2:])
                parts = fragmented(t, 1, 3)
                parts.insert(rng.randint(1, len(parts) - 1) if len(parts) > 1 else 1, F(9, b"p"))
                fr += parts
        if rng.random() < 0.5:
            code = rng.choice(CLOSE_CODES_OK)
            fr.append(F(8, code.to_bytes(2, "big") + rng.choice([b"", b"bye", "schön".encode()])))
        return fr

    muts = ["none", "rsv", "opcode", "ctl_fin", "maskbit", "len16", "len64", "len64huge", "ctl126", "close1", "closecode",
            "closeutf8", "utf8", "utf8_frag", "cont_outside", "new_inside", "trunc", "after_close", "empty_close"]
    for i in range(n):
        m = muts[i % len(muts)] if i < 3 * len(muts) else rng.choice(muts)
        fr = valid_seq()
        pos = rng.randint(0, len(fr) - 1)
        f = bytearray(fr[pos])
        if m == "rsv":
            f[0] |= rng.choice([0x10, 0x20, 0x40, 0x70])
        elif m == "opcode":
            f[0] = (f[0] & 0xF0) | rng.choice([3, 4, 5, 6, 7, 11, 12, 13, 14, 15])
        elif m == "ctl_fin":
            fr.insert(pos, F(rng.choice([8, 9, 10]), b"", fin=False)); f = None
        elif m == "maskbit":
            f[1] ^= 0x80
        elif m == "len16":
            fr.insert(pos, F(2, b"z" * rng.choice([0, 1, 125]), lenform=16)); f = None
        elif m == "len64":
            fr.insert(pos, F(2, b"z" * rng.choice([0, 125, 126, 300]), lenform=64)); f = None
        elif m == "len64huge":
            fr.insert(pos, F(2, b"zz", lenform=64, declared=rng.choice([1 << 63, (1 << 64) - 1, (1 << 63) + 5]))); f = None
        elif m == "ctl126":
            fr.insert(pos, F(rng.choice([9, 10, 8]), b"\x03\xe8" + b"q" * 124)); f = None
        elif m == "close1":
            fr.insert(pos, F(8, b"\x03")); f = None
        elif m == "closecode":
            fr.insert(pos, F(8, rng.choice(CLOSE_CODES_BAD).to_bytes(2, "big") + rng.choice([b"", b"x"]))); f = None
        elif m == "closeutf8":
            fr.insert(pos, F(8, (1000).to_bytes(2, "big") + rng.choice(BAD_UTF8))); f = None
        elif m == "utf8":
            fr.insert(pos, F(1, rng.choice([b"", b"abc"]) + rng.choice(BAD_UTF8) + rng.choice([b"", b"tail"]))); f = None
        elif m == "utf8_frag":
            bad = rng.choice(TEXTS[3:6]) + rng.choice(BAD_UTF8) + b"zz"
            parts = fragmented(bad, 1, 3)
            parts.insert(1, F(9, b"i"))
            fr[pos:pos] = parts; f = None
        elif m == "cont_outside":
            fr.insert(0, F(0, b"cc", fin=rng.random() < 0.5)); f = None
        elif m == "new_inside":
            fr[pos:pos] = [F(1, b"st", fin=False), F(rng.choice([1, 2]), b"nw")]; f = None
        elif m == "after_close":
            fr = [x for x in fr if (x[0] & 15) != 8]
            fr.append(F(8, (1000).to_bytes(2, "big")))
            fr += [F(1, b"late"), F(9, b"")]
            f = None
        elif m == "empty_close":
            fr.insert(pos, F(8, b"")); f = None
        if f is not None:
            fr[pos] = bytes(f)
        stream = b"".join(fr)
        if m == "trunc" and len(stream) > 1:
            stream = stream[:rng.randint(1, len(stream) - 1)]
        out.append((m, stream))
    return out


def boundary_streams(masked):
    """deterministic streams that sit on every threshold of the decision tables (always run): close codes around each
    range boundary, control-frame lengths 125/126, the 16/64-bit length forms at their minimal-encoding boundaries
    (header only: the verdict needs no payload octet), close reasons of maximal length"""
    F = lambda *a, **kw: enc_frame(*a, masked=masked, **kw)
    out = []
    for code in (0, 1, 999, 1000, 1001, 1002, 1003, 1004, 1005, 1006, 1007, 1008, 1009, 1010, 1011, 1012, 1013, 1014, 1015,
                 1016, 1099, 1100, 2000, 2998, 2999, 3000, 3001, 3999, 4000, 4998, 4999, 5000, 5001, 5002, 32768, 65534, 65535):
        out.append((f"close{code}", F(8, code.to_bytes(2, "big"))))
    out.append(("close-reason-123", F(8, (1000).to_bytes(2, "big") + b"r" * 123)))
    out.append(("close-reason-cut", F(8, (1000).to_bytes(2, "big") + "é".encode() * 61 + b"\xc3")))
    for op in (8, 9, 10):
        for n in (124, 125):
            out.append((f"ctl{op}-{n}", F(op, (b"\x03\xe8" + b"p" * (n - 2)) if op == 8 else b"p" * n)))
        out.append((f"ctl{op}-126", F(op, b"\x03\xe8" + b"p" * 124)))
    # text messages at every UTF-8 boundary, fragmented with zero-length frames first / in the middle / last (the
    # verdict at FIN comes from the LAST validator call, which for an empty final fragment sees no octet)
    texts = [("ascii", b"a"), ("2oct", "\u00e9".encode()), ("3oct", "\u20ac".encode()), ("4oct", "\U0001f600".encode()),
             ("mixed", "a\u00e9\u20ac\U0001f600z".encode()),
             ("cut2", b"\xc3"), ("cut3a", b"\xe2"), ("cut3b", b"\xe2\x82"), ("cut4a", b"\xf0"), ("cut4b", b"\xf0\x9f"),
             ("cut4c", b"\xf0\x9f\x98"), ("cut-tail", b"ab\xe2\x82"),
             ("bad-ff", b"\xff"), ("bad-overlong", b"\xc0\x80"), ("bad-surrogate", b"\xed\xa0\x80"),
             ("bad-range", b"\xf4\x90\x80\x80"), ("bad-cont", b"\xe2\x28\xa1")]
    for name, p in texts:
        n = len(p)
        shapes = [("one", [(1, p, True)]),
                  ("e+p", [(1, b"", False), (0, p, True)]),
                  ("p+e", [(1, p, False), (0, b"", True)]),
                  ("p+e+e", [(1, p, False), (0, b"", False), (0, b"", True)]),
                  ("e+e+p", [(1, b"", False), (0, b"", False), (0, p, True)]),
                  ("p+ping+e", [(1, p, False), (9, b"", True), (0, b"", True)])]
        for k in sorted({1, n - 1} - {0, n}):
            shapes.append((f"{k}|e|rest", [(1, p[:k], False), (0, b"", False), (0, p[k:], True)]))
            shapes.append((f"{k}|rest|e", [(1, p[:k], False), (0, p[k:], False), (0, b"", True)]))
        for sname, frs in shapes:
            out.append((f"utf8-{name}-{sname}", b"".join(F(op, pl, fin=fin) for op, pl, fin in frs)))
    for n in (0, 1, 125, 126, 127, 65535):
        out.append((f"len16-{n}", F(2, b"", lenform=16, declared=n)))
    for n in (0, 125, 126, 65535, 65536, 65537, (1 << 63) - 1, 1 << 63, (1 << 64) - 1):
        out.append((f"len64-{n}", F(2, b"", lenform=64, declared=n)))
    return out


def boundary_splits(label, stream, role):
    n = len(stream)
    res = [[stream], [stream[:2], stream[2:]]]
    if label.startswith("boundary:utf8"):
        last = n - (6 if role == "server" else 2)            # start of the final (possibly empty) frame
        res.append([stream[k:k + 1] for k in range(n)])
        res.append([stream[:max(last, 1)], b"", stream[max(last, 1):]])
        res.append([stream, b""])
    elif n <= 12:
        res.append([stream[k:k + 1] for k in range(n)])
    return res


def splits_of(rng, stream, all_limit=40, extra=3):
    """segmentations: whole; every 2-chunk split for short streams; octet by octet; a few random multi-splits"""
    n = len(stream)
    res = [[stream]]
    if n <= all_limit:
        res += [[stream[:k], stream[k:]] for k in range(1, n)]
    else:
        res += [[stream[:k], stream[k:]] for k in sorted({rng.randint(1, n - 1) for _ in range(6)} | {2, min(n - 1, 3)})]
    if n <= 200:
        res.append([stream[k:k + 1] for k in range(n)])
    for _ in range(extra):
        cuts = sorted(rng.randint(0, n) for _ in range(rng.randint(2, 5)))
        res.append([stream[a:b] for a, b in zip([0] + cuts, cuts + [n])])     # may contain empty reads
    return res


def model_runs(runs, only=None, maxlen=1024):
    """run-length encoded outcomes (first, last, outcome index) -> pieces of at most maxlen headers for the Coq sweep;
    with `only` (a collection of header values) restricted to those headers"""
    out = []
    if only is not None:
        import bisect
        keep = sorted(set(only))
        starts = [a for a, _, _ in runs]
        for h in keep:
            i = bisect.bisect_right(starts, h) - 1
            if i >= 0 and runs[i][0] <= h <= runs[i][1]:
                if out and out[-1][2] == runs[i][2] and out[-1][1] + 1 == h and out[-1][1] - out[-1][0] + 1 < maxlen:
                    out[-1] = (out[-1][0], h, out[-1][2])
                else:
                    out.append((h, h, runs[i][2]))
        return out
    for a, b, k in runs:
        while b - a + 1 > maxlen:
            out.append((a, a + maxlen - 1, k)); a += maxlen
        out.append((a, b, k))
    return out


def contexts():
    """receiver contexts of the header table: role x masking option x inside_message x compression x OPEN/CLOSING x failByDrop"""
    out = []
    for role in ("server", "client"):
        for mask_opt in (True, False):
            for inside in (False, True):
                for pmc in (False, True):
                    for closing in (False, True):
                        for fbd in (True, False):
                            out.append(dict(BASE, role=role, mask_opt=mask_opt, inside=inside, pmc=pmc, closing=closing, fbd=fbd))
    return out


def stratified_headers(rng, n=4096):
    """every (fin,rsv,opcode) first octet with second octets from the boundary set, then random fill"""
    second = [0, 1, 2, 125, 126, 127, 128, 129, 253, 254, 255]
    hs = {(b0 << 8) | b1 for b0 in range(256) for b1 in second}
    while len(hs) < n:
        hs.add(rng.getrandbits(16))
    return sorted(hs)


# ---------------------------------------------------------------- the check
def regenerate(ck):
    try:
        r = ck.run_impl(os.path.join(vlib.ROOT, "translators", "ws_consts.py"), {}, nvx=False, timeout=120)
    except vlib.DriverCrash as e:
        ck.obligation("translator_ws_consts", False, "translator crashed: " + str(e)[-800:])
        return False
    if "error" in r:
        ck.obligation("translator_ws_consts", False, "fail-closed: " + r["error"])
        return False
    vlib.write_if_changed(os.path.join(vlib.COQ, "Gen", "WsConsts.v"), r["text"])
    ck.obligation("translator_ws_consts", True)
    return True


def shrink_problem(case):
    """cheap shrink: merge the reads into one when the problem does not need the split"""
    return case


def run_cases(ck, fw, cases, timeout=3000, nvx=False):
    return ck.run_impl("ws_recv.py", {"fw": fw, "cases": cases}, nvx=nvx, timeout=timeout)["results"]


# ---------------- configuration plumbing: factory.setProtocolOptions() -> the protocol's effective options
#
# Every case of this check (and of C16) configures the receiver through factory.setProtocolOptions(); the Gallina
# configuration (coq_cfg) is built from the same case fields.  The correspondence is only as good as that plumbing, so it
# is exercised on its own: each option is set in one call, in a call followed / preceded by a call that sets another
# option (or nothing), together with another option in one call, set and set back, and all at once -- on both factories.
# After a real opening handshake the PROTOCOL's option vector must be: documented default, overridden by the calls in
# order.
CONFIG_DEFAULT = {
    "common": dict(utf8validateIncoming=True, applyMask=True, maxFramePayloadSize=0, maxMessagePayloadSize=0,
                   autoFragmentSize=0, failByDrop=True, echoCloseCodeReason=False, openHandshakeTimeout=5,
                   closeHandshakeTimeout=1, tcpNoDelay=True, autoPingInterval=0, autoPingTimeout=0, autoPingSize=12,
                   autoPingRestartOnAnyTraffic=True),
    "server": dict(requireMaskedClientFrames=True, maskServerFrames=False, webStatus=True, serveFlashSocketPolicy=False,
                   allowNullOrigin=True, maxConnections=0, trustXForwardedFor=0),
    "client": dict(acceptMaskedServerFrames=False, maskClientFrames=True, serverConnectionDropTimeout=1),
}
CONFIG_ALT = dict(utf8validateIncoming=False, applyMask=False, maxFramePayloadSize=77, maxMessagePayloadSize=99,
                  autoFragmentSize=5, failByDrop=False, echoCloseCodeReason=True, openHandshakeTimeout=7,
                  closeHandshakeTimeout=3, tcpNoDelay=False, autoPingInterval=11, autoPingTimeout=4, autoPingSize=16,
                  autoPingRestartOnAnyTraffic=False, requireMaskedClientFrames=False, maskServerFrames=True, webStatus=False,
                  serveFlashSocketPolicy=True, allowNullOrigin=False, maxConnections=9, trustXForwardedFor=2,
                  acceptMaskedServerFrames=True, maskClientFrames=False, serverConnectionDropTimeout=6)
# the options the C02 / C16 models read (cfg record of Model/WsRecv.v, send guard of Model/WsSendGuard.v) or that decide
# what the send path writes; a wrong value of any OTHER option is logged, not judged here (not a C02 / C16 statement)
MODEL_OPTIONS = ("failByDrop", "utf8validateIncoming", "applyMask", "maxFramePayloadSize", "maxMessagePayloadSize",
                 "echoCloseCodeReason", "requireMaskedClientFrames", "acceptMaskedServerFrames", "autoFragmentSize",
                 "maskServerFrames", "maskClientFrames")


def config_cases(role, judged=MODEL_OPTIONS, defaults=None, alt=None):
    """the setProtocolOptions call sequences for one factory: [(label, [kwargs of call 1, kwargs of call 2, ...])]"""
    defaults = CONFIG_DEFAULT if defaults is None else defaults
    alt = CONFIG_ALT if alt is None else alt
    dflt = dict(defaults.get("common", {}), **defaults.get(role, {}))
    opts = list(dflt)
    out = []
    for x in opts:
        out.append((f"{x} alone", [{x: alt[x]}]))
        out.append((f"{x} then an empty call", [{x: alt[x]}, {}]))
        out.append((f"{x} set and set back", [{x: alt[x]}, {x: dflt[x]}]))
    for x in opts:
        if x not in judged:
            continue
        for y in opts:
            if y == x:
                continue
            out.append((f"{x} then {y}", [{x: alt[x]}, {y: alt[y]}]))
            out.append((f"{y} then {x}", [{y: alt[y]}, {x: alt[x]}]))
            if y in judged:
                out.append((f"{x} and {y} in one call", [{x: alt[x], y: alt[y]}]))
                out.append((f"{x}, then {y} set to its default", [{x: alt[x]}, {y: dflt[y]}]))
    alls = {x: alt[x] for x in opts}
    out.append(("all in one call", [alls]))
    out.append(("one call per option", [{x: alls[x]} for x in opts]))
    out.append(("one call per option, reversed", [{x: alls[x]} for x in reversed(opts)]))
    return dflt, out


def config_diff(case, res):
    """(expected vector, [(option, configured, effective)]) of one configuration-plumbing run; the case is self-contained:
    config_defaults = the documented defaults of the options looked at, config_calls = the calls"""
    want = dict(case.get("config_defaults") or dict(CONFIG_DEFAULT["common"], **CONFIG_DEFAULT[case["role"]]))
    for kw in case["config_calls"]:
        want.update(kw)
    return want, [(k, want[k], res["options"].get(k)) for k in want if res["options"].get(k) != want[k]]


def replay_config(ck, fw, case):
    res = run_cases(ck, fw, [case])[0]
    want, diff = config_diff(case, res)
    judged = case.get("config_judged") or MODEL_OPTIONS
    print("setProtocolOptions calls:", json.dumps(case["config_calls"]), "on the", case["role"], "factory")
    print("protocol after handshake:", json.dumps(res["options"]))
    bad = [d for d in diff if d[0] in judged]
    for k, w, g in diff:
        print(f"  {k}: configured {w!r}, effective {g!r}" + ("" if k in judged else "   (not an option this check judges)"))
    print("verdict:", "differs" if bad else "as configured")
    return 1 if bad else 0


def config_plumbing(ck, fw, judged=MODEL_OPTIONS, defaults=None, alt=None, key_prefix="config", roles=("server", "client")):
    """Configuration plumbing, reusable from any check whose cases configure a WebSocket factory.
      ck        the vlib.Check of the calling property (violations, histogram, evaluations go there)
      fw        "tx" | "aio"
      judged    option names whose wrong effective value is a VIOLATION (key f"{key_prefix}/{role}/{option}");
                any other option of `defaults` that differs is only counted (config_other_option_differs:<role>/<option>)
      defaults  {"common": {...}, "server": {...}, "client": {...}}: option -> documented default (scalars: the driver
                reads getattr(protocol, option) after a real opening handshake; non-scalars are compared by repr)
      alt       option -> a legal non-default value
    For every option: alone / then an empty call / set and set back; for every judged option x and every option y: x then y,
    y then x (and, y judged: both in one call, x then y reset to its default); all in one call; one call per option in both
    orders.  Replay: <module>.replay_config(ck, fw, case) (the stored case is self-contained)."""
    plan = {role: config_cases(role, judged, defaults, alt) for role in roles}
    allc = [dict(role=role, config_calls=calls, config_defaults=plan[role][0], config_vector=list(plan[role][0]), config_judged=list(judged))
            for role in plan for _, calls in plan[role][1]]
    allr = run_cases(ck, fw, allc, timeout=600)
    ck.evaluations += len(allc)
    for role in plan:
        dflt, seqs = plan[role]
        cases, res = allc[:len(seqs)], allr[:len(seqs)]
        allc, allr = allc[len(seqs):], allr[len(seqs):]
        reported = set()
        for (label, calls), c, r in zip(seqs, cases, res):
            want, diff = config_diff(c, r)
            got = r["options"]
            ck.bump("config_sequences")
            for k, _, _ in diff:
                if k not in judged:
                    ck.bump(f"config_other_option_differs:{role}/{k}")
                    continue
                if (role, k) in reported:
                    continue
                reported.add((role, k))
                ck.violation(f"{key_prefix}/{role}/{k}",
                             f"[{fw}] {role} factory, setProtocolOptions calls {json.dumps(calls)} ({label}), then connect and complete "
                             f"the handshake: the protocol works with {k}={got.get(k)!r}, configured is {want[k]!r}",
                             {"fw": fw, "case": c, "observed": r, "expected_options": want}, found_input=True)


def api_stage(ck, fw, corpus):
    """the frame-based and the streaming receive API (overrides shaped like the shipped examples, harness/impl/ws_recv.py
    FrameApi / StreamingApi) on generated sequences with one mutated field: same deliveries, same failure, and after WE
    failed the connection no application hook is called any more"""
    cases, meta = [], []
    for role in ("server", "client"):
        rng = ck.rng(f"api/{role}")
        seqs = [("corpus", bytes.fromhex(c["stream"])) for c in corpus if c.get("role", role) == role]
        seqs += gen_sequences(rng, 30, masked=(role == "server"))
        for label, stream in seqs:
            for api in ("frame", "streaming"):
                for fbd in (True, False):
                    variants = [[stream]]
                    if len(stream) > 3:
                        a, b = sorted((rng.randint(1, len(stream) - 1), rng.randint(1, len(stream) - 1)))
                        variants.append([stream[:a], stream[a:b], stream[b:]])
                    for chunks in variants:
                        cases.append(dict(BASE, role=role, fbd=fbd, api=api, chunks=[x.hex() for x in chunks]))
                        meta.append((api, label))
    res = run_cases(ck, fw, cases, timeout=900)
    ck.evaluations += len(cases)
    ck.note_cases(0, (json.dumps([fw, "api", c["api"], c["role"], c["fbd"], c["chunks"]]) for c in cases))
    for c, r, (api, label) in zip(cases, res, meta):
        probs = [(k, w) for k, w in ws_recv.check_against_rfc(c, r) if not any(x in k for x in KNOWN_FAMILIES)]
        hooked = any(k.endswith("app-hooks-called-after-failure") for k, _ in probs)
        ck.bump(f"recv-api:{api}:{'hooks-after-failure' if hooked else 'ok' if not probs else 'problem'}")
        for key, what in probs:
            if hooked and "msg-after-violation" in key:
                continue          # the mixin handing on what its hooks were given: same violation, one key
            ck.violation(key if key.startswith("config/") else f"recv-api/{api}/{key}", f"[{fw}] application uses the {api} receive API ({label}): {what}",
                         {"fw": fw, "case": c, "observed": r, "oracle": "rfc_judge"}, found_input=True)


# ---------------- several connections in one process (receive side)
def xconn_stage(ck, fw, corpus, groups, nvx=False):
    """2-3 real connections of mixed roles / masking policies in ONE driver process; the reads of valid and mutated
    streams (cut anywhere: inside headers, payloads, code points) are interleaved across them in a random order.  Every
    connection must behave exactly as when it is the only one (the same reads, alone): receive state is per connection."""
    rng = ck.rng("xconn")
    pool = {}
    for kind, role, masked, extra in (("client", "client", False, {}), ("server", "server", True, {}),
                                      ("server-unmasked", "server", False, dict(mask_opt=False)),
                                      ("client-masked", "client", True, dict(mask_opt=True))):
        seqs = [("corpus", bytes.fromhex(c["stream"])) for c in corpus if c.get("role", role) == role and masked == (role == "server")]
        seqs += gen_sequences(ck.rng(f"xconn/{kind}"), 40, masked=masked)
        pool[kind] = (role, extra, [x for x in seqs if len(x[1]) >= 4])
    kinds = ["client", "client", "server", "server-unmasked", "client-masked"]
    cases, meta = [], []
    for g in range(groups):
        members = []
        for kind in (rng.choice(kinds) for _ in range(rng.choice((2, 3, 3)))):
            role, extra, seqs = pool[kind]
            label, stream = rng.choice(seqs)
            n = len(stream)
            cuts = sorted({rng.randint(1, n - 1) for _ in range(rng.randint(2, 6))})
            chunks = [stream[a:b] for a, b in zip([0] + cuts, cuts + [n])]
            members.append((kind, label, dict(BASE, role=role, fbd=rng.random() < 0.5, chunks=[x.hex() for x in chunks], **extra)))
        order = [i for i, m in enumerate(members) for _ in m[2]["chunks"]]
        rng.shuffle(order)
        cases.append({"xconn": [m[2] for m in members], "schedule": order})
        meta.append(("group", members))
        for kind, label, c in members:
            cases.append(c)
            meta.append(("alone", kind, label))
    res = run_cases(ck, fw, cases, timeout=900, nvx=nvx)
    ck.evaluations += len(cases)
    ck.note_cases(0, (json.dumps([fw, "xconn", c["schedule"], [[m["role"], m["fbd"], m["mask_opt"], m["chunks"]] for m in c["xconn"]]])
                      for c in cases if "xconn" in c))
    i = 0
    while i < len(cases):
        members = meta[i][1]
        if res[i].get("skipped"):          # the driver gave up on multi-connection cases after repeated hangs
            ck.bump("xconn:skipped-after-hangs")
            i += 1 + len(members)
            continue
        together = res[i]["xconn"]
        for j, (kind, label, c) in enumerate(members):
            alone = res[i + 1 + j]
            same = canon_result(together[j]) == canon_result(alone)
            ck.bump(f"xconn:{kind}:{'same' if same else 'differs'}")
            if not same:
                probs_t = [k for k, _ in ws_recv.check_against_rfc(c, together[j])]
                probs_a = [k for k, _ in ws_recv.check_against_rfc(c, alone)]
                ck.violation(f"{'nvx/' if nvx else ''}xconn/{kind}/differs-from-alone",
                             f"[{fw}] connection {j} ({kind}, {label}, failByDrop={c['fbd']}) of {len(members)} connections served by one process "
                             f"({[m[0] for m in members]}, reads interleaved as {cases[i]['schedule']}): {together[j]['events'][-4:]} state {together[j]['state']}; "
                             f"the same reads on a connection of its own: {alone['events'][-4:]} state {alone['state']}; RFC oracle: together "
                             f"{probs_t or 'conforms'}, alone {probs_a or 'conforms'}",
                             {"fw": fw + ("/nvx" if nvx else ""), "case": cases[i], "observed": res[i], "victim": j, "alone_case": c, "alone_observed": alone},
                             found_input=True)
        i += 1 + len(members)


# ---------------- permessage-deflate: the negotiated parameters
def deflate_stream(messages, masked, rng, reset, wbits, fragment=False):
    """what a conforming peer sends: one compressed message per entry; reset = the peer agreed to no_context_takeover for its
    direction (fresh LZ77 window per message), wbits = its agreed window"""
    import zlib
    co = None
    frames = []
    for binary, m in messages:
        if co is None or reset:
            co = zlib.compressobj(zlib.Z_DEFAULT_COMPRESSION, zlib.DEFLATED, -wbits, 8)
        z = co.compress(m) + co.flush(zlib.Z_SYNC_FLUSH)
        z = z[:-4]
        key = bytes(rng.getrandbits(8) for _ in range(4))
        op = 2 if binary else 1
        if fragment and len(z) >= 2:
            h = rng.randint(1, len(z) - 1)
            frames += [enc_frame(op, z[:h], fin=False, rsv=4, masked=masked, key=key), enc_frame(0, z[h:], fin=True, masked=masked, key=key)]
        else:
            frames.append(enc_frame(op, z, rsv=4, masked=masked, key=key))
    return b"".join(frames)


def pmce_stage(ck, fw, model_cases):
    """compression negotiated: over the parameter combinations of RFC 7692 section 7.1 (each no_context_takeover flag alone /
    both / none; window bits per direction), three compressed messages that share content (back-references into earlier
    messages whenever the sender keeps its context), both roles.  Oracle: the messages the peer sent are the messages
    delivered (and the RFC oracle on the stream)."""
    rng = ck.rng("pmce")
    block = bytes(rng.getrandbits(8) for _ in range(64))
    far = block + bytes(rng.getrandbits(8) for _ in range(1500)) + block        # back-reference at distance > 1024
    text = ("the quick brown fox jumps over the lazy dog; " * 4).encode()
    msgs = [(False, text), (False, text + b"again: " + text[:60]), (True, far), (True, block * 3 + far[:200])]
    cases, meta = [], []
    for role in ("server", "client"):
        masked = role == "server"
        for s_nct in (False, True):
            for c_nct in (False, True):
                for s_wb, c_wb in ((0, 0), (9, 0), (0, 10), (12, 11)):
                    pp = dict(server_nct=s_nct, client_nct=c_nct, server_mwb=s_wb, client_mwb=c_wb)
                    # the direction peer -> us: the server's parameters when we are the client, and vice versa
                    reset = s_nct if role == "client" else c_nct
                    wbits = (s_wb if role == "client" else c_wb) or 15
                    for frag in (False, True):
                        stream = deflate_stream(msgs, masked, rng, reset, wbits, fragment=frag)
                        a, b = sorted((rng.randint(1, len(stream) - 1), rng.randint(1, len(stream) - 1)))
                        for fbd in (True, False):
                            for chunks in ([stream], [stream[:a], stream[a:b], stream[b:]]):
                                cases.append(dict(BASE, role=role, fbd=fbd, pmc=True, pmc_params=pp, chunks=[x.hex() for x in chunks]))
                                meta.append(pp)
    res = run_cases(ck, fw, cases, timeout=900)
    ck.evaluations += len(cases)
    ck.note_cases(0, (json.dumps([fw, "pmce", c["role"], c["fbd"], c["pmc_params"], [len(x) for x in c["chunks"]]]) for c in cases))
    want = [["msg", m.hex(), b] for b, m in msgs]
    for i, (c, r, pp) in enumerate(zip(cases, res, meta)):
        tag = f"s_nct={int(pp['server_nct'])},c_nct={int(pp['client_nct'])},s_wb={pp['server_mwb']},c_wb={pp['client_mwb']}"
        ck.bump(f"pmce:{c['role']}:{tag}")
        probs = [(k, w) for k, w in ws_recv.check_against_rfc(c, r) if not any(x in k for x in KNOWN_FAMILIES)]
        got = [e for e in r["events"] if e[0] == "msg"]
        if not probs and got != want:
            probs.append((f"{c['role']}/deliveries-differ/compressed", f"the peer sent {len(want)} compressed messages of sizes "
                          f"{[len(m) for _, m in msgs]}, delivered sizes {[len(e[1]) // 2 for e in got]}"))
        for key, what in probs:
            ck.violation(f"pmce-params/{tag}/{key}", f"[{fw}] permessage-deflate negotiated with {pp}, {c['role']} role, reads "
                         f"{[len(x) // 2 for x in c['chunks']]}: {what}", {"fw": fw, "case": c, "observed": {k: v for k, v in r.items() if k != "tape"}},
                         found_input=True)
        if i % 8 == 0 and not probs and sum(len(t) for t in r["tape"]) <= 12000:
            model_cases.append((fw, c, r))


# ---------------- compression negotiated, the compressed payload is NOT valid deflate data
def codec_error_stage(ck, fw):
    """a frame flagged compressed whose payload the inflater rejects (garbage, a deflate stream damaged in a later fragment, a
    valid compressed message followed by a damaged one, a truncated stream), followed by a ping and a well-formed message
    that must not be delivered.  Both roles, both policies, UTF-8 validation on/off, text/binary, fed whole / in three
    reads / octet by octet.  Oracle: rfc_judge (invalid payload: close 1007 or drop + unclean, nothing delivered after it, no
    exception out of dataReceived) and: the reaction is the same for every segmentation.  The Gallina model has no answer for
    these runs (its decompressor is a total oracle)."""
    import zlib
    rng = ck.rng("codec-error")
    cases, group = [], []
    for role in ("server", "client"):
        masked = role == "server"

        def F(op, payload, fin=True, rsv=4):
            return enc_frame(op, payload, fin=fin, rsv=rsv, masked=masked, key=bytes(rng.getrandbits(8) for _ in range(4)))
        tail = F(9, b"pp", rsv=0) + F(1, b"ok", rsv=0)
        good = zlib.compressobj(9, zlib.DEFLATED, -15)
        z1 = (good.compress(b"hello hello hello hello, first message") + good.flush(zlib.Z_SYNC_FLUSH))[:-4]
        z2 = (good.compress(b"hello hello second message with back-references") + good.flush(zlib.Z_SYNC_FLUSH))[:-4]
        streams = []
        for op in (1, 2):
            streams.append(("garbage", F(op, b"x" * 47) + tail))
            # first fragment: a complete sync-flushed piece (the inflater is at a block boundary); continuation: block type 3 (reserved)
            streams.append(("bad-continuation", F(op, z1 + b"\x00\x00\xff\xff", fin=False) + F(0, b"\x06\x00\x00", fin=False, rsv=0) + F(0, b"", rsv=0) + tail))
            streams.append(("second-message", F(op, z1) + F(op, b"\x07" + z2[1:] + b"\xfe\xff") + tail))
            # ends inside the LEN field of a stored block: the 00 00 ff ff appended at the end of the message completes it to
            # LEN=5 / NLEN=0xff00 (not complementary): rejected by end_decompress_message, not by decompress_message_data
            streams.append(("bad-end", F(op, z1 + b"\x00\x00\xff\xff" + b"\x00\x05") + tail))
            streams.append(("bad-end-fragmented", F(op, z1 + b"\x00\x00\xff\xff", fin=False) + F(0, b"\x00\x05", rsv=0) + tail))
            streams.append(("reserved-block-type", F(op, b"\x06" + b"\x00" * 5) + tail))
            for k in range(4):
                streams.append((f"random", F(op, bytes(rng.getrandbits(8) | 6 for _ in range(rng.randint(1, 40)))) + tail))
        for lbl, st in streams:
            for fbd in (True, False):
                for utf8 in (True, False):
                    a, b = sorted((rng.randint(1, len(st) - 1), rng.randint(1, len(st) - 1)))
                    splits = [[st], [st[:a], st[a:b], st[b:]], [st[k:k + 1] for k in range(len(st))]]
                    g = []
                    for chunks in splits:
                        g.append(len(cases))
                        cases.append(dict(BASE, role=role, fbd=fbd, utf8=utf8, pmc=True, label="codec-error:" + lbl, chunks=[x.hex() for x in chunks]))
                    group.append(g)
    res = run_cases(ck, fw, cases, timeout=900)
    ck.note_cases(len(cases), (json.dumps([fw, "codec-error", c["role"], c["fbd"], c["utf8"], c["chunks"]]) for c in cases))

    def reaction(r):
        ev = r["events"]
        cut = next((k for k, e in enumerate(ev) if e[0] in ("sendclose", "drop")), len(ev))
        return json.dumps([ev[:cut], [e[:2] for e in ev[cut:cut + 1]], [e for e in ev[cut:] if e[0] == "msg"]])
    rejected = 0
    for c, r in zip(cases, res):
        ctx = dict(server=c["role"] == "server", mask_opt=c["mask_opt"], apply_mask=c["apply_mask"], pmc=True, utf8=c["utf8"],
                   max_frame=0, max_msg=0, pmc_max=None)
        verdict = ws_recv.rfc_judge(ctx, b"".join(bytes.fromhex(x) for x in c["chunks"]))[1]
        ck.bump(f"codec-error:{c['label'].split(':')[1]}:oracle={'/'.join(map(str, verdict[:2]))}:real-codec-raised={bool(r.get('codec_raised'))}")
        rejected += verdict == ("fail", "zlib")
        probs = [(k, w) for k, w in ws_recv.check_against_rfc(c, r) if not any(x in k for x in KNOWN_FAMILIES)]
        if verdict == ("fail", "zlib") and not ws_recv.codec_raised(c, r) and not probs:
            probs.append((f"{c['role']}/invalid-compressed-data/accepted", "the oracle's inflater rejects the compressed payload, the "
                          "implementation's decompressor was not seen to raise"))
        if verdict == ("fail", "zlib") and not c["fbd"] and not probs and (r["state"] != "CLOSING" or any(e[0] == "drop" for e in r["events"])):
            # nothing after the rejected message is compressed: one failure, then the closing handshake must be left running
            probs.append((f"{c['role']}/closing-handshake-abandoned", f"after announcing 1007 the endpoint dropped the connection itself "
                          f"(state {r['state']}, events after the close frame {[e[:2] for e in r['events'] if e[0] in ('drop', 'sendclose')][:4]})"))
        for key, what in probs:
            ck.violation(key if key == ws_recv.CODEC_ERROR_KEY else f"pmc/invalid-compressed-data/{key}",
                         f"[{fw}] {c['label']}, {c['role']} role, failByDrop={c['fbd']}, utf8validateIncoming={c['utf8']}, reads "
                         f"{[len(x) // 2 for x in c['chunks']][:12]}: {what}",
                         {"fw": fw, "case": c, "observed": {k: v for k, v in r.items() if k != "tape"}, "oracle": "rfc_judge"}, found_input=True)
    for g in group:
        sig = [reaction(res[i]) for i in g]
        for i, sg in zip(g[1:], sig[1:]):
            if sg != sig[0]:
                c = cases[i]
                ck.violation(f"pmc/invalid-compressed-data/{c['role']}/segmentation-dependent",
                             f"[{fw}] {c['label']}, failByDrop={c['fbd']}, utf8validateIncoming={c['utf8']}: reaction to the stream fed whole "
                             f"{sig[0][:300]} but fed as {[len(x) // 2 for x in c['chunks']][:12]} {sg[:300]}",
                             {"fw": fw, "case": c, "observed": {k: v for k, v in res[i].items() if k != "tape"}, "twin": cases[g[0]]}, found_input=True)
    ck.obligation(f"codec_error_stage_nonvacuous[{fw}]", rejected >= len(cases) // 2,
                  f"{rejected} of {len(cases)} runs carry compressed data the oracle's inflater rejects")


# ---------------- failures while the application has queued (synchronous / chopped) writes
def pending_stage(ck, fw, base_cases, pid_tag):
    """the receiver's reaction must not depend on what the application has in its write queue (sendMessage(sync=True),
    sendFrame(chopsize=n): protocol.py sendData / _send): every base case is run plain, and with queued synchronous and
    chopped writes.  With the close-handshake policy the close frame announcing 1002 / 1007 / 1009 must reach the wire --
    after the queued data, none of which may be lost or follow it."""
    cases, meta = [], []
    for bc in base_cases:
        cases.append(bc)
        meta.append(("plain", None))
        lim = min([x for x in (bc["max_msg"], bc["max_frame"]) if x] or [5])
        for mode in ("sync", "chop"):
            cases.append(dict(bc, pending_writes=dict(count=3, mode=mode, size=max(1, min(5, lim)), chop=2)))
            meta.append((mode, len(cases) - (2 if mode == "sync" else 3)))
    res = run_cases(ck, fw, cases, timeout=900)
    ck.evaluations += len(cases)
    ck.note_cases(0, (json.dumps([fw, "pending", c.get("pending_writes"), c["role"], c["fbd"], c["max_msg"], c["max_frame"], c["chunks"]]) for c in cases))

    def reaction(r, pongs):
        # queued writes reach the wire later than direct ones: what is delivered and what is written are compared as two
        # sequences (pong replies only when the connection is not dropped: a drop discards the queue)
        ev = r["events"]
        return ([e for e in ev if e[0] in ("msg", "ping", "pong")],
                [e for e in ev if e[0] in ("sendclose", "drop") or (pongs and e[0] == "sendpong")], r["state"], r["close"])
    for c, r, (mode, ip) in zip(cases, res, meta):
        if mode == "plain":
            continue
        plain = res[ip]
        pev = plain["events"]
        ic = next((k for k, e in enumerate(pev) if e[0] == "sendclose"), None)
        dropped = any(e[0] == "drop" for e in pev)
        if ic is not None and any(e[0] == "drop" for e in pev[ic:]):
            # a second failure while our close frame is out drops the connection: with a queue the close frame is
            # discarded with the rest.  Observed, not judged.
            ck.bump(f"pending:{mode}:close-then-drop-in-plain-run")
            continue
        pw = r["pending_written"]
        what = None
        if reaction(r, not dropped) != reaction(plain, not dropped):
            if ic is not None and not any(e[0] == "sendclose" for e in r["events"]):
                what = ("close-frame-not-on-wire", f"without queued writes the reaction is {pev[ic][:2]}; with them no close frame reaches the wire")
            else:
                what = ("reaction-differs", f"delivered / written {[x[-3:] for x in reaction(r, not dropped)[:2]]} state {r['state']}, without queued "
                        f"writes {[x[-3:] for x in reaction(plain, not dropped)[:2]]} state {plain['state']}")
        elif not dropped and pw["written"] != pw["queued"]:
            what = ("queued-data-lost", f"{pw['queued']} data frames were queued, {pw['written']} reached the wire")
        elif pw["after_close"]:
            what = ("data-after-close", f"{pw['after_close']} queued data frame(s) were written after our close frame")
        ck.bump(f"pending:{mode}:{'ok' if not what else what[0]}")
        if what:
            ck.violation(f"pending-writes/{mode}/{c['role']}/fbd={c['fbd']}/{what[0]}",
                         f"[{fw}] {pid_tag}: the application has {c['pending_writes']['count']} {mode} writes queued when the reads arrive "
                         f"(limits msg={c['max_msg']} frame={c['max_frame']}): {what[1]}",
                         {"fw": fw, "case": c, "observed": r, "plain_case": cases[ip], "plain_observed": plain}, found_input=True)


KNOWN_FAMILIES = ("control-callback-after-violation", "processing-after-close-frame")


def report_oracle_problems(ck, fw, case, res, probs):
    for key, what in probs:
        if fw.endswith("/nvx") and not any(x in key for x in KNOWN_FAMILIES) and key != ws_recv.CODEC_ERROR_KEY:
            key = "nvx/" + key          # seen with the native validator / masker only: its own key
        ck.bump("oracle_problem:" + key)
        ck.violation(f"{key}", f"[{fw}] {what}", {"fw": fw, "case": case, "observed": res, "oracle": "rfc_judge"}, found_input=True)


def canon_result(res):
    return json.dumps([res["events"], res["state"], res["close"]])


def run(ck):
    ck.extra_tb += [
        "modelled, not verified: CPython bytes/int semantics as mirrored in Model/WsRecv.v; the UTF-8 validator is the "
        "RFC 3629 byte-range automaton (its equality with utf8validator.py / _utf8validator.c tables is C09); the masker is "
        "xor_spec (its equality with the four maskers is C15); timers, traffic statistics, auto-ping bookkeeping and the "
        "asyncio receive queue are not modelled (queue: covered by the aio correspondence runs)",
        "oracle: permessage-deflate decompressor is a Section variable (codec) in the theorems and a replay tape of the real "
        "zlib outputs in the correspondence run; the Gallina decompressor is TOTAL (no error branch): streams the real codec rejects "
        "(the driver's wrapper sees decompress_message_data / end_decompress_message raise AND the independent oracle's inflater "
        "rejects the data too) have no model answer and are left out of the model comparison; they are judged by the RFC oracle alone "
        "(codec_error_stage: invalid payload -> close 1007 / drop + unclean, nothing delivered afterwards, same reaction for every "
        "segmentation, no exception out of dataReceived = key pmc/invalid-compressed-data/codec-error-escapes-dataReceived, fixed in "
        "/repo d7bccdc3); that error branch of onFrameData / onFrameEnd is therefore checked by differential testing, not by a theorem",
        "translator translators/ws_consts.py (ast + import) emits every integer comparison of the receive path and "
        "CLOSE_STATUS_CODES_ALLOWED into coq/Gen/WsConsts.v; trusted to emit what it reads, fails closed on a changed structure",
        "independent oracle: ws_recv.rfc_judge (RFC 6455 section 5 transcription, CPython's strict utf-8 codec, real zlib)",
        "several connections per process: C02_connections_independent holds of the model by construction (state is a value); of the "
        "implementation it is checked by xconn_stage (2-3 real connections of mixed roles / masking policies in one driver process, "
        "reads interleaved, each connection compared with the same reads on a connection of its own), with AUTOBAHN_USE_NVX=0 and =1",
        "permessage-deflate parameters (no_context_takeover per direction, window bits per direction) are not in the Gallina "
        "configuration: the decompressor is an oracle; pmce_stage runs the 16 negotiated combinations x role with real zlib on both "
        "sides and compares the messages delivered with the messages the peer compressed",
        "write queue (sync / chopped writes): pending_stage compares every reaction with the same reads without queued writes; "
        "observed, not judged: when the plain run itself drops the connection right after its own close frame (second failure, or "
        "the server's TCP close after answering the peer's close) the queued close frame is discarded with the rest of the queue "
        "(histogram pending:*:close-then-drop-in-plain-run)",
    ]
    ck.rule.append("(1) header sweep: first two octets h (all 65536 in thorough, a 4096-value stratified sample in quick) in "
                   "each of 64 receiver contexts (role x masking option x inside_message x compression x OPEN/CLOSING x failByDrop), "
                   "one fresh OPEN protocol per case, completed by zero octets; every such run is judged by the RFC oracle; the Gallina model "
                   "re-evaluates the Twisted runs: quick = all sampled headers of the 32 contexts that start OPEN and the 2816-value boundary grid of the 32 "
                   "CLOSING contexts; thorough = all 65536 headers of the OPEN contexts and the 4096-value sample of the CLOSING ones; the sequence "
                   "stage runs with AUTOBAHN_USE_NVX=0 and =1 (oracle and model); (2) generated frame sequences (fragmented text/binary, "
                   "interleaved control frames, close) with one mutated field, fed whole, at every split position (<= 40 octets), octet "
                   "by octet and at random cuts, in both roles, both failure policies, both frameworks; (3) 120 (quick) / 600 groups of 2-3 "
                   "connections in one process x random read interleavings (+60 / 300 with NVX); 16 permessage-deflate parameter "
                   "combinations x role x fragmentation x policy x 2 segmentations, 4 compressed messages sharing content; every third boundary "
                   "stream + 25 generated sequences x role x policy x (whole | one cut) x {no, synchronous, chopped} queued writes; the frame-based "
                   "and streaming receive APIs; configuration plumbing. non-trivial = the stream "
                   "reaches processData with >= 2 octets; distinct = distinct (context, stream, segmentation)")
    gen_ok = regenerate(ck)
    broken = ck.coq_props()
    ok, out = vlib.coq_make(["Model/WsRecvRun.vo"])
    if not ok:
        ck.obligation("model_runner_builds", False, out[-1500:])
        if not gen_ok:
            return
        raise RuntimeError("WsRecvRun build failed: " + out[-1500:])
    # the stages below are independent processes (driver runs, coqc): started together, collected in report order
    import concurrent.futures
    pool = concurrent.futures.ThreadPoolExecutor(max_workers=8)

    def utf8_bridge():
        # bridge to C09 (the integrator's Props/C02Utf8.v): the model's UTF-8 automaton is the table-driven validator the
        # code runs.  Its closure needs the UTF-8 tables regenerated from the tree under test (C09's translator).  The
        # property file is slow to check (Print Assumptions over the table proofs): it runs next to the other stages.
        try:
            sys.path.insert(0, os.path.join(vlib.ROOT, "translators"))
            import utf8_table
            utf8_table.generate()
            ck.obligation("translator_utf8_table", True)
            return ck.coq_props("Props/C02Utf8.v")          # obligations accumulate
        except Exception as e:      # TranslatorError (fail closed) or a missing tool chain
            ck.obligation("translator_utf8_table", False, f"{type(e).__name__}: {e}"[:600])
            return None
    bridge_job = pool.submit(utf8_bridge) if os.path.exists(os.path.join(vlib.COQ, "Props", "C02Utf8.v")) else None
    quick = ck.quick()

    # ---------------- corpus first
    corpus_dir = os.path.join(vlib.ROOT, "corpus", "C02")
    corpus = []
    if os.path.isdir(corpus_dir):
        for fn in sorted(os.listdir(corpus_dir)):
            if fn.endswith(".json"):
                corpus.append(json.load(open(os.path.join(corpus_dir, fn))))
    model_cases = []        # (case, result) pairs to be re-evaluated by the Gallina model

    # ---------------- (2) sequences under segmentations
    rng = ck.rng("seq")
    nseq = 40 if quick else 400
    split_dependent = {}
    # the real default UTF-8 validator / masker is the native (NVX) one: the whole stage runs with AUTOBAHN_USE_NVX=0 and =1
    seq_runs = [("tx", False), ("aio", False), ("tx", True)] + ([] if quick else [("aio", True)])
    # the two header sweeps (16 worker processes each) and the sequence runs are started together
    ctxs = contexts()
    sample_hdrs = stratified_headers(ck.rng("headers"))
    hdrs = None if not quick else sample_hdrs
    hdrs_small = None if not quick else stratified_headers(ck.rng("headers"), 0)      # aio in quick: the boundary grid only
    sweep_jobs = {fw: pool.submit(ck.run_impl, "ws_recv.py",
                                  {"fw": fw, "sweep": {"contexts": ctxs, "headers": hdrs if fw == "tx" else hdrs_small, "procs": 16,
                                                       "slices": 1 if quick else 4}}, nvx=False, timeout=7200) for fw in FWS}
    prepared = []
    for fw0, nvx in seq_runs:
        fw = fw0 + ("/nvx" if nvx else "")
        cases, meta = [], []
        for role in ("server", "client"):
            seqs = [("corpus", bytes.fromhex(c["stream"])) for c in corpus if c.get("role", role) == role]
            seqs += [("boundary:" + lbl, st) for lbl, st in boundary_streams(masked=(role == "server"))]
            seqs += gen_sequences(ck.rng(f"seq/{role}"), nseq, masked=(role == "server"))
            for si, (label, stream) in enumerate(seqs):
                for fbd in (True, False):
                    variants = [dict()]
                    if si % 5 == 0:
                        variants.append(dict(closing=True))
                    if si % 7 == 0:
                        variants.append(dict(utf8=False))
                    if si % 11 == 0:
                        variants.append(dict(echo=True))
                    if si % 13 == 0:
                        variants.append(dict(pmc=True))
                    for var in variants:
                        for chunks in (splits_of(rng, stream, extra=(2 if quick else 4)) if not label.startswith("boundary:")
                                       else boundary_splits(label, stream, role)):
                            c = dict(BASE, role=role, fbd=fbd, chunks=[x.hex() for x in chunks], **var)
                            cases.append(c)
                            meta.append((role, fbd, label, si, json.dumps(var, sort_keys=True)))
        burst_of = {}
        if fw0 == "aio":
            # asyncio queues reads behind one waiter wake-up: every multi-read segmentation is ALSO delivered as one
            # burst (all data_received() calls before the loop turns); it must behave exactly as read by read
            n_orig = len(cases)
            for i in range(n_orig):
                if len(cases[i]["chunks"]) >= 2 and (not quick or i % 2 == 0 or meta[i][2] == "corpus"):
                    burst_of[len(cases)] = i
                    cases.append(dict(cases[i], burst=True))
                    meta.append(meta[i][:2] + ("burst|" + meta[i][2],) + meta[i][3:])
        if nvx and quick:
            # quick: the deterministic streams (corpus, boundary tables) and a third of the generated ones
            keep = [i for i, m in enumerate(meta) if m[2] == "corpus" or m[2].startswith("boundary:") or m[3] % 3 == 0]
            cases, meta = [cases[i] for i in keep], [meta[i] for i in keep]
        ck.log(f"[{fw}] sequences: {len(cases)} implementation runs")
        prepared.append((fw0, nvx, fw, cases, meta, burst_of, pool.submit(run_cases, ck, fw0, cases, nvx=nvx)))
    for fw0, nvx, fw, cases, meta, burst_of, job in prepared:
        if not nvx:
            config_plumbing(ck, fw0)
            api_stage(ck, fw0, corpus)
            pmce_stage(ck, fw0, model_cases)
            codec_error_stage(ck, fw0)
            pend = []
            for role in ("server", "client"):
                pseqs = [(lbl, st) for k, (lbl, st) in enumerate(boundary_streams(masked=(role == "server"))) if k % 3 == 0]
                pseqs += gen_sequences(ck.rng(f"pending/{role}"), 25, masked=(role == "server"))
                for lbl, st in pseqs:
                    for fbd in (True, False):
                        pend.append(dict(BASE, role=role, fbd=fbd, chunks=[st.hex()]))
                        if len(st) > 3:
                            k = ck.rng(f"pending/cut/{len(pend)}").randint(1, len(st) - 1)
                            pend.append(dict(BASE, role=role, fbd=fbd, chunks=[st[:k].hex(), st[k:].hex()]))
            pending_stage(ck, fw0, pend, "C02")
        xconn_stage(ck, fw0, corpus, (120 if quick else 600) if not nvx else (60 if quick else 300), nvx=nvx)
        results = job.result()
        ck.evaluations += len(cases)
        ck.note_cases(0, (json.dumps([fw, c["role"], c["fbd"], c["closing"], c["utf8"], c["chunks"]]) for c in cases
                          if sum(len(x) for x in c["chunks"]) >= 4))
        groups = {}
        for c, r, m in zip(cases, results, meta):
            ck.bump(f"seq_mutation:{m[2].split(':')[0]}")
            ck.bump("seq_outcome:" + ("violation" if any(e[0] == "drop" and e[1] for e in r["events"]) or
                                      any(e[0] == "sendclose" and e[1] in (1002, 1007, 1009) for e in r["events"]) else
                                      ("closed" if any(e[0] == "sendclose" for e in r["events"]) else "open")))
            probs = ws_recv.check_against_rfc(c, r)
            report_oracle_problems(ck, fw, c, r, probs)
            if not c.get("burst") and not ws_recv.codec_rejected(c, r):
                # (runs in which the real decompressor raised on invalid compressed data are reported above under their own
                # key; they take no part in the segmentation comparison: how often it raises depends on the reads)
                groups.setdefault(m, []).append((c, r))
        for ib, io in burst_of.items():
            ck.bump("burst_runs")
            if canon_result(results[ib]) != canon_result(results[io]) and not ws_recv.codec_rejected(cases[ib], results[ib]) \
                    and not ws_recv.codec_rejected(cases[io], results[io]):
                ck.violation(f"aio/burst-dependent/failByDrop={cases[ib]['fbd']}",
                             f"[{fw}] reads {[len(x) // 2 for x in cases[ib]['chunks']]} delivered back to back before the event loop runs give "
                             f"{results[ib]['events'][-3:]} state {results[ib]['state']}, read by read {results[io]['events'][-3:]} state {results[io]['state']}",
                             {"fw": fw, "case": cases[ib], "observed": results[ib], "read_by_read_observed": results[io]}, found_input=True)
        # segmentation independence, judged on the implementation itself
        for m, lst in groups.items():
            whole_c, whole_r = lst[0]
            for c, r in lst[1:]:
                if canon_result(r) != canon_result(whole_r):
                    key = f"split-dependent/failByDrop={m[1]}"
                    ck.bump("split_dependent:" + str(m[1]))
                    if key not in split_dependent or len("".join(c["chunks"])) < len("".join(split_dependent[key][1]["chunks"])):
                        split_dependent[key] = (fw, c, r, whole_c, whole_r)
        # model sample
        srng = ck.rng(f"sample/{fw}")
        idx = list(range(len(cases)))
        srng.shuffle(idx)
        take = (300 if nvx else 500) if quick else 2500
        for i in idx[:take]:
            if sum(len(x) for x in cases[i]["chunks"]) <= 1200 and not ws_recv.codec_rejected(cases[i], results[i]):
                model_cases.append((fw, cases[i], results[i]))
        for c, r in list(zip(cases, results))[:2]:
            ck.sample({"fw": fw, "case": c, "observed": r})
    for key, (fw, c, r, wc, wr) in split_dependent.items():
        ck.violation(key, f"[{fw}] the same octets give a different outcome when split into reads {[len(x) // 2 for x in c['chunks']]}: "
                          f"{r['events'][-2:]} state {r['state']} vs whole {wr['events'][-2:]} state {wr['state']}",
                     {"fw": fw, "case": c, "observed": r, "whole_case": wc, "whole_observed": wr}, found_input=True)

    # ---------------- (1) header sweep
    # the sequence sample goes to coqc now, next to the sweep comparison further down
    terms = [coq_case(c, r) for _, c, r in model_cases]
    seq_model_job = pool.submit(ck.coq_cases, "seq", IMPORTS, "wsrecv_case_ok", terms, ty="wsrecv_case", shard=150, jobs=6)
    sweep_terms, sweep_meta = [], []
    for fw in FWS:
        use_ctxs = ctxs
        r = sweep_jobs[fw].result()
        total = 0
        for part in r["sweep"]:
            total += part["n"]
            ctx = part["ctx"]
            for p in part["problems"]:
                report_oracle_problems(ck, fw, p["case"], p["result"], [(p["key"], p["what"])])
            for o in part["table"]:
                ck.bump("hdr_outcome:" + ("fail" if any(e[0] == "drop" or (e[0] == "sendclose" and e[1] == 1002) for e in o["events"]) else "ok"))
            # model comparison (tx): quick = the sampled headers of every context; thorough = every header of the 32 contexts
            # that start OPEN and the stratified 4096-value sample of the 32 CLOSING contexts (CPU budget: the model
            # costs as much as the implementation here)
            if fw == "tx":
                pre = []
                if ctx["inside"]:
                    pre = [bytes.fromhex("01810000000061" if ctx["role"] == "server" else "010161")]
                tbl = "[" + "; ".join("(%s, %s)" % (coq_events(o["events"]), coq_final(o)) for o in part["table"]) + "]"
                runs = model_runs(part["runs"], None if not ctx["closing"] else (hdrs_small if quick else sample_hdrs))
                sweep_terms.append("(%s, %d, [%s], %s, [%s])" % (coq_cfg(ctx), 1 if ctx["closing"] else 0,
                                   ";".join(nlist(x) for x in pre), tbl, "; ".join("(%d,%d,%d)" % t for t in runs)))
                sweep_meta.append((fw, ctx))
        ck.evaluations += total
        ck.log(f"[{fw}] header sweep: {total} fresh-connection runs over {len(use_ctxs)} contexts")
        ck.note_cases(0, (json.dumps([fw, part["ctx"]["role"], part["ctx"]["mask_opt"], part["ctx"]["inside"], part["ctx"]["pmc"],
                                      part["ctx"]["closing"], part["ctx"]["fbd"], a, b, k])
                          for part in r["sweep"] for a, b, k in part["runs"]))
    if not quick:
        ck.exhaustive = True
    bad = ck.coq_cases("sweep", IMPORTS, "sweep_case_ok", sweep_terms, ty="sweep_case", shard=1, timeout=1500)
    ck.bump("model_compared_sweep_contexts", len(sweep_terms))
    ck.log(f"model vs implementation on the header sweep: {len(sweep_terms)} context slices, {len(bad)} disagree")
    for i in bad[:3]:
        fw, ctx = sweep_meta[i]
        vals = ck.coq_eval(IMPORTS, ["sweep_failing " + sweep_terms[i]])
        ck.violation(f"model-disagrees/header/{ctx['role']}/fbd={ctx['fbd']}",
                     f"[{fw}] Gallina model and implementation disagree on header values {vals[0][:200]} in context {ctx}",
                     {"fw": fw, "context": ctx, "failing_headers": vals[0][:2000], "correspondence": "sweep_case_ok"}, found_input=False)

    # ---------------- model on the sequence sample
    bad = seq_model_job.result()
    if bridge_job is not None:
        b = bridge_job.result()
        broken = b if b is not None else broken
    pool.shutdown()
    ck.bump("model_compared_sequences", len(terms))
    ck.log(f"model vs implementation on sequences: {len(terms)} cases, {len(bad)} disagree")
    for i in bad[:5]:
        fw, c, r = model_cases[i]
        vals = ck.coq_eval(IMPORTS, ["wsrecv_show " + terms[i]])
        ck.violation(("nvx/" if fw.endswith("/nvx") else "") + f"model-disagrees/seq/{c['role']}/fbd={c['fbd']}",
                     f"[{fw}] Gallina model and implementation disagree: model {vals[0][:300]} vs observed {r['events']} {r['state']} {r['close']}",
                     {"fw": fw, "case": c, "observed": r, "model": vals[0], "correspondence": "wsrecv_case_ok"}, found_input=False)
    if broken:
        ck.log(f"broken obligations: {broken}")


def replay(path):
    rec = json.load(open(path))
    r = rec["replay"]
    ck = vlib.Check("C02", "quick", 1)
    case = r.get("case")
    if case is None:
        print("no concrete case stored:", json.dumps(r)[:2000])
        return 1
    fw = r.get("fw", "tx")
    fw, nvx = fw.split("/")[0], fw.endswith("/nvx")
    print("framework     :", fw, "(native NVX validator/masker)" if nvx else "(pure Python validator/masker)")
    if "config_calls" in case:
        return replay_config(ck, fw, case)
    if "xconn" in case:
        together = run_cases(ck, fw, [case], nvx=nvx)[0]["xconn"]
        alone = run_cases(ck, fw, case["xconn"], nvx=nvx)
        bad = 0
        print("read order (connection indices):", case["schedule"])
        for j, (c, t, a) in enumerate(zip(case["xconn"], together, alone)):
            same = canon_result(t) == canon_result(a)
            bad += not same
            print(f"connection {j} ({c['role']}, failByDrop={c['fbd']}, reads {[len(x) // 2 for x in c['chunks']]}): "
                  f"{'same as alone' if same else 'DIFFERS from the same reads on a connection of its own'}")
            if not same:
                print("   together:", json.dumps([t["events"], t["state"], t["close"]])[:1500])
                print("   alone   :", json.dumps([a["events"], a["state"], a["close"]])[:1500])
                print("   RFC oracle together:", ws_recv.check_against_rfc(c, t) or "conforms", "| alone:", ws_recv.check_against_rfc(c, a) or "conforms")
        return 1 if bad else 0
    if "pending_writes" in case:
        plain = {k: v for k, v in case.items() if k != "pending_writes"}
        r, p0 = run_cases(ck, fw, [case, plain])
        print("case            :", json.dumps(case))
        print("with queued writes   :", json.dumps([r["events"], r["state"], r["close"], r.get("pending_written")]))
        print("without queued writes:", json.dumps([p0["events"], p0["state"], p0["close"]]))
        pick = lambda x: ([e for e in x["events"] if e[0] in ("msg", "ping", "pong")], [e for e in x["events"] if e[0] in ("sendclose", "drop")], x["state"], x["close"])
        pw = r["pending_written"]
        bad = pick(r) != pick(p0) or bool(pw["after_close"]) or (not any(e[0] == "drop" for e in p0["events"]) and pw["written"] != pw["queued"])
        print("verdict:", "reaction differs / queue mishandled" if bad else "same reaction")
        return 1 if bad else 0
    res = run_cases(ck, fw, [case], nvx=nvx)[0]
    print("case          :", json.dumps(case))
    print("implementation:", json.dumps(res))
    stream = b"".join(bytes.fromhex(c) for c in case["chunks"])
    ctx = dict(server=case["role"] == "server", mask_opt=case["mask_opt"], apply_mask=case["apply_mask"], pmc=case["pmc"],
               utf8=case["utf8"], max_frame=case["max_frame"], max_msg=case["max_msg"], pmc_max=case.get("pmc_max"))
    print("rfc oracle    :", ws_recv.rfc_judge(ctx, stream)[:2])
    probs = ws_recv.check_against_rfc(case, res)
    print("oracle verdict:", probs or "conforms")
    if "whole_case" in r:
        res2 = run_cases(ck, fw, [r["whole_case"]], nvx=nvx)[0]
        print("whole stream  :", json.dumps(res2))
        if canon_result(res2) != canon_result(res):
            probs.append(("split-dependent", "outcome depends on the segmentation"))
            print("split-dependent: YES")
    vlib.coq_make(["Model/WsRecvRun.vo"])
    vals = ck.coq_eval(IMPORTS, ["wsrecv_show " + coq_case(case, res), "wsrecv_case_ok " + coq_case(case, res)])
    print("Gallina model :", vals[0])
    print("model agrees with implementation:", vals[1])
    return 1 if probs else 0
