"""C05 — WebSocket connections close exactly once, in order, and in bounded time.

Shared with C17 (harness/props/c17.py imports the case encoders, the runner and the oracle from here).
"""
import itertools, json, os, time
from concurrent.futures import ThreadPoolExecutor
import vlib

IMPORTS = "From AV Require Import Model.WsConn Model.WsConnRun."
NCR = {"None": "RNone", "PeerDropped": "RPeerDropped", "OpenTO": "ROpenTO", "CloseTO": "RCloseTO", "DropTO": "RDropTO",
       "PingTO": "RPingTO", "IDropped": "RIDropped", "Handshake": "RHandshake"}
STATE = {"CONNECTING": "CONNECTING", "PROXY_CONNECTING": "CONNECTING", "OPEN": "OPEN", "CLOSING": "CLOSING", "CLOSED": "CLOSED"}


# ------------------------------------------------------------------ Coq encoders
def b(v):
    return "true" if v else "false"


def optN(v):
    return "None" if v is None else f"(Some {int(v)})"


def octs(h):
    return "[" + ";".join(str(x) for x in bytes.fromhex(h)) + "]"


def optoct(h):
    return "None" if h is None else f"(Some {octs(h)})"


def coq_cfg(c):
    return "(mkCfg %s %s %s %d %d %d %d %d %d %s %d %s)" % (
        "Server" if c["role"] == "server" else "Client", b(c["failByDrop"]), b(c["echo"]), c["openTO"], c["closeTO"],
        c["dropTO"] if c["role"] == "client" else 0, c["pingInt"], c["pingTO"], c["pingSize"], b(c["restart"]), c["t0"],
        b(c.get("proxy", False) and c["role"] == "client"))


class Unmodelled(Exception):
    """the implementation produced an observation that has no counterpart in the model's output alphabet"""


def coq_event(ev, txt_hex="", tick_to=None):
    k = ev[0]
    t = octs(txt_hex or "")
    if k == "hs": return "EHandshake"
    if k == "badhs": return "EBadHandshake"
    if k in ("hsraise", "hsdeny"): return f"(EConnectRaises {t})"
    if k == "peerBig": raise Unmodelled("event peerBig: message-size limits are not in the Gallina model (oracle-only family)")
    if k == "proxyok": return "EProxyOk"
    if k == "proxybad": return "EProxyBad"
    if k == "sendClose": return f"(ESendClose {optN(ev[1])} {optoct(ev[2])})"
    if k == "sendMessage": return "ESendMessage"
    if k == "sendPing": return "ESendPing"
    if k == "sendPong": return "ESendPong"
    if k == "peerClose":
        assert ev[1] is not None or ev[2] is None, "a close frame cannot carry a reason without a code"
        body = "None" if ev[1] is None else f"(Some ({int(ev[1])}, {optoct(ev[2])}))"
        return f"(EPeerClose {body} {t})"
    if k == "peerClose1": return f"(EPeerClose1 {t})"
    if k == "peerData": return "EPeerData"
    if k == "peerPing": return "EPeerPing"
    if k == "peerPong": return f"(EPeerPong {b(ev[1])})"
    if k == "peerViolation": return f"(EPeerViolation {t})"
    if k == "peerInvalid": return f"(EPeerInvalid {t})"
    if k == "beginMessage": return "EBeginMessage"
    if k == "sendMessageFrame": return "ESendFrame"
    if k == "endMessage": return "EEndMessage"
    if k == "peerFrag": return f"(EPeerFrag {b(ev[1])} {b(ev[2])})"
    if k == "peerHead": return "EPeerHead"
    if k == "peerTail": return "EPeerTail"
    if k == "sendPrepared": return "ESendPrepared"
    if k in ("beginMessageFrame", "sendMessageFrameData"):
        raise Unmodelled(f"event {k}: raw streaming API (oracle-only family)")
    if k in ("sendMessageSync", "sendChopped", "tickus"):
        raise Unmodelled(f"event {k}: the send queue is not in the Gallina model (oracle-only family)")
    if k == "tick": return f"(ETick {int(ev[1])})"
    if k == "tickrel": return f"(ETick {int(tick_to)})"
    if k == "peerDrop": return f"(EPeerDrop {b(ev[1])})"
    if k == "ownDrop": return "EOwnDrop"
    raise ValueError(k)


def coq_out(o):
    t, k = o[0], o[1]
    simple = {"http": "WHttp", "wdata": "WData", "wpong": "WPong", "lose": "Lose", "abort": "Abort", "cbopen": "CbOpen",
              "cbmessage": "CbMessage", "cbping": "CbPing", "cbpong": "CbPong"}
    if k in simple: return f"({t}, {simple[k]})"
    if k == "whdr": return f"({t}, WHdr)"
    if k == "wpayload": return f"({t}, WPayload {int(o[2])})"
    if k == "wping": return f"({t}, WPing {optN(o[2])})"
    if k == "wclose": return f"({t}, WClose OApi {optN(o[2])} {optoct(o[3])})"
    if k == "cbclose":
        if o[5] not in NCR: raise Unmodelled(f"onClose reason class {o[5]}")
        return f"({t}, CbClose {b(o[2])} {optN(o[3])} {optoct(o[4])} {NCR[o[5]]})"
    if k == "raised":
        if o[2] == "Disconnected": return f"({t}, Raised ExDisconnected)"
        if o[2] == "Exception": return f"({t}, Raised ExException)"
    raise Unmodelled(f"{k} {o[2:]}")


def canon_out(fw, outs):
    """asyncio's adapter calls transport.close() inside connection_lost(exc != None) after onClose: a call on a
    transport that is already gone, not a write; dropped here (named in the trusted base)."""
    res, seen_close = [], False
    for o in outs:
        if o[1] == "cbclose":
            seen_close = True
        elif seen_close and fw == "aio" and o[1] == "lose":
            continue
        res.append(o)
    return res


def coq_obs(fw, s):
    outs = canon_out(fw, s["out"])
    seq = [o for o in outs if o[1] not in ("isopen", "isclosed", "wsplitdone")]
    f = s["flags"]
    if f["ncr"] not in NCR: raise Unmodelled(f"wasNotCleanReason class {f['ncr']}")
    flags = [f["closedByMe"], f["failedByMe"], f["droppedByMe"], f["wasClean"], f["wasOpenTO"], f["wasCloseTO"],
             f["wasDropTO"], f["pingPending"], s["state"] == "PROXY_CONNECTING",
             f["inMsg"] and s["state"] != "CLOSED", f["rxPartial"] and s["state"] != "CLOSED",
             f["sendState"] != 0, f["sendState"] == 2]
    if f["sendState"] == 3:
        raise Unmodelled("send_state INSIDE_MESSAGE_FRAME")
    return "(mkObs %s [%s] %d %d %s %d [%s] [%s] %s %s %s %d)" % (
        b(s["applied"]), "; ".join(coq_out(o) for o in seq),
        sum(1 for o in outs if o[1] == "isopen"), sum(1 for o in outs if o[1] == "isclosed"),
        STATE[s["state"]], s["now"], ";".join(str(t) for t in s["timers"]), ";".join(b(x) for x in flags),
        NCR[f["ncr"]], optN(f["localCode"]), optN(f["remoteCode"]), f["pingSeq"])


def internal_txt(step, ev=None):
    """reason octets of a close frame the library generated for a failure in this step (input to the model): the close
    frames with an internal failure code, and whatever close frame the step of a raising onConnect wrote"""
    for o in step["out"]:
        if o[1] == "wclose" and o[3] is not None and (o[2] in (1002, 1007) or (ev is not None and ev[0] in ("hsraise", "hsdeny"))):
            return o[3]
    return ""


def coq_case(fw, case, res):
    steps = res["steps"]
    evs = []
    for ev, s in zip(case["events"], steps[1:]):
        evs.append(f"({coq_event(ev, internal_txt(s, ev), s.get('tick_to'))}, {coq_obs(fw, s)})")
    return "(%s, %s, [%s])" % (coq_cfg(case["cfg"]), coq_obs(fw, steps[0]), ";\n ".join(evs))


# ------------------------------------------------------------------ independent oracle (from the PROPERTY text)
def utf8_ok(bs):
    try:
        bs.decode("utf-8")       # CPython's strict decoder: rejects surrogates, overlongs, > U+10FFFF
        return True
    except UnicodeDecodeError:
        return False


WIRE_OK = set([1000, 1001, 1002, 1003, 1007, 1008, 1009, 1010, 1011, 1012, 1013, 1014]) | set(range(3000, 5000))
# RFC 6455 7.4: codes that may appear in a close frame (1004/1005/1006/1015 must not; 1016..2999 unassigned)
RANK = {"PROXY_CONNECTING": 0, "CONNECTING": 0, "OPEN": 1, "CLOSING": 2, "CLOSED": 3}


def oracle(case, res, fw):
    """Checks the C05 statement directly on the implementation log of one case; independent of the Gallina model.
    Returns a list of (key, message)."""
    bad = []
    cfg, evs, steps = case["cfg"], case["events"], res["steps"]
    role = cfg["role"]
    n_onclose = 0; close_frames = 0; gone = False; sent_close = False; rcvd_all = []
    prev_rank = RANK[steps[0]["state"]]
    closing_since = None; replied_only = False
    api_close = None
    for i, s in enumerate(steps):
        ev = evs[i - 1] if i else ["init"]
        outs = canon_out(fw, s["out"])
        r = RANK[s["state"]]
        if r < prev_rank:
            bad.append((f"{role}/state-moved-backwards", f"step {i} {ev}: {s['state']} after rank {prev_rank}"))
        prev_rank = r
        if ev[0] == "peerClose" and s["applied"] and steps[i - 1]["state"] in ("OPEN", "CLOSING"):
            rcvd_all.append((ev[1], ev[2]))
        if ev[0] == "peerClose1" and s["applied"] and steps[i - 1]["state"] in ("OPEN", "CLOSING"):
            rcvd_all.append(("1byte", None))
        # the library itself writing a frame (pong, close reply, failure close, auto ping, our close) into a data frame the
        # application has begun with beginMessageFrame and not yet completed: everything on the wire is garbage from here on
        if i and steps[i - 1]["flags"].get("sendState") == 3 and steps[i - 1]["state"] == "OPEN" and ev[0] != "sendMessageFrameData" \
                and any(o[1] in ("wdata", "wping", "wpong", "wclose", "whdr", "wpayload", "badframe") for o in outs):
            bad.append(("streaming/frame-interleaved-into-unfinished-frame", f"step {i} {ev}: octets {[o[1:] for o in outs if o[1][0] == 'w' or o[1] == 'badframe']} were written while the "
                        "data frame begun with beginMessageFrame was incomplete: they become its payload (a close frame is lost)"))
            return bad
        for o in outs:
            k = o[1]
            if k == "escaped":
                bad.append((f"{role}/{ev[0]}/ESCAPED/{o[2]}", f"step {i} {ev}: exception escaped to the framework: {o[2]} {o[3]}"))
            if k in ("badframe", "other"):
                bad.append((f"{role}/{ev[0]}/malformed-output", f"step {i} {ev}: {o}"))
            if gone and k in ("http", "wdata", "wping", "wpong", "wclose", "whdr", "wpayload", "lose", "abort", "cbopen", "cbmessage", "cbping", "cbpong", "cbclose"):
                bad.append(("sendPreparedMessage/no-state-guard" if ev[0] == "sendPrepared" else f"{role}/{k}-after-onClose", f"step {i} {ev}: {o} after the close notification"))
            WR = ("http", "wdata", "wping", "wpong", "wclose", "whdr", "wpayload", "badframe")
            who = "sendPreparedMessage/no-state-guard" if ev[0] == "sendPrepared" else None
            if i and steps[i - 1]["state"] == "CLOSED" and k in WR:
                bad.append((who or f"{role}/write-after-CLOSED", f"step {i} {ev}: {o} written although the connection was already CLOSED"))
            if sent_close and k in WR[1:]:
                bad.append((who or f"{role}/{k}-after-close-frame", f"step {i} {ev}: {o} written after a close frame"))
            if k == "raised" and o[2] not in ("Disconnected", "Exception", "PayloadExceededError"):
                bad.append((who or f"{role}/{ev[0]}/raised/{o[2]}", f"step {i} {ev}: API call raised {o[2]}"))
            if k == "wsplitdone":
                pl = o[3]
                if not (pl in ("fr", "cc") or set(pl) <= {"x"}):
                    bad.append(("streaming/frame-interleaved-into-unfinished-frame", f"step {i} {ev}: the data frame begun with beginMessageFrame "
                                f"was completed with payload {pl!r}: octets of another frame were written into it"))
            if k == "wclose":
                close_frames += 1; sent_close = True
                code, reason = o[2], o[3]
                if code is not None and code not in WIRE_OK:
                    bad.append((f"{role}/{ev[0]}/illegal-close-code-on-wire", f"step {i} {ev}: close code {code}"))
                if ev[0] == "sendClose" and code is not None and not (code == 1000 or 3000 <= code <= 4999):
                    bad.append((f"{role}/sendClose/api-close-code", f"step {i} {ev}: API close sent code {code}"))
                if reason is not None:
                    rb = bytes.fromhex(reason)
                    if len(rb) > 123 or not utf8_ok(rb) or code is None:
                        bad.append((f"{role}/{ev[0]}/illegal-close-reason", f"step {i} {ev}: reason {reason}"))
            if k == "cbclose":
                n_onclose += 1
                if o[2]:   # reported clean: close frames in both directions, and the report is the peer's (last well-formed) frame
                    def frame_ok(f):
                        return f[0] != "1byte" and (f[0] is None or f[0] in WIRE_OK) and (f[1] is None or utf8_ok(bytes.fromhex(f[1])))
                    valid = [f for f in rcvd_all if frame_ok(f)]
                    if not sent_close or not rcvd_all:
                        queued = any(e[0] in ("sendMessageSync", "sendChopped") for e in evs)
                        key = ("sendCloseFrame/queued-close-never-written-reported-clean" if queued and not sent_close and rcvd_all
                               else f"{role}/clean-without-both-close-frames")
                        bad.append((key, f"step {i} {ev}: onClose reported clean, close frame written by us: {sent_close}, close frames received: {rcvd_all}"))
                    elif not valid:
                        # only a 1-octet frame can still complete a handshake without being well-formed (it reaches
                        # onCloseFrame as an empty close); later invalid frames cannot set wasClean any more
                        key = ("onCloseFrame/1-octet-peer-close-reported-clean" if any(f[0] == "1byte" for f in rcvd_all)
                               else "onCloseFrame/invalid-peer-close-reported-clean")
                        bad.append((key, f"step {i} {ev}: onClose reported clean with {(o[3], o[4])}, the only close frame(s) received were invalid: {rcvd_all}"))
                    elif valid[-1] != (o[3], o[4]):
                        later_invalid = rcvd_all.index(valid[-1]) < len(rcvd_all) - 1 and not frame_ok(rcvd_all[-1])
                        key = "onCloseFrame/later-invalid-close-overwrites-report" if later_invalid else f"{role}/clean-report-not-peers"
                        bad.append((key, f"step {i} {ev}: onClose reported clean with {(o[3], o[4])}, close frames received: {rcvd_all}"))
        if any(o[1] == "cbclose" for o in outs):
            gone = True
        if ev[0] in ("peerDrop", "ownDrop") and s["applied"] and n_onclose != 1:
            bad.append((f"{role}/onClose-count", f"step {i} {ev}: {n_onclose} close notifications after the transport is gone"))
        # bounded closing
        if s["state"] == "CLOSING" and closing_since is None:
            closing_since = s["now"]
            replied_only = (ev[0] in ("peerClose",) and not s["flags"]["closedByMe"])
        if s["state"] == "CLOSING" and closing_since is not None:
            cto, dto = cfg["closeTO"], (cfg["dropTO"] if role == "client" else 0)
            if cto > 0 and (role == "server" or dto > 0) and s["now"] >= closing_since + cto + dto and ev[0] in ("tick", "tickrel"):
                path = "peer-close-in-OPEN/no-timer-armed" if replied_only else "closing"
                bad.append((f"{role}/{path}", f"step {i} {ev}: still CLOSING at {s['now']} ms, closing began at {closing_since} ms, "
                            f"closeHandshakeTimeout={cto} serverConnectionDropTimeout={dto}"))
    if n_onclose > 1:
        bad.append((f"{role}/onClose-count", f"{n_onclose} close notifications"))
    if close_frames > 1:
        bad.append((f"{role}/close-frame-count", f"{close_frames} close frames written"))
    for i, s in enumerate(steps[1:], 1):
        ev = evs[i - 1]
        st_before = steps[i - 1]["state"]
        raised = [o[2] for o in s["out"] if o[1] == "raised"]
        if ev[0] == "sendMessage" and st_before == "CLOSED" and raised != ["Disconnected"]:
            bad.append((f"{role}/sendMessage-after-close", f"step {i}: raised {raised}"))
        if ev[0] == "sendPrepared" and st_before != "OPEN" and s["applied"] and raised != ["Disconnected"]:
            bad.append(("sendPreparedMessage/no-state-guard", f"step {i}: sendPreparedMessage in state {st_before} raised {raised}, wrote {[o[1:] for o in s['out'] if o[1][0] == 'w']}"))
        legal_args = ev[0] != "sendClose" or ((ev[1] is None or ev[1] == 1000 or 3000 <= ev[1] <= 4999) and not (ev[1] is None and ev[2] is not None))
        if ev[0] in ("sendPing", "sendPong", "sendClose") and legal_args and st_before == "CLOSED" and s["out"]:
            bad.append((f"{role}/{ev[0]}-after-close", f"step {i}: {s['out']}"))
    return bad


# ------------------------------------------------------------------ generators
CLOSE_VARIANTS = [["sendClose", None, None], ["sendClose", 1000, None], ["sendClose", 3000, "627965"],
                  ["sendClose", 1001, None], ["sendClose", 1000, "c3a9" * 70], ["sendClose", None, "78"]]
PEER_CLOSE = [["peerClose", 1000, "6f6b"], ["peerClose", None, None], ["peerClose1"], ["peerClose", 999, None],
              ["peerClose", 1000, "ff"]]


TICKS = [["tickrel", "next"], ["tickrel", 125], ["tickrel", 875], ["tickrel", 1000]]


def alphabet(cfg=None):
    """the full event alphabet of the quantifier; ticks are relative: to the next pending deadline, just short of a
    second, a full second (the driver resolves them to absolute times, which is what the model gets)"""
    return ([["hs"], ["badhs"], ["hsraise"], ["hsdeny"]] + CLOSE_VARIANTS + [["sendMessage"], ["sendPrepared"], ["sendPing"], ["sendPong"],
             ["beginMessage"], ["sendMessageFrame"], ["endMessage"]] + PEER_CLOSE +
            [["peerData"], ["peerFrag", False, False], ["peerFrag", True, False], ["peerFrag", True, True], ["peerHead"], ["peerTail"],
             ["peerPing"], ["peerPong", True], ["peerPong", False], ["peerViolation"], ["peerInvalid"]] +
            TICKS + [["peerDrop", True], ["peerDrop", False], ["ownDrop"]])


# the core alphabet for the deep exhaustive enumeration (one representative per event source of the quantifier)
CORE = [["sendClose", 1000, "627965"], ["sendMessage"], ["peerClose", 1000, "6f6b"], ["peerClose", 999, None], ["peerData"],
        ["peerViolation"], ["tickrel", "next"], ["tickrel", 1000], ["peerDrop", False], ["ownDrop"]]
CORE_CONNECTING = [["hs"], ["badhs"], ["sendClose", 1000, None], ["sendMessage"], ["tickrel", "next"], ["peerDrop", True], ["ownDrop"]]


def base_cfg(**kw):
    d = dict(role="server", failByDrop=True, echo=False, openTO=2000, closeTO=1000, dropTO=1000, pingInt=0, pingTO=0,
             pingSize=12, restart=True, t0=0)
    d.update(kw)
    return d


def cfg_grid(rng, n=None):
    grid = []
    for role in ("server", "client"):
        for fbd in (True, False):
            for echo in (True, False):
                for cto in (0, 1000, 2000):
                    for dto in ((0, 1000, 2000) if role == "client" else (0,)):
                        grid.append(base_cfg(role=role, failByDrop=fbd, echo=echo, closeTO=cto, dropTO=dto))
    return grid


# ------------------------------------------------------------------ running
def run_impl_cases(ck, fw, cases, timeout=3000):
    r = ck.run_impl("ws_conn.py", {"fw": fw, "cases": cases}, timeout=timeout)
    return r["results"]


def run_sharded(ck, fw, cases, workers=8, timeout=3000):
    if not cases:
        return []
    n = max(1, min(workers, len(cases) // 200 + 1))
    size = (len(cases) + n - 1) // n
    chunks = [cases[i:i + size] for i in range(0, len(cases), size)]
    with ThreadPoolExecutor(max_workers=n) as ex:
        parts = list(ex.map(lambda ch: run_impl_cases(ck, fw, ch, timeout), chunks))
    return [x for p in parts for x in p]


def regenerate_consts(ck):
    """translators/wsconn_consts.py -> coq/Gen/WsConnConsts.v (fail closed)"""
    try:
        r = ck.run_impl(os.path.join(vlib.ROOT, "translators", "wsconn_consts.py"), {}, timeout=300)
    except vlib.DriverCrash as e:
        ck.obligation("translator:wsconn_consts", False, str(e)[-1500:])
        return None
    vlib.write_if_changed(os.path.join(vlib.COQ, "Gen", "WsConnConsts.v"), r["coq"])
    ck.obligation("translator:wsconn_consts", True)
    return r["values"]


def shrink(ck, fw, case, bad_of, rounds=12):
    """delta debugging by dropping events; bad_of(cases, results) -> list of bool (same failure still present).
    One driver process (and at most one coqc batch) per round."""
    evs = list(case["events"])
    for _ in range(rounds):
        if len(evs) <= 1:
            break
        cands = [dict(case, events=evs[:i] + evs[i + 1:]) for i in range(len(evs))]
        results = run_impl_cases(ck, fw, cands)
        flags = bad_of(cands, results)
        hit = next((i for i, f in enumerate(flags) if f), None)
        if hit is None:
            break
        evs = cands[hit]["events"]
    return dict(case, events=evs)


def model_trace(ck, case, res):
    evs = "; ".join(coq_event(ev, internal_txt(s, ev), s.get("tick_to")) for ev, s in zip(case["events"], res["steps"][1:]))
    return ck.coq_eval(IMPORTS, [f"conn_trace {coq_cfg(case['cfg'])} [{evs}]"])


TRUSTED = [
    "modelled, not verified: txaio batched timer (fire time = floor(now+delay) s, bucket of 200 ms, calls of one bucket run in "
    "insertion order, a cancel during the bucket's run has no effect), reactor ordering of calls due at the same time "
    "(creation order), Twisted Clock / asyncio virtual loop of harness/impl/wsdrv.py instead of a real reactor; that a real "
    "reactor fires timers and that the OS closes the socket is assumed",
    "environment assumptions built into the model: connectionLost is delivered at most once and no octets after it; "
    "handshake octets are only delivered in CONNECTING and frames only after it (non-applicable events are skipped on both sides)",
    "incoming traffic is modelled as already parsed events (octet level: WsRecv model of C01/C02); the driver builds one "
    "canonical octet string per event (violation = control frame with reserved opcode 0xB, invalid payload = text frame FF)",
    "canonicalisation: close-frame reasons of internally failed connections are an INPUT of the model (checked only for "
    "well-formed UTF-8 and <= 123 octets), wasNotCleanReason compared by class (the five fixed literals, 'I dropped...', "
    "handshake failure), is_open/is_closed resolutions counted per step (asyncio resolves one loop turn later), asyncio's "
    "transport.close() inside connection_lost(exc) after onClose ignored, times on a 125 ms grid (exact in binary floats)",
    "Python str.encode('utf8') yields well-formed UTF-8 (encode_truncate is modelled on octets; lone surrogates raise before)",
    "not modelled: Hixie-76 (websocket_version 0), flash policy file, message-size limits (close 1009: oracle-only family), "
    "raw beginMessageFrame/sendMessageFrameData, producers, TLS error reasons; application callbacks other than onConnect raising "
    "(onOpen/onMessage/onPing/onPong/onClose): the library has no reaction of its own, the exception leaves dataReceived/"
    "connectionLost to the framework",
    "library_close_codes is found by a syntactic sweep (call sites by callee name, code passed positionally or as code=): a code "
    "smuggled in through *args/**kwargs or computed makes the translator fail closed; calls through aliases are not seen",
    "sync/chopped writes (send_queue/_trigger/_send, _QUEUED_WRITE_DELAY) are NOT in the Gallina model: C05_one_close_frame and "
    "C05_onclose_once quantify over unqueued writes only; queued writes are covered on the implementation side by the "
    "send-queue family judged by the property oracle (no frame of any kind after the close frame, nothing written after "
    "CLOSED / after onClose, frames intact)",
]


def correspondence(ck, label, cases_by_fw, coq_limit, prop="C05", oracle_fn=None, do_shrink=True):
    """runs the cases on the real code (both frameworks concurrently), checks the independent oracle on all of them
    and the Gallina model (one coqc batch) on the first coq_limit of each framework."""
    oracle_fn = oracle_fn or oracle
    t0 = time.time()
    fws = list(cases_by_fw)
    with ThreadPoolExecutor(max_workers=len(fws)) as ex:
        res_by_fw = dict(zip(fws, ex.map(lambda fw: run_sharded(ck, fw, cases_by_fw[fw]), fws)))
    ck.log(f"{label}: {sum(len(v) for v in cases_by_fw.values())} sequences on the real code ({', '.join(f'{fw}={len(cases_by_fw[fw])}' for fw in fws)}) in {time.time() - t0:.1f}s")
    terms, origin = [], []
    pending_oracle = {}
    for fw in fws:
        cases, results = cases_by_fw[fw], res_by_fw[fw]
        n_model = 0
        for i, (case, res) in enumerate(zip(cases, results)):
            if "error" in res:
                ck.violation(f"harness/{label}/driver-error", f"driver failed on a case: {res['error']}",
                             {"fw": fw, "case": case, "trace": res.get("trace")}, found_input=False)
                continue
            ck.evaluations += 1
            ck.bump(f"{fw}/{case['cfg']['role']}")
            for s, ev in zip(res["steps"][1:], case["events"]):
                ck.bump("ev:" + ev[0] + ("" if s["applied"] else "(n/a)"))
            ck.bump("final:" + res["steps"][-1]["state"])
            if any(s["state"] not in ("CONNECTING", "PROXY_CONNECTING") for s in res["steps"]):
                ck.note_cases(0, [json.dumps([fw, case], sort_keys=True)])
            for key, msg in oracle_fn(case, res, fw):
                cur = pending_oracle.get(key)
                if cur is None or len(case["events"]) < len(cur[1]["events"]):
                    pending_oracle[key] = (fw, case, msg)
            if n_model < coq_limit and not case.get("oracle_only"):
                try:
                    terms.append(coq_case(fw, case, res)); origin.append((fw, i)); n_model += 1
                except Unmodelled as e:
                    ck.violation(f"{case['cfg']['role']}/unmodelled-observation",
                                 f"[{fw}] implementation produced an observation outside the model's alphabet: {e}",
                                 {"fw": fw, "case": case}, found_input=False)
        ck.bump(f"model_compared/{fw}", n_model)
    # property-oracle failures on the real code: concrete failing inputs, shrunk
    for key, (fw, case, msg) in sorted(pending_oracle.items()):
        if any(v[0] == key for v in ck.viol) or key in ck.known_hits:
            continue
        def bad_of(cands, results, key=key, fw=fw):
            return ["error" not in r and any(k == key for k, _ in oracle_fn(c, r, fw)) for c, r in zip(cands, results)]
        small = shrink(ck, fw, case, bad_of) if do_shrink else case
        r = run_impl_cases(ck, fw, [small])[0]
        msgs = [m for k, m in oracle_fn(small, r, fw) if k == key]
        ck.violation(key, f"[{fw}] {msgs[0] if msgs else msg}", {"fw": fw, "case": small}, found_input=True)
    t0 = time.time()
    badi = ck.coq_cases(f"{label}", IMPORTS, "conn_case_ok", terms, ty="conn_case", shard=100) if terms else []
    if coq_limit:
        ck.log(f"{label}: {len(terms)} sequences re-run by the Gallina model in coqc ({time.time() - t0:.1f}s), {len(badi)} disagreements")
    else:
        ck.log(f"{label}: judged by the independent property oracle only (this batch is not sent to coqc by design)")
    seen_shapes = 0
    for j in badi:
        if seen_shapes >= 3:
            break
        fw, i = origin[j]
        case = cases_by_fw[fw][i]
        def bad_of(cands, results, fw=fw):
            ts, ix = [], []
            for n, (c, r) in enumerate(zip(cands, results)):
                if "error" in r: continue
                try:
                    ts.append(coq_case(fw, c, r)); ix.append(n)
                except Unmodelled:
                    pass
            bad = set(ck.coq_cases("shrink", IMPORTS, "conn_case_ok", ts, ty="conn_case")) if ts else set()
            flags = [False] * len(cands)
            for m, n in enumerate(ix):
                flags[n] = m in bad
            return flags
        small = shrink(ck, fw, case, bad_of, rounds=10) if do_shrink else case
        shape = "/".join(e[0] for e in small["events"])
        if ck.violation(f"{small['cfg']['role']}/model-disagrees/{shape}"[:120],
                        f"[{fw}] implementation and Gallina model disagree (correspondence broken) on {json.dumps(small['events'])[:400]}",
                        {"fw": fw, "case": small}, found_input=False):
            seen_shapes += 1
    return sum(len(v) for v in cases_by_fw.values())


def run(ck):
    ck.rule.append("event sequences on a virtual clock, each after a real opening handshake unless stated: (1) ALL sequences of length "
                   "<= 4 (thorough 5) over the core alphabet {sendClose(1000,reason), sendMessage, peer close valid / reserved code, "
                   "peer data, peer violation, tick to the next pending deadline, tick +1 s, peer TCP drop, delivery of our own "
                   "drop} x role x failByDrop (echoCloseCodeReason=True: one shorter); (2) the timeout grid closeHandshakeTimeout x "
                   "serverConnectionDropTimeout in {0,1,2} s x role x failByDrop x echo on all core sequences of length <= 2 (3) and a "
                   "third of the grid one longer; (3) ALL sequences of length <= 2 (thorough 3) over the full 41-event alphabet "
                   "{handshake ok/bad/onConnect raising an exception or ConnectionDeny, sendClose x6 argument shapes, sendMessage/sendPreparedMessage/Ping/Pong, beginMessage/sendMessageFrame/endMessage, peer close valid/empty/1-octet/reserved "
                   "code/bad UTF-8, peer data/first, middle and last fragment/frame head/frame tail/ping/pong matching or not/violation/invalid payload, 4 kinds of tick, TCP drop clean/"
                   "unclean, own drop}; (4) from CONNECTING (no handshake forced) all sequences of length <= 4 (5) over {handshake "
                   "ok/bad, sendClose, sendMessage, tick, drops} x openHandshakeTimeout {0,1,2} s; (5) random walks of length <= 12 "
                   "(16) over the full alphabet with auto-ping and start phases 0/125/375/1000/1875 ms mixed in; (7) boundary close codes {0,999,1000,1003..1007,1011..1016,2999,3000,4999,5000,5001,65535} from the "
                   "peer and through sendClose, alone and in pairs, x role x failByDrop x echo; (8) client behind an explicit proxy: all "
                   "sequences of length <= 3 (4) from PROXY_CONNECTING over {proxy 2xx / 403, handshake ok/bad, sendClose, ticks, drops}; "
                   "(9) the streaming send API: all sequences of length <= 3 (4), and one longer after "
                   "beginMessage, over {beginMessage, sendMessageFrame, endMessage, sendMessage, sendPreparedMessage, sendPing, sendClose, peer close, peer "
                   "violation, peer ping, tick, own drop} x role x failByDrop; (10) ORACLE ONLY: beginMessageFrame / "
                   "sendMessageFrameData used separately and sendPreparedMessage in every state; (11) every path on which the library chooses "
                   "the close code itself: after handshake ok / onConnect raising / onConnect denying, all sequences of length <= 2 (3) over "
                   "{onConnect raising, protocol violation, invalid payload, message over maxMessagePayloadSize (oracle only), peer close "
                   "reserved code / 1 octet / bad UTF-8 reason / valid, sendClose, tick, drops} x role x failByDrop x echo, and from "
                   "CONNECTING with failByDrop=False; "
                   "(6) ORACLE ONLY (not in the "
                   "model): all sequences of length <= 4 (5) with 1..3 queued sends over {sendMessage(sync=True), sendFrame(chopsize=1), "
                   "sendMessage, sendClose x2, peer close, peer violation, tick 10 us, tick 20 us, tick 1 s, TCP drop, own drop}; every sequence on the "
                   "Twisted Clock or the asyncio virtual loop (the model sample on both). non-trivial = left CONNECTING; distinct = "
                   "distinct (framework, cfg, event list)")
    ck.extra_tb += TRUSTED
    regenerate_consts(ck)
    t_build = time.time()
    broken = ck.coq_props()
    ck.log(f"Coq: constants regenerated, Props closure built and checked in {time.time() - t_build:.1f}s "
           "(a long time here = the 5-file proof chain was rebuilt after a model change, or the build lock was held by another check)")
    ok, out = vlib.coq_make(["Model/WsConnRun.vo"])
    if not ok:
        raise RuntimeError("WsConnRun build failed: " + out[-1500:])
    rng = ck.rng("gen")
    quick = ck.quick()
    corpus = load_corpus("C05")
    roles_flags = [base_cfg(role=r, failByDrop=f, echo=e) for r in ("server", "client") for f in (True, False) for e in (True, False)]
    grid = cfg_grid(rng)

    def seqs(alpha, maxlen, prefix):
        for n in range(0, maxlen + 1):
            for seq in itertools.product(alpha, repeat=n):
                yield prefix + [list(e) for e in seq]
    # (1) ALL sequences over the core alphabet up to length 4 (quick) / 5 (thorough), role x failByDrop x echo
    deep_len = 4 if quick else 5
    deep_cfgs = [c for c in roles_flags if not c["echo"]]
    deepest = [c for c in deep_cfgs if not c["failByDrop"]] if quick else deep_cfgs      # quick: the closing-handshake policy
    deep = [dict(cfg=cfg, events=evs) for cfg in deepest for evs in seqs(CORE, deep_len, [["hs"]])]
    deep += [dict(cfg=cfg, events=evs) for cfg in roles_flags if cfg not in deepest for evs in seqs(CORE, deep_len - 1, [["hs"]])]
    # (2) the timeout grid {0,1,2} s x {0,1,2} s on all core sequences up to length 3 (quick) / 4
    gridded = [dict(cfg=cfg, events=evs) for cfg in grid for evs in seqs(CORE, 2 if quick else 3, [["hs"]])]
    gridded += [dict(cfg=cfg, events=evs) for cfg in (grid[::5] if quick else grid[::3]) for evs in seqs(CORE, 3 if quick else 4, [["hs"]])]
    # (3) ALL sequences over the full alphabet up to length 2 (quick) / 3, role x failByDrop x echo
    full = [dict(cfg=cfg, events=evs) for cfg in roles_flags for evs in seqs(alphabet(), 2, [["hs"]])]
    if not quick:
        full += [dict(cfg=cfg, events=evs) for cfg in deep_cfgs for evs in seqs(alphabet(), 3, [["hs"]])]
    # (4) from CONNECTING (no forced handshake): all sequences up to length 4 / 5 over the connecting alphabet
    conn = [dict(cfg=base_cfg(role=r, failByDrop=True, openTO=o), events=evs) for r in ("server", "client")
            for o in (0, 1000, 2000) for evs in seqs(CORE_CONNECTING, 4 if quick else 5, [])]
    # (5) random walks over the full alphabet, with auto-ping and fractional start times mixed in
    n_rand = 5000 if quick else 60000
    maxlen = 12 if quick else 16
    randoms = []
    al = alphabet()
    for i in range(n_rand):
        cfg = dict(rng.choice(grid))
        cfg["t0"] = rng.choice([0, 0, 125, 375, 1000, 1875])
        cfg["openTO"] = rng.choice([0, 1000, 2000])
        if rng.random() < 0.4:
            cfg["pingInt"] = rng.choice([1000, 2000]); cfg["pingTO"] = rng.choice([0, 1000, 2000])
            cfg["restart"] = rng.random() < 0.5; cfg["pingSize"] = rng.choice([12, 12, 20, 125])
        evs = [["hs"]] if rng.random() < 0.85 else []
        for _ in range(rng.randint(3, maxlen)):
            e = rng.choice(al)
            if e[0] == "tickrel" and rng.random() < 0.3:
                e = ["tickrel", 125 * rng.randint(0, 24)]
            evs.append(list(e))
        randoms.append(dict(cfg=cfg, events=evs))
    # (7) boundary close codes from the peer (and the same codes through the API), every one alone and in pairs with the
    #     events that matter for the reply: x role x failByDrop x echoCloseCodeReason
    CODES = [0, 999, 1000, 1003, 1004, 1005, 1006, 1007, 1011, 1012, 1013, 1014, 1015, 1016, 2999, 3000, 4999, 5000, 5001, 65535]
    CODEEV = ([["peerClose", cd, None] for cd in CODES] + [["peerClose", 5000, "78"], ["peerClose", 2999, "78"], ["sendClose", 1000, None],
              ["sendClose", 2999, None], ["sendClose", 3000, None], ["sendClose", 4999, None], ["sendClose", 5000, None],
              ["tickrel", "next"], ["ownDrop"], ["peerDrop", True]])
    codes = [dict(cfg=cfg, events=evs) for cfg in roles_flags for evs in seqs(CODEEV, 2, [["hs"]])]
    # (8) client behind an explicit proxy: all sequences of length <= 4 (5) from PROXY_CONNECTING
    PROXY = [["proxyok"], ["proxybad"], ["hs"], ["badhs"], ["sendClose", 1000, None], ["tickrel", "next"], ["tickrel", 875], ["peerDrop", True], ["ownDrop"]]
    proxy = [dict(cfg=base_cfg(role="client", proxy=True, openTO=o, t0=t0), events=evs) for o in (0, 1000, 2000) for t0 in (0, 375)
             for evs in seqs(PROXY, 3 if quick else 4, [])]
    ck.bump("family:boundary-codes", len(codes)); ck.bump("family:proxy", len(proxy))
    # (9) every send API in every state, in particular the streaming API with the close beginning mid-message (modelled):
    #     all sequences of length <= 4 (5) over the alphabet below, role x failByDrop
    STREAM = [["beginMessage"], ["sendMessageFrame"], ["endMessage"], ["sendMessage"], ["sendPrepared"], ["sendPing"], ["sendClose", 1000, None],
              ["peerClose", 1000, "6f6b"], ["peerViolation"], ["peerPing"], ["tickrel", "next"], ["ownDrop"]]
    sroles = [base_cfg(role=r, failByDrop=f) for r in ("server", "client") for f in (True, False)]
    stream = [dict(cfg=cfg, events=evs) for cfg in sroles for evs in seqs(STREAM, 3 if quick else 4, [["hs"]])]
    stream += [dict(cfg=cfg, events=[["hs"], ["beginMessage"]] + evs[1:]) for cfg in sroles
               for evs in seqs(STREAM, 3 if quick else 4, [["hs"]]) if len(evs) > 1]
    # (10) ORACLE ONLY: the raw streaming calls (beginMessageFrame / sendMessageFrameData used separately) and
    #      sendPreparedMessage, in every state
    RAW = [["beginMessage"], ["beginMessageFrame", 2], ["sendMessageFrameData", 1], ["sendMessageFrameData", 2], ["endMessage"], ["sendPrepared"],
           ["sendMessage"], ["sendClose", 1000, None], ["peerClose", 1000, "6f6b"], ["peerPing"], ["peerViolation"], ["peerDrop", True], ["ownDrop"]]
    rawfam = [dict(cfg=cfg, events=evs, oracle_only=True) for cfg in sroles for evs in seqs(RAW, 3 if quick else 4, [["hs"]])
              if any(e[0] in ("beginMessageFrame", "sendMessageFrameData", "sendPrepared") for e in evs)]
    rawfam += [dict(cfg=cfg, events=[["hs"], ["beginMessage"], ["beginMessageFrame", 2]] + evs[1:], oracle_only=True) for cfg in sroles
               for evs in seqs(RAW, 2 if quick else 3, [["hs"]]) if len(evs) > 1]
    # (11) EVERY path on which the library itself chooses the close code, x role x failByDrop x echo: onConnect raising /
    #      denying right after the handshake, protocol violation, invalid payload, reserved close code, 1-octet close, bad
    #      UTF-8 in a close reason, message beyond maxMessagePayloadSize (1009; ORACLE ONLY, limits are not in the model),
    #      each followed by all sequences of length <= 2 (3) over the same events + valid peer close, tick, drops.
    #      From CONNECTING with failByDrop=False as well (family 4 runs with failByDrop=True).
    LIB = [["hsraise"], ["peerViolation"], ["peerInvalid"], ["peerBig", 8], ["peerClose", 999, None], ["peerClose1"], ["peerClose", 1000, "ff"],
           ["peerClose", 1000, "6f6b"], ["sendClose", 1000, None], ["tickrel", "next"], ["peerDrop", True], ["ownDrop"]]
    libfam = []
    for cfg in roles_flags:
        for first in (["hs"], ["hsraise"], ["hsdeny"]):
            for evs in seqs(LIB, 2 if quick else 3, [first]):
                big = any(e[0] == "peerBig" for e in evs)
                libfam.append(dict(cfg=dict(cfg, maxMsg=4) if big else cfg, events=evs, **({"oracle_only": True} if big else {})))
    libfam += [dict(cfg=base_cfg(role=r, failByDrop=False, openTO=o, pingInt=pi), events=evs) for r in ("server", "client") for o in (0, 1000)
               for pi in (0, 1000) for evs in seqs(CORE_CONNECTING + [["hsraise"]], 3 if quick else 4, [])]
    libmodel = [c for c in libfam if not c.get("oracle_only")]
    ck.bump("family:library-chosen-close-codes", len(libfam))
    ck.bump("family:streaming", len(stream)); ck.bump("family:raw-streaming+prepared(oracle-only)", len(rawfam))
    # (6) the send queue (sync / chopped writes trickled out by _trigger/_send every _QUEUED_WRITE_DELAY = 10 us): NOT in
    #     the Gallina model; implementation against the property oracle only.  All sequences of length <= 4 (thorough 5)
    #     over the alphabet below that contain 1..3 queued sends, role x failByDrop
    SYNC = [["sendMessageSync"], ["sendChopped"], ["sendMessage"], ["sendClose", 1000, "627965"], ["sendClose", None, None],
            ["peerClose", 1000, "6f6b"], ["peerViolation"], ["tickus", 10], ["tickus", 20], ["tickrel", 1000], ["peerDrop", False], ["ownDrop"]]
    syncfam = []
    for cfg in [base_cfg(role=r, failByDrop=f) for r in ("server", "client") for f in (True, False)]:
        for evs in seqs(SYNC, 4 if quick else 5, [["hs"]]):
            nq = sum(1 for e in evs if e[0] in ("sendMessageSync", "sendChopped"))
            if 1 <= nq <= 3 and (not quick or evs[1][0] in ("sendMessageSync", "sendChopped")):
                syncfam.append(dict(cfg=cfg, events=evs, oracle_only=True))
    ck.bump("family:sendqueue(oracle-only)", len(syncfam))
    ck.log(f"generated: corpus {len(corpus)}, send-queue family (oracle only) {len(syncfam)}, core<= {deep_len}: {len(deep)}, timeout grid: {len(gridded)}, full alphabet: {len(full)}, "
           f"from CONNECTING: {len(conn)}, random (len<= {maxlen}): {len(randoms)}")
    ck.exhaustive = False
    # model comparison (Coq) on a budgeted, deterministic sample of every family; everything on the independent oracle
    budget = 1200 if quick else 6000            # per framework
    fam = [deep, gridded, full, conn, randoms, codes, proxy, stream, libmodel]
    sample = list(corpus)
    for f in fam:
        sample += rng.sample(f, min(len(f), budget // len(fam)))
    correspondence(ck, "model", {"tx": sample, "aio": sample}, coq_limit=len(sample))
    rest = libfam + syncfam + rawfam + stream + codes + proxy + deep + gridded + full + conn + randoms
    correspondence(ck, "oracle", {"tx": rest[0::2], "aio": rest[1::2]}, coq_limit=0)
    for c in (corpus + randoms)[:4]:
        ck.sample(c)
    if broken:
        ck.log(f"proof obligations broken: {broken}")


def load_corpus(pid):
    cdir = os.path.join(vlib.ROOT, "corpus", pid)
    out = []
    if os.path.isdir(cdir):
        for fn in sorted(os.listdir(cdir)):
            if fn.endswith(".json"):
                out.append(json.load(open(os.path.join(cdir, fn)))["case"])
    return out


def replay(path):
    r = json.load(open(path))["replay"]
    ck = vlib.Check("C05", "quick", 1)
    fw, case = r["fw"], r["case"]
    res = run_impl_cases(ck, fw, [case])[0]
    print("case:", json.dumps(case))
    if "error" in res:
        print("driver error:", res["error"]); return 1
    for ev, s in zip([["connectionMade"]] + case["events"], res["steps"]):
        print(f"  impl  {ev}{'' if s['applied'] else ' (not applicable)'} -> {s['state']} t={s['now']} timers={s['timers']} "
              f"flags={[k for k, v in s['flags'].items() if v is True]} ncr={s['flags']['ncr']} out={[o[1:] for o in s['out']]}")
    bad = oracle(case, res, fw)
    for k, m in bad:
        print("  ORACLE:", k, "::", m)
    try:
        vals = ck.coq_eval(IMPORTS, [f"conn_case_first_bad {coq_case(fw, case, res)}"])
        print("  model: first step where model and implementation differ:", vals)
        tr = model_trace(ck, case, res)
        print("  model trace:", tr[0][:3000])
    except Unmodelled as e:
        print("  model: observation outside the model's alphabet:", e)
    return 1 if bad else 0
