"""C13 — WAMP transports attach a session only after valid negotiation and fail closed."""
import itertools, json, os, subprocess, sys, time
from concurrent.futures import ThreadPoolExecutor

import vlib

DRIVER = "wamp_transports.py"
IMPORTS = "From AV Require Import Model.RawSocket Model.WsSubproto Model.RawSocketRun."
RS_ID = {"json": 1, "msgpack": 2, "cbor": 3, "ubjson": 4, "flatbuffers": 5}
BINARY = {"json": False, "msgpack": True, "cbor": True}
EXC_CODE = {"TransportLost": 1, "PayloadExceededError": 2, "NotImplementedError": 3, "ValueError": 4,
            "SerializationError": 5}
FWS = ("tx", "aio")


def base_ser(name):
    return name[:-8] if name.endswith(".batched") else name


def nlist(bs):
    return "[" + ";".join(str(int(b)) for b in bs) + "]"


def cstr(s):
    return nlist(s.encode())


def cbool(b):
    return "true" if b else "false"


def exc_code(name):
    return EXC_CODE.get(name, 6)


# ------------------------------------------------------------------------------------------------------------------
# serve-mode driver (needed for cross-framework pairings: octets are relayed between two live processes)
# ------------------------------------------------------------------------------------------------------------------
class Drv:
    def __init__(self, fw):
        self.fw = fw
        self.p = subprocess.Popen([vlib.VENV_PY, os.path.join(vlib.ROOT, "harness", "impl", DRIVER), "--serve", fw],
                                  stdin=subprocess.PIPE, stdout=subprocess.PIPE, stderr=subprocess.DEVNULL, text=True,
                                  env=vlib.impl_env(), cwd=vlib.ROOT)
        self.n = 0

    def __call__(self, **job):
        self.p.stdin.write(json.dumps(job) + "\n")
        self.p.stdin.flush()
        line = self.p.stdout.readline()
        if not line:
            raise vlib.DriverCrash(f"driver {self.fw} died on {json.dumps(job)[:300]}", self.p.poll(), "", job)
        r = json.loads(line)
        if "driver_error" in r:
            raise RuntimeError(f"driver {self.fw}: {r['driver_error']}\n{r.get('tb')}")
        self.n += 1
        return r

    def close(self):
        try:
            self.p.stdin.close()
            self.p.wait(timeout=10)
        except Exception:
            self.p.kill()


def writes_of(log):
    return b"".join(bytes.fromhex(e[1]) for e in log if e[0] == "write")


def split_chunks(data, rng, mode):
    n = len(data)
    if mode == "whole" or n <= 1:
        return [data]
    if mode == "bytes":
        return [data[i:i + 1] for i in range(n)]
    if isinstance(mode, int):
        return [data[:mode], data[mode:]]
    cuts = sorted(rng.randint(0, n) for _ in range(rng.randint(1, 4)))
    return [c for c in (data[a:b] for a, b in zip([0] + cuts, cuts + [n]))]


# ------------------------------------------------------------------------------------------------------------------
# 1. RawSocket handshake sweep
# ------------------------------------------------------------------------------------------------------------------
HS_CONFIGS = [  # (role, serializer names, twisted maxMessagePayloadSize or None)
    ("server", ["json", "msgpack", "cbor"], None), ("server", ["cbor", "msgpack"], 1000),
    ("client", ["json"], None), ("client", ["msgpack"], 1000),
    ("server", ["json"], None), ("client", ["cbor"], None),          # thorough only
]
RESERVED = [(0, 0), (170, 187), (0, 1)]


def hs_jobs(ck):
    jobs = []
    for role, sers, mx in (HS_CONFIGS[:4] if ck.quick() else HS_CONFIGS):
        if ck.quick():
            # all 2^16 octet pairs whole-read/zero reserved and byte-wise/non-zero reserved; the rows that matter
            # (magic and its neighbours) under every segmentation and every reserved variant
            jobs.append(dict(op="hs_sweep", role=role, sers=sers, max=mx, reserved=[[0, 0]], segs=[0], o1=None, o2=None))
            jobs.append(dict(op="hs_sweep", role=role, sers=sers, max=mx, reserved=[[170, 187]], segs=[3], o1=None, o2=None))
            jobs.append(dict(op="hs_sweep", role=role, sers=sers, max=mx, reserved=[list(r) for r in RESERVED],
                             segs=[0, 1, 2, 3], o1=[0, 126, 127, 128, 255], o2=None))
        else:
            for lo in range(0, 256, 64):
                jobs.append(dict(op="hs_sweep", role=role, sers=sers, max=mx, reserved=[list(r) for r in RESERVED],
                                 segs=[0, 1, 2, 3], o1=list(range(lo, lo + 64)), o2=None))
    return jobs


def hs_expected(fw, role, sers, mx, o1, o2, o3, o4):
    """independent oracle from the property text + the RawSocket handshake layout:
    attach iff magic 0x7F, supported serializer code (client: the one it asked for), reserved octets zero"""
    ids = [RS_ID[base_ser(s)] for s in sers]
    ser = o2 & 15
    ok = o1 == 0x7F and (ser in ids if role == "server" else ser == ids[0]) and o3 == 0 and o4 == 0
    return ok, ser, 1 << (9 + (o2 >> 4))


def judge_hs(ck, fw, role, sers, mx, o1, o2, o3, o4, seg, outcome):
    """property oracle for one observed handshake outcome"""
    opened, aborts, loses, esc, writes, rsid, ms, req, attached = outcome
    own_exp = 15 if (fw == "aio" or mx is None) else (mx - 1).bit_length() - 9
    want, ser, limit = hs_expected(fw, role, sers, mx, o1, o2, o3, o4)
    rep = dict(kind="rs-handshake", fw=fw, role=role, sers=sers, max=mx, octets=[o1, o2, o3, o4], seg=seg,
               observed=dict(onOpen=opened, abort=aborts, close=loses, escaped=esc, written=writes,
                             serializer=rsid, max_send=ms))
    if esc:
        ck.violation(f"rawsocket.{fw}.{role}/handshake/ESCAPED/{esc}",
                     f"{fw} RawSocket {role}: handshake {bytes([o1, o2, o3, o4]).hex()} lets {esc} escape "
                     f"the framework entry point (written: '{writes}', transport closed: {bool(aborts or loses)})",
                     rep, True)
    if opened and not want:
        why = "non-zero reserved octets" if (o1 == 0x7F and (o3 or o4)) else "invalid handshake"
        ck.violation(f"rawsocket.{fw}.{role}/handshake/attach/" + why.replace(" ", "-"),
                     f"{fw} RawSocket {role}: session attached on handshake "
                     f"{bytes([o1, o2, o3, o4]).hex()} ({why})", rep, True)
    if want and not opened:
        ck.violation(f"rawsocket.{fw}.{role}/handshake/refused-valid",
                     f"{fw} RawSocket {role}: valid handshake {bytes([o1, o2, o3, o4]).hex()} refused", rep, True)
    if opened:
        exp_reply = bytes([0x7F, (own_exp << 4) | ser, 0, 0]).hex() if role == "server" else ""
        if opened != 1 or aborts or loses or rsid != ser or ms != limit or writes != exp_reply or not attached:
            ck.violation(f"rawsocket.{fw}.{role}/handshake/negotiated-values",
                         f"attach with wrong values: serializer {rsid} (want {ser}), max_send {ms} (want {limit}), "
                         f"reply '{writes}' (want '{exp_reply}')", rep, True)
    elif not esc:
        if not (aborts or loses) or attached:
            ck.violation(f"rawsocket.{fw}.{role}/handshake/refused-not-closed",
                         "handshake refused but the transport was not closed", rep, True)
        # the only reply a refusing side writes: asyncio server, well-formed handshake, serializer unsupported -> error 1
        ids = [RS_ID[base_ser(x)] for x in sers]
        exp_w = "7f100000" if (fw == "aio" and role == "server" and o1 == 0x7F and o3 == 0 and o4 == 0 and ser not in ids) else ""
        if writes != exp_w:
            ck.violation(f"rawsocket.{fw}.{role}/handshake/refusal-reply",
                         f"refused handshake {bytes([o1, o2, o3, o4]).hex()}: wrote '{writes}', expected '{exp_w}'", rep, True)
    if role == "client":
        own = RS_ID[base_ser(sers[0])]
        if req != bytes([0x7F, (own_exp << 4) | own, 0, 0]).hex():
            ck.violation(f"rawsocket.{fw}.client/request", f"client request octets '{req}'", rep, True)


def run_corpus(ck):
    """minimised interesting cases, always first (one driver process per framework)"""
    d = os.path.join(vlib.ROOT, "corpus", "C13")
    files = sorted(f for f in os.listdir(d) if f.endswith(".json")) if os.path.isdir(d) else []
    n = 0
    jobs = {fw: [] for fw in FWS}
    for f in files:
        c = json.load(open(os.path.join(d, f)))
        if c.get("tier") == "thorough" and ck.quick():
            continue
        if c["kind"] == "rs-handshake":
            o1, o2, o3, o4 = c["octets"]
            jobs[c["fw"]].append((c, dict(op="hs_sweep", role=c["role"], sers=c["sers"], max=c.get("max"), reserved=[[o3, o4]],
                                          segs=[0, 1, 2, 3], o1=[o1], o2=[o2])))
        elif c["kind"] == "rs-after-abort":
            for mode, chunks in (("one-read", [c["handshake"] + c["garbage_frame"] + c["valid_frame"]]),
                                 ("two-reads", [c["handshake"] + c["garbage_frame"], c["valid_frame"]])):
                jobs[c["fw"]].append((dict(c, mode=mode), dict(op="script", jobs=[
                    dict(op="new", ep="e", kind="rs", role="server", sers=["json"], max=None, sess={}),
                    dict(op="feed", ep="e", chunks=chunks, env_stop=True)])))
    for fw, lst in jobs.items():
        if not lst:
            continue
        outs = ck.run_impl(DRIVER, {"fw": fw, "jobs": [j for _, j in lst]})["results"]
        obs = {}
        for (c, j), out in zip(lst, outs):
            if c["kind"] == "rs-handshake":
                o1, o2, o3, o4 = c["octets"]
                for key, rl in out["runs"].items():
                    seg = int(key.split(",")[2])
                    judge_hs(ck, fw, c["role"], c["sers"], c.get("max"), o1, o2, o3, o4, seg, out["outcomes"][rl[0][2]])
                    n += 1
            else:
                # observation (not a violation of the property text): frames following a rejected frame IN THE SAME READ still
                # reach the session after abort(); in a separate read they do not
                lg = [e for x in out["results"] for e in x["log"]]
                obs[c["mode"]] = [e[0] for e in lg if e[0] in ("abort", "sess_msg")]
                n += 1
        if obs:
            ck.notes.append(f"observation rawsocket.{fw}/deliver-after-abort: one read -> {obs.get('one-read')}, two reads -> {obs.get('two-reads')}")
            ck.bump(f"observation/deliver-after-abort/{fw}/" + ("yes" if (obs.get("one-read") or [])[-1:] == ["sess_msg"] else "no"))
    ck.evaluations += n
    ck.log(f"corpus: {len(files)} files, {n} executions")


def run_hs(ck):
    t0 = time.time()
    per_fw = {}
    jobs = hs_jobs(ck)

    def go(arg):
        fw, chunk = arg
        return fw, chunk, ck.run_impl(DRIVER, {"fw": fw, "jobs": chunk}, timeout=3000)["results"]
    work = []
    per = 1 if not ck.quick() else 3
    for fw in FWS:
        for i in range(0, len(jobs), per):
            work.append((fw, jobs[i:i + per]))
    with ThreadPoolExecutor(max_workers=14) as ex:
        done = list(ex.map(go, work))
    coq = []
    n_cases = 0
    seen_keys = set()
    seg_tables = {}
    for fw, chunk, results in done:
        for job, r in zip(chunk, results):
            n_cases += r["n"]
            role, sers, mx = job["role"], job["sers"], job["max"]
            ids = [RS_ID[base_ser(s)] for s in sers]
            own_exp = 15 if (fw == "aio" or mx is None) else (mx - 1).bit_length() - 9
            for key, rl in r["runs"].items():
                o3, o4, seg = (int(x) for x in key.split(","))
                table = seg_tables.setdefault((fw, role, tuple(sers), mx, o3, o4, tuple(job["o1"] or [])), {})
                table[seg] = [(s, c, json.dumps(r["outcomes"][k])) for s, c, k in rl]
                for start, count, k in rl:
                    opened, aborts, loses, esc, writes, rsid, ms, req, attached = r["outcomes"][k]
                    kind = 0 if opened else 1 if aborts else 2 if loses else 3 if esc else 4
                    ck.bump(f"hs/{fw}/{role}/" + ("attach", "refuse-abort", "refuse-close", "ESCAPED", "nothing")[kind], count)
                    coq.append("(%d,%d,%s,%d,%d,%d,%d,%d,%d,(%d,%d,%d,%s,%d))" % (
                        0 if fw == "tx" else 1, 0 if role == "server" else 1, nlist(ids),
                        (mx or 2 ** 24) if fw == "tx" else 2 ** 24, o3, o4, seg, start, count,
                        kind, rsid or 0, ms or 0, nlist(bytes.fromhex(writes)), exc_code(esc) if esc else 0))
                    # ---- property oracle on every member of the run ----
                    if count <= 4:
                        todo = range(start, start + count)
                    else:       # long runs are refusals: every member is checked for "attach expected?", three in full
                        todo = {start, start + count // 2, start + count - 1}
                        if (o3, o4) == (0, 0):
                            lo, hi = max(start, 127 << 8), min(start + count, 128 << 8)
                            todo |= {i for i in range(lo, hi) if ((i & 15) in ids if role == "server" else (i & 15) == ids[0]) != bool(opened)}
                        if opened:
                            todo |= set(range(start, start + count))
                    for idx in sorted(todo):
                        judge_hs(ck, fw, role, sers, mx, idx >> 8, idx & 255, o3, o4, seg, r["outcomes"][k])
    # segmentation independence of the handshake outcome (oracle: "however segmented")
    for ctx, table in seg_tables.items():
        segs = sorted(table)
        for sg in segs[1:]:
            if table[sg] != table[segs[0]]:
                ck.violation(f"rawsocket.{ctx[0]}.{ctx[1]}/handshake/segmentation-dependent",
                             f"handshake outcome depends on segmentation ({ctx})", dict(kind="rs-handshake-seg", ctx=list(ctx)), True)
    ck.evaluations += n_cases
    ck.note_cases(0, coq)
    ck.log(f"handshake sweep: {n_cases} real handshakes over both frameworks in {time.time() - t0:.1f}s, {len(coq)} outcome runs")
    return coq


# ------------------------------------------------------------------------------------------------------------------
# 2. framing machines
# ------------------------------------------------------------------------------------------------------------------
def gen_streams(ck, maxlen):
    rng = ck.rng(f"frames/{maxlen}")
    streams = []
    sizes = [0, 1, 2, 3, 4, 5, maxlen - 1, maxlen, 7, 100]
    for k in range(60 if ck.quick() else 400):
        frames, kind = [], "valid"
        for _ in range(rng.randint(1, 4)):
            n = rng.choice(sizes) if rng.random() < 0.7 else rng.randint(0, min(maxlen, 300))
            frames.append(len(n.to_bytes(4, "big")) and n.to_bytes(4, "big") + bytes(rng.getrandbits(8) for _ in range(n)))
        r = rng.random()
        tail = b""
        if r < 0.15:
            kind, tail = "oversize", (maxlen + rng.choice([1, 2, 1000])).to_bytes(4, "big") + b"xyz"
        elif r < 0.25:
            kind, tail = "typebits", bytes([rng.choice([1, 2, 3, 4, 7, 8, 0x10, 0x80, 0xFF]), 0, 0, rng.randint(0, 5)]) + b"abcdef"
        elif r < 0.35:
            kind, tail = "partial", (rng.randint(5, 50)).to_bytes(4, "big") + b"ab"
        elif r < 0.40:
            kind, tail = "partial-header", b"\x00\x00"
        data = b"".join(frames) + tail
        streams.append((kind, data))
    return streams


def indep_parse(fw, maxlen, data):
    """reference reading of one whole stream, written from the RawSocket framing rules of each receiver
    (Twisted: 32-bit length; asyncio: 3 type bits + 24-bit length): events until the first reject"""
    ev, i = [], 0
    while len(data) - i >= 4:
        if fw == "tx":
            n = int.from_bytes(data[i:i + 4], "big")
            if n > maxlen:
                return ev + [["reject"]], None
            typ = 0
        else:
            typ = data[i] & 7
            n = int.from_bytes(data[i + 1:i + 4], "big")
            if typ > 2 or n > maxlen:
                return ev + [["reject"]], None
        if len(data) - i - 4 < n:
            break
        if typ != 0:
            return ev + [["reject"]], None
        ev.append(["frame", data[i + 4:i + 4 + n].hex()])
        i += 4 + n
    return ev, data[i:]


def run_frames(ck):
    coq = []
    n_eval = 0
    jobs = {}
    for maxlen in (512, 1024, 300):
        streams = gen_streams(ck, maxlen)
        rng = ck.rng(f"frames-split/{maxlen}")
        cases = []
        for kind, data in streams:
            modes = ["whole", "bytes", "rand", "rand"]
            if len(data) <= 24:
                modes += list(range(1, len(data)))
            for mode in modes:
                cases.append((kind, data, [c for c in split_chunks(data, rng, mode)]))
        jobs[maxlen] = cases
    res = {}
    for fw in FWS:
        r = ck.run_impl(DRIVER, {"fw": fw, "jobs": [dict(op="frame_sweep", maxlen=m, streams=[{"chunks": [c.hex() for c in ch]}
                                                         for _, _, ch in cases]) for m, cases in jobs.items()]})["results"]
        res[fw] = dict(zip(jobs.keys(), r))
    for fw in FWS:
        for maxlen, cases in jobs.items():
            results = res[fw][maxlen]["results"]
            for (kind, data, chunks), out in zip(cases, results):
                n_eval += 1
                ck.bump(f"frames/{fw}/{kind}")
                events = out["events"]
                frames = [e for e in events if e[0] == "frame"]
                rejected = [e for e in events if e[0] in ("lose", "abort", "escaped")]
                want_ev, want_rest = indep_parse(fw, maxlen, data)
                got = frames + ([["reject"]] if rejected else [])
                rep = dict(kind="rs-frames", fw=fw, maxlen=maxlen, chunks=[c.hex() for c in chunks], observed=events,
                           expected=want_ev)
                if got != want_ev or (want_rest is not None and not rejected and bytes.fromhex(out["buf"]) != want_rest):
                    ck.violation(f"rawsocket.{fw}/framing/{kind}/differs-from-reference",
                                 f"{fw} frame receiver (max {maxlen}) differs from the reference reading of the stream "
                                 f"under segmentation {[len(c) for c in chunks][:12]}", rep, True)
                if kind == "oversize" and want_ev[-1:] == [["reject"]] and len(events) and not rejected:
                    ck.violation(f"rawsocket.{fw}/framing/oversize-buffered", "oversize frame was not rejected at its header", rep, True)
                # model case
                cev = []
                for e in events:
                    if e[0] == "frame": cev.append("(0,%s)" % nlist(bytes.fromhex(e[1])))
                    elif e[0] in ("lose", "abort"): cev.append("(1,[])")
                    elif e[0] == "escaped": cev.append("(2,[%d])" % exc_code(e[1]))
                if len(data) <= 700:
                    coq.append("(%d,%d,[%s],[%s],%s,%s)" % (0 if fw == "tx" else 1, maxlen, ";".join(nlist(c) for c in chunks),
                                                           ";".join(cev), cbool(out["dead"]),
                                                           nlist(b"" if out["dead"] else bytes.fromhex(out["buf"]))))
    ck.evaluations += n_eval
    ck.note_cases(0, coq)
    ck.log(f"framing: {n_eval} streams x segmentations on the real receivers")
    return coq


# ------------------------------------------------------------------------------------------------------------------
# 3. whole RawSocket connections: corruption at every position, session failures, loss, sends around the limit
# ------------------------------------------------------------------------------------------------------------------
def react_code(k):
    return {"ok": "ROk", "proto": "RProto", "cancel": "RCancel", "other": "ROther"}[k]


def canon_log(log, fw):
    """driver log -> canonical events of Model/RawSocketRun.v (adjacent writes merged)"""
    out = []
    for e in log:
        k = e[0]
        if k == "write":
            d = bytes.fromhex(e[1])
            if out and out[-1][0] == 0:
                out[-1] = (0, out[-1][1] + d)
            else:
                out.append((0, d))
        elif k == "abort": out.append((1, []))
        elif k == "lose": out.append((2, []))
        elif k == "sess_open": out.append((3, []))
        elif k == "sess_msg": out.append((4, [e[1] if isinstance(e[1], int) and not isinstance(e[1], bool) else 0]))   # no publication id: 0
        elif k == "sess_close": out.append((5, [1 if e[1] else 0]))
        elif k == "escaped": out.append((6, [exc_code(e[1])]))
        elif k == "raised": out.append((7, [exc_code(e[1])]))
    res = []
    for k, d in out:
        if k == 0:
            res.append("(0,%s)" % nlist(list(d[:4]) + [len(d)]))
        else:
            res.append("(%d,%s)" % (k, nlist(d)))
    return "[" + ";".join(res) + "]"


def run_hs_splits(ck):
    """handshake ++ frames as ONE stream under every cut position (incl. cuts inside the handshake with frame octets following
    in the same read, and a second cut right after), all four implementation x role combinations; oracle: every message is
    delivered intact and in order, nothing is closed, nothing escapes"""
    coq, n_eval = [], 0
    rng = ck.rng("hs-splits")
    for fw in FWS:
        plans = []
        for role in ("server", "client"):
            for ser in ("json", "msgpack", "cbor"):
                plans.append((role, ser, [{"id": 200 + i, "pad": rng.randint(0, 6)} for i in range(2 if ser == "json" else 3)]))
        fr = ck.run_impl(DRIVER, {"fw": fw, "jobs": [dict(op="frames", ser=ser, msgs=msgs) for _, ser, msgs in plans]})["results"]
        jobs, meta = [], []
        for (role, ser, msgs), f in zip(plans, fr):
            rsid = RS_ID[ser]
            payloads = [bytes.fromhex(x["payload"]) for x in f["frames"]]
            hs = bytes([0x7F, (rng.choice([0, 3, 15]) << 4) | rsid, 0, 0])
            data = hs + b"".join(len(p).to_bytes(4, "big") + p for p in payloads)
            n = len(data)
            cuts = [(i,) for i in range(1, n if (ser == "json" or not ck.quick()) else 14)]
            cuts += [(i, j) for i in (1, 2, 3) for j in range(i + 1, 10)] + [(1, 2, 3, 9), (2, 6), (3, 4, 5)]
            for cs in cuts:
                pts = [0] + list(cs) + [n]
                chunks = [data[a:b] for a, b in zip(pts, pts[1:])]
                jobs.append(dict(op="script", jobs=[
                    dict(op="new", ep="e", kind="rs", role=role, sers=[ser], max=None, sess={}),
                    dict(op="feed", ep="e", chunks=[c.hex() for c in chunks], env_stop="framing"),
                    dict(op="lost", ep="e", clean=True)]))
                meta.append((role, ser, msgs, chunks, rsid))
        out = ck.run_impl(DRIVER, {"fw": fw, "jobs": jobs})["results"]
        for (role, ser, msgs, chunks, rsid), o in zip(meta, out):
            n_eval += 1
            log = [e for r in o["results"] for e in r["log"]]
            got = [e[1] for e in log if e[0] == "sess_msg"]
            bad = [e for e in log if e[0] in ("abort", "lose", "escaped")]
            want = [m["id"] for m in msgs]
            ck.bump(f"hs-split/{fw}/{role}")
            if got != want or bad or sum(1 for e in log if e[0] == "sess_close") != 1:
                ck.violation(f"rawsocket.{fw}.{role}/handshake+frames/segmentation/delivery",
                             f"{fw} RawSocket {role} ({ser}): handshake and frames in one stream cut as {[len(c) for c in chunks]}: "
                             f"delivered {got} (expected {want}), failures {bad[:3]}",
                             dict(kind="rs-conn", fw=fw, role=role, ser=ser, pos=0, corr="none", split=[len(c) for c in chunks],
                                  lost_clean=True, mx=None, chunks=[c.hex() for c in chunks], react={}, log=log), True)
            coq.append("(%d,%d,%s,16777216,false,[%s],[%s;ILost true],%s)" % (
                0 if fw == "tx" else 1, 0 if role == "server" else 1, nlist([rsid]),
                ";".join("Batch [(%d,ROk)]" % m["id"] for m in msgs), ";".join("IData %s" % nlist(c) for c in chunks), canon_log(log, fw)))
    ck.evaluations += n_eval
    ck.note_cases(0, coq)
    ck.log(f"handshake+frames in one stream: {n_eval} cut patterns (every cut position; cuts inside the handshake with trailing frame octets)")
    return coq


def limit_sizes(ck):
    """configured maxMessagePayloadSize values: N-1, N, N+1 around powers of two, and arbitrary non-powers"""
    exps = (9, 10, 12, 16) if ck.quick() else (9, 10, 11, 12, 13, 14, 15, 16, 17)
    vals = set()
    for k in exps:
        for v in ((1 << k) - 1, 1 << k, (1 << k) + 1):
            if 512 <= v <= 1 << 24:
                vals.add(v)
    vals |= {1000, 3000} | (set() if ck.quick() else {777, 5000, 40000, 100000})
    return sorted(vals)


def run_rs_limits(ck):
    """announced receive limit == enforced receive limit, for configured sizes that are not powers of two, every
    implementation x role: the limit is read off the handshake octets the endpoint WROTE, then a real serialized message of
    exactly announced-1 / announced / announced+1 octets is framed and fed: the first two must reach the session, the third
    must be refused (and the configured size must not exceed the announced one)"""
    coq, n_eval = [], 0
    for fw in FWS:
        sizes = limit_sizes(ck) if fw == "tx" else [None]          # asyncio has no option: always 2^24 (boundary: thorough tier)
        plans = []
        for role in ("server", "client"):
            for N in sizes:
                plans.append((role, N))
        # 1. what does each endpoint announce?  (fresh endpoint, valid peer handshake)
        peer_hs = {"server": "7ff10000", "client": "7ff10000"}
        probe = [dict(op="script", jobs=[dict(op="new", ep="e", kind="rs", role=role, sers=["json"], max=N, sess={}),
                                         dict(op="feed", ep="e", chunks=[peer_hs[role]], env_stop=False)]) for role, N in plans]
        pr = ck.run_impl(DRIVER, {"fw": fw, "jobs": probe})["results"]
        ann = {}
        for (role, N), o in zip(plans, pr):
            log = [e for r in o["results"] for e in r["log"]]
            w = writes_of(log)
            st = o["results"][-1]["state"]
            n_eval += 1
            rep = dict(kind="rs-limit", fw=fw, role=role, configured=N, written=w.hex(), state=st)
            if len(w) != 4 or w[0] != 0x7F or not st["attached"]:
                ck.violation(f"rawsocket.{fw}.{role}/limit/handshake", f"unexpected handshake octets '{w.hex()}'", rep, True)
                continue
            a = 1 << (9 + (w[1] >> 4))
            ann[(role, N)] = a
            ck.bump(f"rs-limit/{fw}/{role}/announced-2^{9 + (w[1] >> 4)}")
            if N is not None and a < N:
                ck.violation(f"rawsocket.{fw}.{role}/limit/announced-below-configured", f"configured {N}, announced {a}", rep, True)
            if N is not None and a >= 2 * N and N > 512:
                ck.violation(f"rawsocket.{fw}.{role}/limit/announced-not-tight", f"configured {N}, announced {a}", rep, True)
            if st["max_recv"] != a:
                ck.violation(f"rawsocket.{fw}.{role}/limit/announced-vs-enforced",
                             f"{fw} RawSocket {role} configured with {N} announces {a} octets (handshake '{w.hex()}') but enforces "
                             f"{st['max_recv']} on incoming frames", rep, True)
        # 2. behaviour at the announced boundary (sizes a real frame can be built for quickly)
        todo = [(role, N, a, L) for (role, N), a in ann.items() if a <= ((1 << 13) if ck.quick() else (1 << 17)) for L in (a - 1, a, a + 1)]
        if not todo:
            continue
        fr = ck.run_impl(DRIVER, {"fw": fw, "jobs": [dict(op="frames", ser="json", msgs=[{"id": 900, "len": L}]) for _, _, _, L in todo]})["results"]
        jobs = []
        for (role, N, a, L), f in zip(todo, fr):
            payload = bytes.fromhex(f["frames"][0]["payload"])
            assert len(payload) == L, (len(payload), L)
            frame = L.to_bytes(4, "big") + payload
            cut = len(frame) // 2
            jobs.append(dict(op="script", jobs=[dict(op="new", ep="e", kind="rs", role=role, sers=["json"], max=N, sess={}),
                                                 dict(op="feed", ep="e", chunks=[peer_hs[role], frame[:cut].hex(), frame[cut:].hex()], env_stop=True),
                                                 dict(op="lost", ep="e", clean=True)]))
        out = ck.run_impl(DRIVER, {"fw": fw, "jobs": jobs})["results"]
        for (role, N, a, L), o in zip(todo, out):
            n_eval += 1
            log = [e for r in o["results"] for e in r["log"]]
            got = [e[1] for e in log if e[0] == "sess_msg"]
            bad = [e for e in log if e[0] in ("abort", "lose", "escaped")]
            rep = dict(kind="rs-limit", fw=fw, role=role, configured=N, announced=a, length=L,
                       log=[e if e[0] != "write" else ["write", e[1][:16]] for e in log])
            if L <= a and (got != [900] or bad):
                ck.violation(f"rawsocket.{fw}.{role}/limit/within-announced-refused",
                             f"{fw} RawSocket {role} configured with {N} announced {a} octets, but a {L}-octet message was not "
                             f"delivered: {bad[:2]}", rep, True)
            if L > a and (got or not bad):
                ck.violation(f"rawsocket.{fw}.{role}/limit/over-announced-accepted",
                             f"{fw} RawSocket {role} announced {a} octets but took a {L}-octet message (delivered {got}, closed {bool(bad)})", rep, True)
            if a <= 4096:
                ev = canon_log(log, fw)
                coq.append("(%d,%d,[1],%d,false,[Batch [(900,ROk)]],[IData %s;IData %s;ILost true],%s)" % (
                    0 if fw == "tx" else 1, 0 if role == "server" else 1, N if N is not None else 2 ** 24,
                    nlist(bytes.fromhex(peer_hs[role])), nlist(L.to_bytes(4, "big") + bytes.fromhex(f_payload(fr, todo, (role, N, a, L)))), ev))
    ck.evaluations += n_eval
    ck.note_cases(0, coq)
    ck.log(f"announced vs enforced receive limit: {n_eval} probes (configured sizes around powers of two and arbitrary, both roles)")
    return coq


def f_payload(fr, todo, key):
    return fr[todo.index(key)]["frames"][0]["payload"]


def run_ws_shapes(ck, drv):
    """delivery shapes of the framework: the same octet stream handed over as one read per event-loop iteration or as a
    burst of several reads within ONE iteration (asyncio queues them behind one waiter wake-up), every cut position of a
    short stream / byte-wise / random cuts, both directions, all pairings; oracle: messages intact and in order"""
    rng = ck.rng("ws-shapes")
    n_eval = 0
    sers = ["json", "msgpack"] if ck.quick() else ["json", "msgpack", "cbor", "json.batched"]
    for cfw, sfw in PAIRINGS:
        dc, ds = drv[cfw], drv[sfw]
        for ser in sers:
            for direction in ("c2s", "s2c"):
                tag0 = f"S{cfw}{sfw}{ser}{direction}"
                # the wire octets once (sender endpoint), replayed into fresh receivers
                splits = [1, 2, 3, 7, "bytes", "rand", "rand"] + ([] if ck.quick() else [5, 11, 20, "rand", "rand"])
                for si, mode in enumerate(splits):
                    for burst in (True, False):
                        tag = f"{tag0}{si}{int(burst)}"
                        ws_handshake(dc, ds, tag, [ser], [ser])
                        snd, sname, rcv, rname, rfw, rrole = ((dc, "c" + tag, ds, "s" + tag, sfw, "server") if direction == "c2s"
                                                             else (ds, "s" + tag, dc, "c" + tag, cfw, "client"))
                        so = snd(op="send", ep=sname, msgs=[{"id": 400 + i, "pad": rng.randint(0, 30)} for i in range(3)])
                        wire = relay(so["log"])
                        chunks = split_chunks(wire, rng, mode)
                        ro = rcv(op="feed", ep=rname, chunks=[c.hex() for c in chunks], env_stop=True, burst=burst)
                        got = [e[1] for e in ro["log"] if e[0] == "sess_msg"]
                        bad = [e for e in ro["log"] if e[0] in ("abort", "lose", "escaped", "sess_close")]
                        n_eval += 1
                        ck.bump(f"ws-shape/{rfw}.{rrole}/" + ("burst" if burst else "step"))
                        if got != [400, 401, 402] or bad:
                            ck.violation(f"websocket.{rfw}.{rrole}/delivery/" + ("burst" if burst else "one-read-per-iteration"),
                                         f"{rfw} WAMP-over-WebSocket {rrole} ({ser}): 3 valid messages delivered as {len(chunks)} reads "
                                         f"{'within ONE event-loop iteration' if burst else 'one per event-loop iteration'} "
                                         f"(sizes {[len(c) for c in chunks][:10]}): session got {got}, failures {bad[:3]}",
                                         dict(kind="ws-shape", client=cfw, server=sfw, ser=ser, direction=direction, burst=burst,
                                              chunks=[c.hex() for c in chunks], got=got, log=ro["log"][-8:]), True)
                        dc(op="drop", ep="c" + tag); ds(op="drop", ep="s" + tag)
    ck.evaluations += n_eval
    ck.log(f"WebSocket delivery shapes (burst / one read per iteration): {n_eval} conversations")


# decodable payloads that are not WAMP messages: (label, python object, Coq `raw` term of the envelope spec)
HELLO_TAIL = ["realm1", {"roles": {"subscriber": {}}}]
MALFORMED = [
    ("code-true", [True] + HELLO_TAIL, "RMsg (TBool true) true"),
    ("code-false", [False] + HELLO_TAIL, "RMsg (TBool false) true"),
    ("code-float-1.0", [1.0] + HELLO_TAIL, "RMsg TFloat true"),
    ("code-string-1", ["1"] + HELLO_TAIL, "RMsg TStr true"),
    ("code-null", [None] + HELLO_TAIL, "RMsg TNull true"),
    ("code-list", [[1]] + HELLO_TAIL, "RMsg TList true"),
    ("code-dict", [{"a": 1}] + HELLO_TAIL, "RMsg TDict true"),
    ("code-negative", [-1] + HELLO_TAIL, "RMsg (TInt (-1)%Z) true"),
    ("code-zero", [0] + HELLO_TAIL, "RMsg (TInt 0%Z) true"),
    ("code-unknown-7", [7] + HELLO_TAIL, "RMsg (TInt 7%Z) true"),
    ("code-unknown-999", [999, 1, 2], "RMsg (TInt 999%Z) true"),
    ("code-huge", [2 ** 70] + HELLO_TAIL, "RMsg (TInt 1180591620717411303424%Z) true"),
    ("event-code-true", [True, 1, 350, {}], "RMsg (TBool true) true"),
    ("hello-too-short", [1], "RMsg (TInt 1%Z) false"),
    ("event-bad-fields", [36, "x", 350, {}], "RMsg (TInt 36%Z) false"),
    ("empty-list", [], "REmptyList"),
    ("not-a-list-dict", {"a": 1}, "RNotList"),
    ("not-a-list-string", "hello", "RNotList"),
    ("not-a-list-int", 5, "RNotList"),
    ("not-a-list-null", None, "RNotList"),
    ("not-a-list-true", True, "RNotList"),
    ("control-valid-event", [36, 1, 350, {}], "RMsg (TInt 36%Z) true"),
]


def indep_encode(ser, obj):
    """the peer's encoder, independent of autobahn's serializers"""
    import json as _json
    if ser == "json":
        return _json.dumps(obj).encode()
    if ser == "msgpack":
        import msgpack
        return msgpack.packb(obj, use_bin_type=True)
    import cbor2
    return cbor2.dumps(obj)


def run_malformed(ck, drv):
    """'a WAMP protocol violation closes the transport' over payloads that DECODE fine but are not WAMP messages, between two
    valid messages, every serializer, all four transport x framework combinations, both roles.  Oracle = the envelope rule of
    the WAMP message format (non-empty list, integer type code naming a class, acceptable fields): a violation delivers
    nothing, closes with 1002 (WebSocket; connection dropped when failByDrop) / abort (RawSocket), told once."""
    rs_cases, ws_cases, n_eval = [], [], 0
    good = lambda i: [36, 1, i, {}]
    for ser in ("json", "msgpack", "cbor"):
        rsid = RS_ID[ser]
        items = []
        for label, obj, raw in MALFORMED:
            try:
                items.append((label, indep_encode(ser, obj), raw))
            except (OverflowError, ValueError, TypeError):
                continue                                   # e.g. msgpack cannot carry 2**70
        p300, p399 = indep_encode(ser, good(300)), indep_encode(ser, good(399))
        # ---- RawSocket, batch per framework ----
        for fw in FWS:
            jobs, meta = [], []
            for role in ("server", "client"):
                for label, payload, raw in items:
                    frames = [len(x).to_bytes(4, "big") + x for x in (p300, payload, p399)]
                    hs = bytes([0x7F, 0xF0 | rsid, 0, 0])
                    jobs.append(dict(op="script", jobs=[
                        dict(op="new", ep="e", kind="rs", role=role, sers=[ser], max=None, sess={}),
                        dict(op="feed", ep="e", chunks=[hs.hex()] + [f.hex() for f in frames], env_stop=True),
                        dict(op="lost", ep="e", clean=False)]))
                    meta.append((role, label, raw, hs, frames))
            out = ck.run_impl(DRIVER, {"fw": fw, "jobs": jobs})["results"]
            for (role, label, raw, hs, frames), o in zip(meta, out):
                n_eval += 1
                log = [e for r in o["results"] for e in r["log"]]
                got = [e[1] for e in log if e[0] == "sess_msg"]
                closed = [e for e in log if e[0] in ("abort", "lose")]
                esc = [e for e in log if e[0] == "escaped"]
                ck.bump(f"malformed/rs/{fw}/{label}")
                rep = dict(kind="rs-conn", fw=fw, role=role, ser=ser, pos=1, corr=label, split="frames", lost_clean=False, mx=None,
                           chunks=[hs.hex()] + [f.hex() for f in frames], react={}, log=log)
                if label.startswith("control"):
                    if got != [300, 350, 399] or closed or esc:
                        ck.violation(f"rawsocket.{fw}.{role}/valid-stream-closed", f"valid messages ({ser}): delivered {got}, closed {closed}", rep, True)
                else:
                    if got != [300] or not closed or esc or sum(1 for e in log if e[0] == "sess_close") != 1:
                        ck.violation(f"rawsocket.{fw}.{role}/protocol-violation/{label}",
                                     f"{fw} RawSocket {role} ({ser}): payload that decodes to {label} between two valid messages: "
                                     f"session got {got} (expected [300]), transport calls {closed}, escaped {esc}", rep, True)
                rs_cases.append("(%d,%d,%s,16777216,false,[Batch [(300,ROk)];classify (%s) 350 ROk;Batch [(399,ROk)]],[%s;ILost false],%s)" % (
                    0 if fw == "tx" else 1, 0 if role == "server" else 1, nlist([rsid]), raw,
                    ";".join("IData %s" % nlist(c) for c in [hs] + ([frames[0], frames[1]] if closed else frames)), canon_log(log, fw)))
        # ---- WebSocket, every framework x role as receiver ----
        binflag = BINARY[ser]
        si = ("json", "msgpack", "cbor").index(ser)
        for pi, (cfw, sfw) in enumerate(PAIRINGS[:2]):
            dc, ds = drv[cfw], drv[sfw]
            for di, direction in enumerate(("c2s", "s2c")):
                for k, (label, payload, raw) in enumerate(items):
                    if ck.quick() and (k + si + pi + di) % 2:        # quick: each shape on two of the four receivers per serializer
                        continue
                    fbd = (k % 5 == 4)
                    tag = f"M{cfw}{ser}{direction}{k}"
                    ws_handshake(dc, ds, tag, [ser], [ser], options={"failByDrop": fbd})
                    snd, sname, rcv, rname, rfw, rrole = ((dc, "c" + tag, ds, "s" + tag, sfw, "server") if direction == "c2s"
                                                         else (ds, "s" + tag, dc, "c" + tag, cfw, "client"))
                    wire = b""
                    for pl in (p300, payload, p399):
                        wire += relay(snd(op="ws_raw", ep=sname, payload=pl.hex(), binary=binflag)["log"])
                    burst = (k % 2 == 0)
                    ro = rcv(op="feed", ep=rname, chunks=[wire[:7].hex(), wire[7:].hex()], env_stop=True, burst=burst)
                    lo = rcv(op="lost", ep=rname, clean=False)
                    log = ro["log"] + lo["log"]
                    n_eval += 1
                    got = [e[1] for e in log if e[0] == "sess_msg"]
                    codes = close_codes(None, relay(ro["log"]))
                    dropped = any(e[0] in ("abort", "lose") for e in ro["log"])
                    esc = [e for e in log if e[0] == "escaped"]
                    closes = sum(1 for e in log if e[0] == "sess_close")
                    ck.bump(f"malformed/ws/{rfw}.{rrole}/{label}")
                    rep = dict(kind="ws-malformed", client=cfw, server=sfw, ser=ser, label=label, direction=direction, failByDrop=fbd,
                               burst=burst, payload=payload.hex(), chunks=[wire[:7].hex(), wire[7:].hex()], got=got, codes=codes, log=log[-10:])
                    if label.startswith("control"):
                        if got != [300, 350, 399] or codes or dropped or esc:
                            ck.violation(f"websocket.{rfw}.{rrole}/valid-stream-closed", f"valid messages: delivered {got}, codes {codes}", rep, True)
                        ins = "WOpen false;" + ";".join("WMessage %s (Batch [(%d,ROk)])" % (cbool(binflag), i) for i in (300, 350, 399)) + ";WClose false"
                        ws_cases.append("(%s,[%s],[(3,[]);(4,[300]);(4,[350]);(4,[399]);(5,[0])])" % (cbool(binflag), ins))
                        continue
                    ok = got == [300] and not esc and closes == 1 and ((dropped and not codes) if fbd else codes == [1002])
                    if not ok:
                        ck.violation(f"websocket.{rfw}.{rrole}/protocol-violation/{label}",
                                     f"{rfw} WAMP-over-WebSocket {rrole} ({ser}): payload that decodes to {label} between two valid "
                                     f"messages: session got {got} (expected [300]), close frames {codes} (expected "
                                     f"{'none, connection dropped' if fbd else '[1002]'}), escaped {esc}", rep, True)
                    if not fbd:
                        exp = ["(3,[])"] + ["(4,[%s])" % g for g in got if g is not None] + ["(8,[%d])" % c for c in (codes or []) if c] + ["(5,[0])"]
                        ws_cases.append("(%s,[WOpen false;WMessage %s (Batch [(300,ROk)]);WMessage %s (classify (%s) 350 ROk);WClose false],[%s])" % (
                            cbool(binflag), cbool(binflag), cbool(binflag), raw, ";".join(exp)))
                    dc(op="drop", ep="c" + tag); ds(op="drop", ep="s" + tag)
    ck.evaluations += n_eval
    ck.note_cases(0, rs_cases + ws_cases)
    ck.log(f"decodable-but-not-WAMP payloads: {n_eval} conversations ({len(MALFORMED)} shapes x serializers x transports x frameworks x roles)")
    return rs_cases, ws_cases


def run_conns(ck):
    """scenarios are scripted per framework in batch mode; the peer's octets are produced with the real serializers"""
    coq, n_eval = [], 0
    rng = ck.rng("conns")
    sers = ["json", "msgpack", "cbor"] + ([] if ck.quick() else ["json.batched", "cbor.batched", "msgpack.batched"])
    scen = []
    reps = 1 if ck.quick() else 4
    for fw in FWS:
        for role in ("server", "client"):
            for ser in sers:
                for nmsg in (3,):
                    for pos in range(nmsg):
                        for corr in ("garbage", "truncated", "proto", "other", "cancel", "open_raises", "none", "ping", "oversize"):
                            for rep in range(reps):
                                scen.append(dict(fw=fw, role=role, ser=ser, nmsg=nmsg, pos=pos, corr=corr,
                                                 split=rng.choice(["whole", "bytes", "rand"]), lost_clean=rng.random() < 0.5,
                                                 mx=rng.choice([None, 512, 2000]) if fw == "tx" else None))
    by_fw = {fw: [s for s in scen if s["fw"] == fw] for fw in FWS}
    for fw, lst in by_fw.items():
        # 1. payloads from the real serializer
        fjobs = [dict(op="frames", ser=s["ser"], msgs=[{"id": 100 + i, "pad": rng.randint(0, 40)} for i in range(s["nmsg"])]) for s in lst]
        fr = ck.run_impl(DRIVER, {"fw": fw, "jobs": fjobs})["results"]
        jobs = []
        for s, f in zip(lst, fr):
            rsid = RS_ID[base_ser(s["ser"])]
            payloads = [bytes.fromhex(x["payload"]) for x in f["frames"]]
            classes = [[(100 + i, "ok")] for i in range(s["nmsg"])]
            react = {}
            stream_frames = []
            for i, p in enumerate(payloads):
                hdr = len(p).to_bytes(4, "big")
                if i == s["pos"]:
                    c = s["corr"]
                    if c == "garbage":
                        p = b"\xc1\xff\x00garbage"; hdr = len(p).to_bytes(4, "big"); classes[i] = None
                    elif c == "truncated":
                        p = p[:max(1, len(p) // 2)]; hdr = len(p).to_bytes(4, "big"); classes[i] = None
                    elif c in ("proto", "other", "cancel"):
                        react[str(i)] = c; classes[i] = [(100 + i, c)]
                    elif c == "ping":
                        hdr = bytes([1]) + hdr[1:]
                    elif c == "oversize":
                        hdr = (2 ** 24 + 5).to_bytes(4, "big") if (fw == "tx") else hdr
                stream_frames.append(hdr + p)
            s["classes"], s["react"] = classes, react
            own_exp = 15
            if s["role"] == "server":
                hs = bytes([0x7F, (own_exp << 4) | rsid, 0, 0])
            else:
                hs = bytes([0x7F, (rng.randint(0, 15) << 4) | rsid, 0, 0])
            data = hs + b"".join(stream_frames)
            chunks = split_chunks(data, rng, s["split"])
            s["chunks"] = chunks
            ep = "e"
            jobs.append(dict(op="script", jobs=[
                dict(op="new", ep=ep, kind="rs", role=s["role"], sers=[s["ser"]], max=s["mx"],
                     sess={"open_raises": s["corr"] == "open_raises", "react": react}),
                dict(op="feed", ep=ep, chunks=[c.hex() for c in chunks], env_stop="framing"),
                dict(op="send", ep=ep, msgs=[{"id": 7, "pad": 5}]),
                dict(op="lost", ep=ep, clean=s["lost_clean"]),
                dict(op="lost", ep=ep, clean=True) if False else dict(op="send", ep=ep, msgs=[{"id": 8, "pad": 1}]),
            ]))
        out = ck.run_impl(DRIVER, {"fw": fw, "jobs": jobs})["results"]
        for s, o in zip(lst, out):
            n_eval += 1
            rs = o["results"]
            log = [e for r in rs for e in r["log"]]
            ck.bump(f"conn/{fw}/{s['corr']}")
            # ---- property oracle ----
            closes = [e for e in log if e[0] == "sess_close"]
            opens = [e for e in log if e[0] == "sess_open"]
            esc = [e for e in log if e[0] == "escaped"]
            aborted = any(e[0] in ("abort", "lose") for e in log)
            rep = dict(kind="rs-conn", **{k: s[k] for k in ("fw", "role", "ser", "pos", "corr", "split", "lost_clean", "mx")},
                       chunks=[c.hex() for c in s["chunks"]], react=s["react"], log=log)
            if len(closes) != (1 if opens else 0):
                ck.violation(f"rawsocket.{fw}/told-once/{len(closes)}-onClose",
                             f"session.onClose called {len(closes)} times (onOpen {len(opens)}) after transport loss", rep, True)
            if closes and closes[0][1] != s["lost_clean"]:
                ck.violation(f"rawsocket.{fw}/told-once/wasClean", "wasClean does not reflect the loss reason", rep, True)
            if s["corr"] in ("garbage", "truncated", "proto", "other", "open_raises") and not aborted:
                ck.violation(f"rawsocket.{fw}/error-mapping/{s['corr']}/not-closed",
                             f"{s['corr']} at message {s['pos']} did not close the transport", rep, True)
            if s["corr"] == "none" and (aborted or esc):
                ck.violation(f"rawsocket.{fw}/valid-stream-closed", "valid stream closed the transport", rep, True)
            if s["corr"] in ("none",):
                got = [e[1] for e in log if e[0] == "sess_msg"]
                if got != [100 + i for i in range(s["nmsg"])]:
                    ck.violation(f"rawsocket.{fw}/delivery/order", f"delivered {got}", rep, True)
            for e in esc:
                key = f"rawsocket.{fw}/{'ping-frame' if s['corr'] == 'ping' else 'oversize-frame' if s['corr'] == 'oversize' else s['corr']}/ESCAPED/{e[1]}"
                if s["corr"] in ("ping", "oversize"):
                    ck.notes.append(f"observation: {key} (exception leaves the entry point; the framework then drops the connection)") \
                        if not any(key in n for n in ck.notes) else None
                else:
                    ck.violation(key, f"{e[1]} escapes {fw} RawSocket entry point on corruption '{s['corr']}'", rep, True)
            # ---- model case ----
            script = []
            for cl in s["classes"]:
                script.append("Undecodable" if cl is None else "Batch [%s]" % ";".join("(%d,%s)" % (i, react_code(k)) for i, k in cl))
            rsid = RS_ID[base_ser(s["ser"])]
            inputs = ["IData %s" % nlist(c) for c in s["chunks"]]
            sent = [e for r in rs[2:3] for e in r["log"] if e[0] in ("sent", "raised")]
            n7 = sent[0][2] if sent and sent[0][0] == "sent" else (sent[0][3] if sent else 0)
            inputs.append("ISend (SerOk (repeat 0 %d))" % (n7 or 0))
            inputs.append("ILost %s" % cbool(s["lost_clean"]))
            inputs.append("ISend (SerOk [0])")
            mxv = (s["mx"] or 2 ** 24) if fw == "tx" else 2 ** 24
            if not s["ser"].endswith(".batched"):
                coq.append("(%d,%d,%s,%d,%s,[%s],[%s],%s)" % (
                    0 if fw == "tx" else 1, 0 if s["role"] == "server" else 1, nlist([rsid]), mxv,
                    cbool(s["corr"] == "open_raises"), ";".join(script), ";".join(inputs), canon_log(log, fw)))
    ck.evaluations += n_eval
    ck.note_cases(0, coq)
    ck.log(f"connections: {n_eval} corrupted/valid RawSocket conversations on the real protocols")
    return coq



# ------------------------------------------------------------------------------------------------------------------
# 4. RawSocket pairs (all four framework pairings, octets relayed): limits and intact, ordered delivery
# ------------------------------------------------------------------------------------------------------------------
PAIRINGS = [("tx", "tx"), ("aio", "aio"), ("tx", "aio"), ("aio", "tx")]


def relay(src_log):
    return writes_of(src_log)


def run_rs_pairs(ck, drv):
    rng = ck.rng("rs-pairs")
    n_eval, coq = 0, []
    exps = [0, 1, 2, 3, 5, 7] if ck.quick() else list(range(0, 8))           # receive limits 2^9 .. 2^16 (Twisted option)
    sers = ["json", "msgpack", "cbor"]
    for cfw, sfw in PAIRINGS:
        dc, ds = drv[cfw], drv[sfw]
        for ser in sers:
            for e in exps:
                limit = 1 << (9 + e)
                # the Twisted side announces [limit]; an asyncio side always announces 2^24
                cmax = limit if cfw == "tx" else None
                smax = limit if sfw == "tx" else None
                tag = f"{cfw}{sfw}{ser}{e}"
                c = dc(op="new", ep="c" + tag, kind="rs", role="client", sers=[ser], max=cmax, sess={})
                s = ds(op="new", ep="s" + tag, kind="rs", role="server", sers=[ser] + [x for x in sers if x != ser], max=smax, sess={})
                r1 = ds(op="feed", ep="s" + tag, chunks=[relay(c["log"]).hex()])
                r2 = dc(op="feed", ep="c" + tag, chunks=[relay(r1["log"]).hex()])
                stc, sts = r2["state"], r1["state"]
                rep0 = dict(kind="rs-pair", client=cfw, server=sfw, ser=ser, exp=e)
                n_eval += 1
                if not (stc["attached"] and sts["attached"]) or stc.get("rs_id") != sts.get("rs_id") or stc["rs_id"] != RS_ID[ser]:
                    ck.violation(f"rawsocket.pair.{cfw}-{sfw}/handshake", "real client and real server did not agree", dict(rep0, c=stc, s=sts), True)
                    continue
                # announced limits: what each side may send = what the other side announced
                want_c_send = (1 << (9 + e)) if sfw == "tx" else 1 << 24
                want_s_send = (1 << (9 + e)) if cfw == "tx" else 1 << 24
                if stc["max_send"] != want_c_send or sts["max_send"] != want_s_send:
                    ck.violation(f"rawsocket.pair.{cfw}-{sfw}/limit-negotiation", f"max_send client {stc['max_send']} (want {want_c_send}) "
                                 f"server {sts['max_send']} (want {want_s_send})", dict(rep0, c=stc, s=sts), True)
                for (sd, sname, sfw_, rd, rname, rfw_, lim) in ((dc, "c" + tag, cfw, ds, "s" + tag, sfw, want_c_send),
                                                               (ds, "s" + tag, sfw, dc, "c" + tag, cfw, want_s_send)):
                    if lim > (1 << 16) and ck.quick():
                        lens = [rng.randint(20, 300), 65535, 65536, 65537]
                    elif lim > (1 << 16):
                        lens = [rng.randint(20, 300), 65535, 65536, 65537, (1 << 20) + 1]
                    else:
                        lens = [lim - 1, lim, lim + 1, rng.randint(20, min(lim, 400)), lim + 1000]
                    msgs = [{"id": 1000 + i, "len": L} for i, L in enumerate(lens)]
                    so = sd(op="send", ep=sname, msgs=msgs)
                    sent_ids, raised = [], []
                    for ev in so["log"]:
                        if ev[0] == "sent": sent_ids.append((ev[1], ev[2]))
                        if ev[0] == "raised": raised.append((ev[2], ev[3], ev[1]))
                    rep = dict(rep0, sender=sfw_, receiver=rfw_, limit=lim, lens=lens)
                    for (mid, n) in sent_ids:
                        if n > lim:
                            ck.violation(f"rawsocket.{sfw_}/send/over-limit-written", f"message of {n} octets written although the peer announced {lim}", rep, True)
                    for (mid, n, cls) in raised:
                        if n <= lim:
                            ck.violation(f"rawsocket.{sfw_}/send/within-limit-refused/{cls}", f"message of {n} octets refused ({cls}), peer announced {lim}", rep, True)
                        elif cls != "PayloadExceededError":
                            ck.violation(f"rawsocket.{sfw_}/send/over-limit/{cls}", f"oversize send raised {cls}", rep, True)
                    if len(sent_ids) + len(raised) != len(lens):
                        ck.violation(f"rawsocket.{sfw_}/send/unaccounted", f"send log {so['log'][-3:]}", rep, True)
                    wire = relay(so["log"])
                    want_wire_len = sum(4 + n for _, n in sent_ids)
                    if len(wire) != want_wire_len:
                        ck.violation(f"rawsocket.{sfw_}/send/wire-length", f"{len(wire)} octets written, {want_wire_len} expected", rep, True)
                    mode = rng.choice(["whole", "rand", "rand"]) if len(wire) > 3000 else rng.choice(["bytes", "rand", "whole"])
                    chunks = split_chunks(wire, rng, mode)
                    ro = rd(op="feed", ep=rname, chunks=[c.hex() for c in chunks])
                    got = [(ev[1], ev[2]) for ev in ro["log"] if ev[0] == "sess_msg"]
                    bad = [ev for ev in ro["log"] if ev[0] in ("escaped", "abort", "lose")]
                    if [g[0] for g in got] != [m for m, _ in sent_ids] or bad:
                        ck.violation(f"rawsocket.pair.{sfw_}-to-{rfw_}/delivery", f"sent ids {[m for m, _ in sent_ids]} lengths "
                                     f"{[n for _, n in sent_ids]}, delivered {[g[0] for g in got]}, failures {bad}",
                                     dict(rep, split=[len(c) for c in chunks][:20]), True)
                    n_eval += len(lens)
                    ck.bump(f"rs-pair/{sfw_}->{rfw_}/msgs", len(lens))
                for d_, n_ in ((dc, "c" + tag), (ds, "s" + tag)):
                    lo = d_(op="lost", ep=n_, clean=True)
                    if sum(1 for ev in lo["log"] if ev[0] == "sess_close") != 1:
                        ck.violation("rawsocket.pair/told-once", f"onClose count after loss: {lo['log']}", rep0, True)
                    d_(op="drop", ep=n_)
    ck.evaluations += n_eval
    ck.log(f"RawSocket pairs: {n_eval} handshakes+messages over {len(PAIRINGS)} framework pairings")


def run_rs_boundary(ck, drv):
    """thorough: the 16 MiB boundary, every pairing"""
    for cfw, sfw in PAIRINGS:
        dc, ds = drv[cfw], drv[sfw]
        tag = f"B{cfw}{sfw}"
        c = dc(op="new", ep="c" + tag, kind="rs", role="client", sers=["json"], max=None, sess={})
        s = ds(op="new", ep="s" + tag, kind="rs", role="server", sers=["json"], max=None, sess={})
        r1 = ds(op="feed", ep="s" + tag, chunks=[relay(c["log"]).hex()])
        dc(op="feed", ep="c" + tag, chunks=[relay(r1["log"]).hex()])
        for L in ((1 << 24) - 1, 1 << 24, (1 << 24) + 1):
            so = dc(op="send", ep="c" + tag, msgs=[{"id": 5, "len": L}])
            wire = relay(so["log"])
            sent = [ev for ev in so["log"] if ev[0] == "sent"]
            raised = [ev for ev in so["log"] if ev[0] == "raised"]
            rep = dict(kind="rs-boundary", client=cfw, server=sfw, length=L)
            ck.evaluations += 1
            if L > (1 << 24):
                if sent or wire:
                    ck.violation(f"rawsocket.{cfw}/send/over-limit-written", f"{L} octets written", rep, True)
                continue
            if not sent:
                ck.violation(f"rawsocket.{cfw}/send/within-limit-refused/{raised and raised[0][1]}", f"{L} octets refused", rep, True)
                continue
            cut = len(wire) // 3
            ro = ds(op="feed", ep="s" + tag, chunks=[wire[:cut].hex(), wire[cut:].hex()])
            got = [ev for ev in ro["log"] if ev[0] == "sess_msg"]
            bad = [ev for ev in ro["log"] if ev[0] in ("escaped", "abort", "lose")]
            if len(got) != 1 or bad:
                ck.violation(f"rawsocket.pair.{cfw}-to-{sfw}/delivery/2^24-boundary",
                             f"a message of {L} octets (peer announced 2^24, header {wire[:4].hex()}) sent by {cfw} was not delivered by {sfw}: {bad}",
                             rep, True)
                break
        dc(op="drop", ep="c" + tag); ds(op="drop", ep="s" + tag)
    ck.log("RawSocket 16 MiB boundary done")


# ------------------------------------------------------------------------------------------------------------------
# 5. WebSocket leg: subprotocol negotiation matrix, message flow, corruption
# ------------------------------------------------------------------------------------------------------------------
def ordered_subsets(univ, kmax):
    out = []
    for k in range(1, kmax + 1):
        out += [list(p) for p in itertools.permutations(univ, k)]
    return out


def http_head(data):
    i = data.find(b"\r\n\r\n")
    return (data[:i + 4], data[i + 4:]) if i >= 0 else (data, b"")


def ws_handshake(dc, ds, tag, cl, sv, options=None, csess=None, ssess=None):
    c = dc(op="new", ep="c" + tag, kind="ws", role="client", sers=cl, sess=csess or {}, options=options)
    req = relay(c["log"])
    s = ds(op="new", ep="s" + tag, kind="ws", role="server", sers=sv, sess=ssess or {}, options=options)
    r1 = ds(op="feed", ep="s" + tag, chunks=[req.hex()])
    resp = relay(r1["log"])
    r2 = dc(op="feed", ep="c" + tag, chunks=[resp.hex()]) if resp else {"log": [], "state": c["state"]}
    return req, resp, r1, r2


def run_ws_negotiation(ck, drv):
    n_eval = 0
    srv_cases, cl_cases = [], []
    univ = ["json", "msgpack", "cbor"]
    if ck.quick():
        lists = ordered_subsets(univ, 3) + [["json.batched", "json"], ["cbor.batched"], ["msgpack", "json.batched"]]
    else:
        lists = ordered_subsets(univ + ["json.batched"], 4) + [["cbor.batched", "msgpack.batched", "cbor"]]
    for cfw, sfw in PAIRINGS:
        dc, ds = drv[cfw], drv[sfw]
        k = 0
        for cl in lists:
            for sv in lists:
                k += 1
                tag = f"N{cfw}{sfw}{k}"
                req, resp, r1, r2 = ws_handshake(dc, ds, tag, cl, sv)
                n_eval += 1
                common = next((x for x in cl if x in sv), None)
                sst, cst = r1["state"], r2["state"]
                sopen = sum(1 for e in r1["log"] if e[0] == "sess_open")
                copen = sum(1 for e in r2["log"] if e[0] == "sess_open")
                esc = [e for e in r1["log"] + r2["log"] if e[0] == "escaped"]
                status = resp.split(b"\r\n", 1)[0].decode("latin-1")
                hdrs = {ln.split(b":", 1)[0].strip().lower(): ln.split(b":", 1)[1].strip() for ln in resp.split(b"\r\n")[1:] if b":" in ln}
                chosen = hdrs.get(b"sec-websocket-protocol", b"").decode()
                rep = dict(kind="ws-negotiation", client=cfw, server=sfw, client_list=cl, server_list=sv,
                           status=status, chosen=chosen, server_state=sst, client_state=cst)
                ck.bump(f"ws-neg/{cfw}->{sfw}/" + ("agree" if common else "none"))
                if esc:
                    ck.violation(f"websocket.{cfw}-{sfw}/negotiation/ESCAPED/{esc[0][1]}", f"{esc}", rep, True)
                if common:
                    ok = (sopen == 1 and copen == 1 and chosen == "wamp.2." + common and sst.get("ser") == common and cst.get("ser") == common
                          and sst.get("binary") == cst.get("binary") == BINARY[base_ser(common)] and " 101 " in status + " "
                          and sst.get("subprotocol") == cst.get("subprotocol") == "wamp.2." + common)
                    if not ok:
                        ck.violation(f"websocket.{cfw}-{sfw}/negotiation/wrong-choice",
                                     f"client {cl} / server {sv}: expected wamp.2.{common} on both ends, got '{chosen}' "
                                     f"(server ser {sst.get('ser')}, client ser {cst.get('ser')})", rep, True)
                else:
                    if sopen or copen or sst["attached"] or cst["attached"] or " 400 " not in status + " ":
                        ck.violation(f"websocket.{cfw}-{sfw}/negotiation/not-refused",
                                     f"client {cl} / server {sv} share no serializer but status '{status}', sessions {sopen}/{copen}", rep, True)
                protos = ["wamp.2." + x for x in cl]
                srv_cases.append("([%s],[%s],%s)" % (";".join(cstr(x) for x in sv), ";".join(cstr(x) for x in protos),
                                 ("Some (%s,%s)" % (cstr(chosen), cstr(sst["ser"]))) if sopen else "None"))
                cl_cases.append("([%s],%s,%s)" % (";".join(cstr(x) for x in cl), ("Some %s" % cstr(chosen)) if chosen else "None",
                                ("Some %s" % cstr(cst["ser"])) if copen else "None"))
                dc(op="drop", ep="c" + tag); ds(op="drop", ep="s" + tag)
    # foreign clients: arbitrary protocol lists against the real servers (raw HTTP request)
    rng = ck.rng("ws-foreign")
    vocab = ["wamp.2.json", "wamp.2.msgpack", "wamp.2.cbor", "wamp.2.json.batched", "wamp.2.ubjson", "wamp.2", "wamp.3.json",
             "wamp.2.foo", "json", "wamp", "wamp.x.json", "WAMP.2.json", "wamp.2.json.extra", "wamp..json", "mqtt", "wamp.22.json",
             "wamp.2.cbor.batched", "wamp.02.json"]
    for fw in FWS:
        d = drv[fw]
        for i in range(120 if ck.quick() else 1500):
            sv = rng.choice(lists)
            protos = rng.sample(vocab, rng.randint(0, 4))
            tag = f"F{fw}{i}"
            d(op="new", ep=tag, kind="ws", role="server", sers=sv, sess={})
            req = (b"GET / HTTP/1.1\r\nHost: localhost:9000\r\nUpgrade: websocket\r\nConnection: Upgrade\r\n"
                   b"Sec-WebSocket-Key: dGhlIHNhbXBsZSBub25jZQ==\r\nSec-WebSocket-Version: 13\r\n")
            if protos:
                req += b"Sec-WebSocket-Protocol: " + ", ".join(protos).encode() + b"\r\n"
            r = d(op="feed", ep=tag, chunks=[(req + b"\r\n").hex()])
            resp = relay(r["log"])
            status = resp.split(b"\r\n", 1)[0].decode("latin-1")
            hdrs = {ln.split(b":", 1)[0].strip().lower(): ln.split(b":", 1)[1].strip() for ln in resp.split(b"\r\n")[1:] if b":" in ln}
            chosen = hdrs.get(b"sec-websocket-protocol", b"").decode()
            sopen = sum(1 for e in r["log"] if e[0] == "sess_open")
            n_eval += 1
            strict = [p for p in protos if p.startswith("wamp.2.") and p[7:] in sv]
            want = strict[0] if strict else None
            rep = dict(kind="ws-foreign", fw=fw, server_list=sv, protocols=protos, status=status, chosen=chosen)
            quirk = [p for p in protos if p == "wamp.02.json" and "json" in sv]
            if any(e[0] == "escaped" for e in r["log"]):
                ck.violation(f"websocket.{fw}.server/negotiation/ESCAPED", f"{r['log']}", rep, True)
            if (chosen or None) != want and not (quirk and chosen == "wamp.02.json"):
                ck.violation(f"websocket.{fw}.server/negotiation/foreign-list", f"protocols {protos} on server {sv}: chose '{chosen}', "
                             f"expected {want}", rep, True)
            if chosen == "wamp.02.json":
                ck.bump("ws-neg/quirk-int-accepts-02")
            if bool(sopen) != bool(chosen):
                ck.violation(f"websocket.{fw}.server/negotiation/attach-mismatch", f"sess_open {sopen}, chosen '{chosen}'", rep, True)
            srv_cases.append("([%s],[%s],%s)" % (";".join(cstr(x) for x in sv), ";".join(cstr(x) for x in protos),
                             ("Some (%s,%s)" % (cstr(chosen), cstr(r["state"]["ser"]))) if sopen else "None"))
            d(op="drop", ep=tag)
    ck.evaluations += n_eval
    ck.note_cases(0, srv_cases + cl_cases)
    ck.log(f"WebSocket negotiation: {n_eval} real opening handshakes (client list x server list x 4 pairings + foreign lists)")
    return srv_cases, cl_cases


def close_codes(fw_role, data):
    """independent minimal RFC 6455 reader: status codes of the close frames among the octets written after the handshake"""
    codes, i, n = [], 0, len(data)
    while n - i >= 2:
        b0, b1 = data[i], data[i + 1]
        ln, j = b1 & 0x7F, i + 2
        if ln == 126:
            if n - j < 2: break
            ln = int.from_bytes(data[j:j + 2], "big"); j += 2
        elif ln == 127:
            if n - j < 8: break
            ln = int.from_bytes(data[j:j + 8], "big"); j += 8
        mask = None
        if b1 & 0x80:
            if n - j < 4: break
            mask = data[j:j + 4]; j += 4
        if n - j < ln: break
        p = data[j:j + ln]
        if mask: p = bytes(x ^ mask[k & 3] for k, x in enumerate(p))
        if b0 & 15 == 8:
            codes.append(int.from_bytes(p[:2], "big") if len(p) >= 2 else None)
        i = j + ln
    return codes


def run_ws_flow(ck, drv):
    rng = ck.rng("ws-flow")
    n_eval, coq = 0, []
    sers = ["json", "msgpack", "cbor"] + ([] if ck.quick() else ["json.batched", "msgpack.batched"])
    corrs = ["none", "flip", "garbage", "truncated", "proto", "other"]
    for cfw, sfw in PAIRINGS:
        dc, ds = drv[cfw], drv[sfw]
        k = 0
        for ser in sers:
            for corr in corrs:
                for pos in range(3):
                    for direction in ("c2s", "s2c"):
                        for fbd in (False, True):
                            if corr == "none" and (pos or fbd):
                                continue
                            k += 1
                            tag = f"W{cfw}{sfw}{k}"
                            react = {str(pos): corr} if corr in ("proto", "other") else {}
                            rsess = {"react": react}
                            opts = {"failByDrop": fbd}
                            req, resp, r1, r2 = ws_handshake(dc, ds, tag, [ser], [ser], options=opts,
                                                             csess=rsess if direction == "s2c" else {}, ssess=rsess if direction == "c2s" else {})
                            snd, sname, rcv, rname, rfw, rrole = ((dc, "c" + tag, ds, "s" + tag, sfw, "server") if direction == "c2s"
                                                                 else (ds, "s" + tag, dc, "c" + tag, cfw, "client"))
                            fr = snd(op="frames", ser=ser, msgs=[{"id": 300 + i, "pad": rng.randint(0, 200)} for i in range(3)])["frames"]
                            binflag = BINARY[base_ser(ser)]
                            items = []
                            for i, f in enumerate(fr):
                                payload, b = bytes.fromhex(f["payload"]), f["binary"]
                                if i == pos and corr == "flip": b = not b
                                if i == pos and corr == "garbage": payload = b"\xc1\x00garbage\xff"
                                if i == pos and corr == "truncated": payload = payload[:max(1, len(payload) // 2)]
                                so = snd(op="ws_raw", ep=sname, payload=payload.hex(), binary=b)
                                items.append((relay(so["log"]), b, payload))
                            wire = b"".join(w for w, _, _ in items)
                            chunks = split_chunks(wire, rng, rng.choice(["whole", "bytes", "rand"]))
                            burst = rng.random() < 0.5
                            ro = rcv(op="feed", ep=rname, chunks=[c.hex() for c in chunks], env_stop=True, burst=burst)
                            lo = rcv(op="lost", ep=rname, clean=False)
                            log = ro["log"] + lo["log"]
                            n_eval += 1
                            ck.bump(f"ws-flow/{rfw}.{rrole}/{corr}")
                            got = [e[1] for e in log if e[0] == "sess_msg"]
                            closes = [e for e in log if e[0] == "sess_close"]
                            esc = [e for e in log if e[0] == "escaped"]
                            dropped = any(e[0] in ("abort", "lose") for e in ro["log"])
                            codes = close_codes(None, relay(ro["log"]))
                            rep = dict(kind="ws-flow", client=cfw, server=sfw, ser=ser, corr=corr, pos=pos, direction=direction,
                                       failByDrop=fbd, burst=burst, split=[len(c) for c in chunks][:16], got=got, codes=codes, log=log[-12:])
                            want_ids = [300 + i for i in range(3)] if corr == "none" else [300 + i for i in range(pos + (1 if corr in ("proto", "other") else 0))]
                            if esc:
                                ck.violation(f"websocket.{rfw}.{rrole}/{corr}/ESCAPED/{esc[0][1]}", f"{esc}", rep, True)
                            if got != want_ids:
                                ck.violation(f"websocket.{rfw}.{rrole}/{corr}/delivery", f"delivered {got}, expected {want_ids}", rep, True)
                            if len(closes) != 1:
                                ck.violation(f"websocket.{rfw}.{rrole}/told-once/{len(closes)}-onClose", f"onClose x{len(closes)}", rep, True)
                            if corr != "none":
                                utf8_bad = False
                                if corr in ("flip", "garbage", "truncated") and (items[pos][1] is False):
                                    try:
                                        items[pos][2].decode("utf-8")
                                    except UnicodeDecodeError:
                                        utf8_bad = True          # rejected by the engine (RFC 6455: 1007) before the WAMP layer sees it
                                want_code = 1011 if corr == "other" else (1007 if utf8_bad else 1002)
                                if fbd:
                                    if not dropped:
                                        ck.violation(f"websocket.{rfw}.{rrole}/{corr}/not-closed", "connection not dropped (failByDrop)", rep, True)
                                else:
                                    if codes != [want_code]:
                                        ck.violation(f"websocket.{rfw}.{rrole}/{corr}/close-code/{codes}",
                                                     f"close frames {codes}, expected [{want_code}]", rep, True)
                            elif dropped or codes:
                                ck.violation(f"websocket.{rfw}.{rrole}/valid-stream-closed", f"codes {codes}", rep, True)
                            # mixin-level model case (what reaches onMessage): only when every frame reached the WAMP layer
                            if corr in ("none", "proto", "other") or (corr in ("flip", "garbage", "truncated") and want_code == 1002 and not fbd):
                                ins = ["WOpen false"]
                                for i, (w, b, payload) in enumerate(items):
                                    if corr == "none" or i < pos or (i == pos):
                                        if i == pos and corr in ("garbage", "truncated"):
                                            fc = "Undecodable"
                                        else:
                                            fc = "Batch [(%d,%s)]" % (300 + i, react_code(corr) if (i == pos and corr in ("proto", "other")) else "ROk")
                                        ins.append("WMessage %s (%s)" % (cbool(b), fc))
                                ins.append("WClose false")
                                exp = ["(3,[])"] + ["(4,[%d])" % g for g in got]
                                if corr != "none":
                                    exp.append("(8,[%d])" % want_code)
                                exp.append("(5,[0])")
                                coq.append("(%s,[%s],[%s])" % (cbool(binflag), ";".join(ins), ";".join(exp)))
                            for d_, n_ in ((dc, "c" + tag), (ds, "s" + tag)):
                                d_(op="drop", ep=n_)
    ck.evaluations += n_eval
    ck.note_cases(0, coq)
    ck.log(f"WebSocket flow/corruption: {n_eval} conversations through real engine pairs")
    return coq


def run_api(ck, drv):
    """ITransport.close()/abort()/send() in the attached and the detached state, both legs"""
    rs_cases, ws_cases, n = [], [], 0
    for fw in FWS:
        d = drv[fw]
        for role in ("server", "client"):
            tag = f"A{fw}{role}"
            hs = "7ff10000"
            r0 = d(op="new", ep=tag, kind="rs", role=role, sers=["json"], max=None, sess={})
            log = list(r0["log"])
            steps = [("feed", dict(chunks=[hs])), ("api", dict(name="close")), ("api", dict(name="abort")), ("lost", dict(clean=True)),
                     ("api", dict(name="close")), ("api", dict(name="abort")), ("send", dict(msgs=[{"id": 1, "pad": 0}]))]
            for op, kw in steps:
                log += d(op=op, ep=tag, env_stop=False, **kw)["log"] if op == "feed" else d(op=op, ep=tag, **kw)["log"]
            d(op="drop", ep=tag)
            n += 1
            raised = [e for e in log if e[0] == "raised"]
            rep = dict(kind="rs-api", fw=fw, role=role, log=log)
            want_raised = 2 if fw == "tx" else 3     # Twisted abort() guards on self.transport, which stays set after the loss
            if [e[0] for e in log if e[0] in ("lose", "abort")][:2] != ["lose", "abort"] or len(raised) != want_raised \
                    or any(e[1] != "TransportLost" for e in raised) or sum(1 for e in log if e[0] == "sess_close") != 1:
                ck.violation(f"rawsocket.{fw}/api/close-abort", f"close()/abort()/send() behaviour: {log}", rep, True)
            rs_cases.append("(%d,%d,[1],16777216,false,[],[IData %s;IClose;IAbort;ILost true;IClose;IAbort;ISend (SerOk [0])],%s)" % (
                0 if fw == "tx" else 1, 0 if role == "server" else 1, nlist(bytes.fromhex(hs)), canon_log(log, fw)))
    for cfw, sfw in PAIRINGS[:2]:
        dc, ds = drv[cfw], drv[sfw]
        for api, fbd in (("close", False), ("abort", False), ("abort", True)):
            tag = f"P{cfw}{api}{fbd}"
            ws_handshake(dc, ds, tag, ["json"], ["json"], options={"failByDrop": fbd})
            o = ds(op="api", ep="s" + tag, name=api)
            codes = close_codes(None, relay(o["log"]))
            dropped = any(e[0] in ("abort", "lose") for e in o["log"])
            lo = ds(op="lost", ep="s" + tag, clean=False)
            o2 = ds(op="api", ep="s" + tag, name=api)
            o3 = ds(op="send", ep="s" + tag, msgs=[{"id": 1, "pad": 0}])
            n += 1
            rep = dict(kind="ws-api", fw=sfw, api=api, failByDrop=fbd, codes=codes, log=o["log"] + lo["log"] + o2["log"] + o3["log"])
            want = [1000] if api == "close" else ([] if fbd else [1001])
            after = [e for e in o2["log"] + o3["log"] if e[0] == "raised"]
            if codes != want or (fbd and api == "abort" and not dropped) or len(after) != 2 or any(e[1] != "TransportLost" for e in after) \
                    or sum(1 for e in lo["log"] if e[0] == "sess_close") != 1:
                ck.violation(f"websocket.{sfw}.server/api/{api}", f"close frames {codes} (want {want}), after loss {after}", rep, True)
            ev = "(10,[1000])" if api == "close" else "(8,[1001])"
            ws_cases.append("(false,[WOpen false;%s;WClose false;%s;WSend (SerOk [0])],[(3,[]);%s;(5,[0]);(7,[1]);(7,[1])])" % (
                "WCloseApi" if api == "close" else "WAbortApi", "WCloseApi" if api == "close" else "WAbortApi", ev))
            dc(op="drop", ep="c" + tag); ds(op="drop", ep="s" + tag)
    ck.evaluations += n
    ck.log(f"ITransport API: {n} close/abort/send scenarios")
    return rs_cases, ws_cases


def run(ck):
    ck.rule.append("RawSocket handshake: every (octet1, octet2) x reserved-octet variant x read segmentation x role x framework on "
                   "the real protocol classes (quick: all 2^16 pairs for two (reserved, segmentation) combinations plus the rows "
                   "around the magic octet under all twelve; thorough: all of them), each outcome judged by the property oracle and "
                   "re-evaluated by the Gallina model (run-length encoded, every swept handshake); framing: generated frame streams "
                   "(valid / oversize / type bits / partial) x segmentations (every split for short streams) on the real receivers vs "
                   "an independent reference reader and the model; connections: corruption kind (garbage, truncated, ProtocolError / "
                   "other exception / CancelledError from the session, onOpen raising, PING frame, oversize header) x position x "
                   "serializer x role x framework with a recording session, then transport loss and sends; RawSocket pairs: real "
                   "client and real server in all four framework pairings (octets relayed between two live driver processes), "
                   "Twisted receive limits 2^9..2^16, messages of serialized length limit-1/limit/limit+1 (thorough: 16 MiB boundary), "
                   "random segmentations; WebSocket: every ordered subset (quick: <= 3 of json/msgpack/cbor + batched samples; thorough: "
                   "all orders of 4 ids) on both sides through real opening handshakes in all four pairings, foreign protocol lists, "
                   "protocol violations: payloads that decode (independent json/msgpack/cbor2 encoders) but are not WAMP messages - type code of every kind (bool, float, string, null, list, dict, negative, zero, unknown, huge), not a list, empty list, fields the class rejects - between two valid messages, every serializer x RawSocket/WebSocket x framework x role; delivery shape (several reads within one event-loop iteration vs one read per iteration) x cut positions x direction; message flow and corruption (flipped frame type, garbage, truncated, ProtocolError / other exception in session "
                   "code) at every position, failByDrop on/off; non-trivial = the case reached the handshake decision / frame loop / "
                   "negotiation; distinct = distinct canonical model case")
    ck.extra_tb += [
        "modelled, not verified: Twisted 26.4 IntNStringReceiver.dataReceived/sendString (library code, mirrored from its "
        "source), CPython bytes slicing/struct, the serializers (json/msgpack/cbor2) as oracles 'payload -> batch of messages', "
        "the WebSocket engine under the Wamp* mixins (C01/C02/C05/C07), int() in parseSubprotocolIdentifier (oracle, law int('2')=2)",
        "environment assumption of the model: after a refused handshake / a framing-level failure the lower transport delivers no "
        "further octets (absorbing state FDead/PDead); the drivers stop feeding at that point like a real transport",
        "oracle assumptions: stub ISession recording onOpen/onMessage/onClose; fake transports; UBJSON not installed",
        "translator: the Twisted expressions for self.MAX_LENGTH and the announced nibble are read from the source AST; "
        "int(math.ceil(math.log(x, 2))) is rendered as N.log2_up x - the float expression is compared with exact integer "
        "arithmetic by the interpreter on every run (quick: all values used and 2^k-1..2^k+1; thorough: all of 512..2^24); "
        "which end of receive_queue the asyncio WebSocket adapter pushes/pops is read from the AST (gen_aio_ws_*)",
    ]
    # ---- translator ----
    rc, out = vlib.sh([vlib.VENV_PY, os.path.join(vlib.ROOT, "translators", "rawsocket_consts.py")], env=vlib.impl_env(), timeout=300)
    gen_ok = rc == 0 and out.lstrip().startswith("(* GENERATED")
    if gen_ok:
        body = out[out.index("(* GENERATED"):]
        vlib.write_if_changed(os.path.join(vlib.COQ, "Gen", "RawSocketConsts.v"), body)
    ck.obligation("translator_rawsocket_consts", gen_ok, out[-1500:] if not gen_ok else "")
    vals = sorted(set(limit_sizes(ck)) | {v for k in range(9, 25) for v in ((1 << k) - 1, 1 << k, (1 << k) + 1) if 512 <= v <= 1 << 24})
    cl = ck.run_impl(DRIVER, {"fw": "tx", "jobs": [dict(op="ceil_log", values=vals, full=not ck.quick())]})["results"][0]
    ck.obligation("float_ceil_log2_equals_log2_up", not cl["bad"], f"int(math.ceil(math.log(n, 2))) differs from ceil(log2 n) for n in {cl['bad'][:10]}")
    broken = ck.coq_props()
    ok, out = vlib.coq_make(["Model/RawSocketRun.vo"])
    if not ok:
        raise RuntimeError("RawSocketRun build failed: " + out[-1500:])
    # ---- real code ----
    run_corpus(ck)
    hs_cases = run_hs(ck)
    fr_cases = run_frames(ck)
    cn_cases = run_conns(ck)
    cn_cases += run_hs_splits(ck)
    cn_cases += run_rs_limits(ck)
    drv = {fw: Drv(fw) for fw in FWS}
    try:
        run_rs_pairs(ck, drv)
        if not ck.quick():
            run_rs_boundary(ck, drv)
        srv_cases, cl_cases = run_ws_negotiation(ck, drv)
        ws_cases = run_ws_flow(ck, drv)
        run_ws_shapes(ck, drv)
        mal_rs, mal_ws = run_malformed(ck, drv)
        cn_cases += mal_rs
        api_rs, api_ws = run_api(ck, drv)
        cn_cases += api_rs
        ws_cases += api_ws + mal_ws
    finally:
        for d in drv.values():
            d.close()
    # ---- model: every case kind through one sharded vm_compute run ----
    t0 = time.time()
    allc = ([("rawsocket/handshake", "AHs", c) for c in hs_cases] + [("rawsocket/framing", "AFrame", c) for c in fr_cases] +
            [("rawsocket/connection", "AConn", c) for c in cn_cases] + [("websocket/mixin", "AWs", c) for c in ws_cases] +
            [("websocket/subproto-server", "ASrv", c) for c in srv_cases] + [("websocket/subproto-client", "ACl", c) for c in cl_cases] +
            [("serializer/binary-flag", "ABin", "(%s,%s)" % (cstr(k), cbool(v))) for k, v in
             list(BINARY.items()) + [(k + ".batched", v) for k, v in BINARY.items()]])
    seen_terms, uniq = set(), []
    for t in allc:                       # identical model cases (same lists in another framework pairing) are evaluated once
        if (t[1], t[2]) not in seen_terms:
            seen_terms.add((t[1], t[2])); uniq.append(t)
    ck.bump("model_cases_before_dedup", len(allc))
    allc = uniq
    # interleave so that the expensive handshake runs are spread over the shards
    order = sorted(range(len(allc)), key=lambda i: (i * 7919) % len(allc))
    terms = ["%s %s" % (allc[i][1], allc[i][2]) for i in order]
    bad = ck.coq_cases("all", IMPORTS, "any_case_ok", terms, ty="any_case", shard=len(terms) // 15 + 1, timeout=1500)
    ck.bump("model_compared", len(terms))
    ck.log(f"model vs implementation: {len(terms)} cases ({len(hs_cases)} handshake runs = every swept handshake, {len(fr_cases)} "
           f"framing, {len(cn_cases)} connection, {len(ws_cases)} ws mixin, {len(srv_cases) + len(cl_cases)} subprotocol), "
           f"{len(bad)} disagreements ({time.time() - t0:.1f}s)")
    seen = set()
    for j in bad:
        label, ctor, case = allc[order[j]]
        if label not in seen:
            seen.add(label)
            ck.violation(f"{label}/model-disagrees", f"Gallina model and implementation disagree ({label})",
                         dict(kind="model", constructor=ctor, case=case), False)
    ck.notes += [
        "observation: with the default failByDrop=True the WAMP-over-WebSocket error mapping drops the TCP connection and no close "
        "status is on the wire; 1002/1011 are observed with failByDrop=False (both variants are run)",
        "observation: a TEXT frame whose payload is not UTF-8 (binary serializer payload with the flipped frame type) is rejected by "
        "the WebSocket engine with 1007 before the WAMP layer sees it; the oracle expects 1007 there, 1002 otherwise",
    ]
    if ck.hist.get("ws-neg/quirk-int-accepts-02"):
        ck.notes.append("observation: a WebSocket server that speaks json selects and echoes the subprotocol 'wamp.02.json' "
                        "(int('02') == 2 in parseSubprotocolIdentifier)")
    ck.sample({"hs_run": hs_cases[0]})
    ck.sample({"frame_case": fr_cases[0][:300]})
    ck.sample({"conn_case": cn_cases[0][:600]})


def replay(path):
    """re-execute one stored case on the implementation (and, where the case is a model input, on the Gallina model)"""
    doc = json.load(open(path))
    r = doc["replay"]
    ck = vlib.Check("C13", "quick", doc.get("seed", 1))
    kind = r.get("kind")
    print("key:", doc.get("key")); print("what:", doc.get("what"))
    if kind == "rs-handshake":
        o1, o2, o3, o4 = r["octets"]
        job = dict(op="hs_sweep", role=r["role"], sers=r["sers"], max=r["max"], reserved=[[o3, o4]], segs=[r["seg"]], o1=[o1], o2=[o2])
        out = ck.run_impl(DRIVER, {"fw": r["fw"], "jobs": [job]})["results"][0]
        opened, aborts, loses, esc, writes, rsid, ms, req, attached = out["outcomes"][0]
        print(f"implementation ({r['fw']} {r['role']}, serializers {r['sers']}): handshake {bytes(r['octets']).hex()} segmentation {r['seg']} ->",
              dict(onOpen=opened, abort=aborts, close=loses, escaped=esc, written=writes, serializer=rsid, max_send=ms))
        want, ser, limit = hs_expected(r["fw"], r["role"], r["sers"], r["max"], o1, o2, o3, o4)
        print("property oracle: attach expected =", want)
        ids = [RS_ID[base_ser(x)] for x in r["sers"]]
        mxv = (r["max"] or 2 ** 24) if r["fw"] == "tx" else 2 ** 24
        v = ck.coq_eval(IMPORTS, ["hs_outcome (mk_cfg %d %d %s %d false) (segment %d %d %d %d %d)" % (
            0 if r["fw"] == "tx" else 1, 0 if r["role"] == "server" else 1, nlist(ids), mxv, r["seg"], o1, o2, o3, o4)])
        print("Gallina model (kind 0 attach/1 abort/2 close/3 escaped, serializer, max_send, written, exception code):", v)
        return 1 if (esc or bool(opened) != want) else 0
    if kind == "rs-frames":
        out = ck.run_impl(DRIVER, {"fw": r["fw"], "jobs": [dict(op="frame_sweep", maxlen=r["maxlen"], streams=[{"chunks": r["chunks"]}])]})
        o = out["results"][0]["results"][0]
        print("implementation:", o); print("reference reading:", indep_parse(r["fw"], r["maxlen"], b"".join(bytes.fromhex(c) for c in r["chunks"])))
        return 0
    if kind == "rs-conn":
        ep = "e"
        jobs = [dict(op="script", jobs=[
            dict(op="new", ep=ep, kind="rs", role=r["role"], sers=[r["ser"]], max=r["mx"],
                 sess={"open_raises": r["corr"] == "open_raises", "react": r["react"]}),
            dict(op="feed", ep=ep, chunks=r["chunks"], env_stop="framing"),
            dict(op="lost", ep=ep, clean=r["lost_clean"])])]
        out = ck.run_impl(DRIVER, {"fw": r["fw"], "jobs": jobs})["results"][0]["results"]
        print("implementation log:", [e for x in out for e in x["log"]])
        return 0
    if kind == "rs-limit":
        N, role, fw = r["configured"], r["role"], r["fw"]
        jobs = [dict(op="script", jobs=[dict(op="new", ep="e", kind="rs", role=role, sers=["json"], max=N, sess={}),
                                        dict(op="feed", ep="e", chunks=["7ff10000"], env_stop=False)])]
        if r.get("length"):
            jobs.insert(0, dict(op="frames", ser="json", msgs=[{"id": 900, "len": r["length"]}]))
        out = ck.run_impl(DRIVER, {"fw": fw, "jobs": jobs})["results"]
        o = out[-1]["results"]
        w = writes_of([e for x in o for e in x["log"]])
        a = 1 << (9 + (w[1] >> 4))
        print(f"{fw} RawSocket {role}, maxMessagePayloadSize={N}: handshake octets written {w.hex()} -> announces {a}; enforces {o[-1]['state']['max_recv']}")
        if r.get("length"):
            L = r["length"]
            frame = L.to_bytes(4, "big") + bytes.fromhex(out[0]["frames"][0]["payload"])
            o2 = ck.run_impl(DRIVER, {"fw": fw, "jobs": [dict(op="script", jobs=[
                dict(op="new", ep="e", kind="rs", role=role, sers=["json"], max=N, sess={}),
                dict(op="feed", ep="e", chunks=["7ff10000", frame.hex()], env_stop=True)])]})["results"][0]["results"]
            lg = [e if e[0] != "write" else ["write", e[1][:16]] for x in o2 for e in x["log"]]
            print(f"a {L}-octet message (announced {a}):", lg)
            return 1 if (L <= a) != any(e[0] == "sess_msg" for e in lg) else 0
        return 1 if o[-1]["state"]["max_recv"] != a else 0
    if kind == "ws-malformed":
        drv = {fw: Drv(fw) for fw in FWS}
        try:
            dc, ds = drv[r["client"]], drv[r["server"]]
            ws_handshake(dc, ds, "R", [r["ser"]], [r["ser"]], options={"failByDrop": r["failByDrop"]})
            rcv, rname = (ds, "sR") if r["direction"] == "c2s" else (dc, "cR")
            ro = rcv(op="feed", ep=rname, chunks=r["chunks"], env_stop=True, burst=r["burst"])
            got = [e[1] for e in ro["log"] if e[0] == "sess_msg"]
            codes = close_codes(None, relay(ro["log"]))
            print(f"payload {r['payload']} ({r['label']}, {r['ser']}) between two valid messages: session got {got}, close frames {codes}, "
                  f"dropped {any(e[0] in ('abort', 'lose') for e in ro['log'])}")
            return 0 if got == [300] else 1
        finally:
            for d in drv.values():
                d.close()
    if kind == "ws-shape":
        drv = {fw: Drv(fw) for fw in FWS}
        try:
            dc, ds = drv[r["client"]], drv[r["server"]]
            ws_handshake(dc, ds, "R", [r["ser"]], [r["ser"]])
            rcv, rname = (ds, "sR") if r["direction"] == "c2s" else (dc, "cR")
            ro = rcv(op="feed", ep=rname, chunks=r["chunks"], env_stop=True, burst=r["burst"])
            got = [e[1] for e in ro["log"] if e[0] == "sess_msg"]
            print(f"{len(r['chunks'])} reads {'within ONE event-loop iteration' if r['burst'] else 'one per iteration'}: session got {got}; log {ro['log'][-6:]}")
            return 0 if got == [400, 401, 402] else 1
        finally:
            for d in drv.values():
                d.close()
    if kind in ("rs-pair", "rs-boundary", "ws-negotiation", "ws-foreign", "ws-flow"):
        drv = {fw: Drv(fw) for fw in FWS}
        try:
            if kind == "ws-negotiation":
                req, resp, r1, r2 = ws_handshake(drv[r["client"]], drv[r["server"]], "R", r["client_list"], r["server_list"])
                print("request :", req.decode("latin-1")); print("response:", resp.decode("latin-1"))
                print("server:", r1["log"], r1["state"]); print("client:", r2["log"], r2["state"])
            elif kind == "ws-foreign":
                d = drv[r["fw"]]
                d(op="new", ep="R", kind="ws", role="server", sers=r["server_list"], sess={})
                req = (b"GET / HTTP/1.1\r\nHost: localhost:9000\r\nUpgrade: websocket\r\nConnection: Upgrade\r\n"
                       b"Sec-WebSocket-Key: dGhlIHNhbXBsZSBub25jZQ==\r\nSec-WebSocket-Version: 13\r\n")
                if r["protocols"]:
                    req += b"Sec-WebSocket-Protocol: " + ", ".join(r["protocols"]).encode() + b"\r\n"
                o = d(op="feed", ep="R", chunks=[(req + b"\r\n").hex()])
                print("response:", relay(o["log"]).decode("latin-1")); print("state:", o["state"])
            elif kind == "rs-boundary":
                dc, ds = drv[r["client"]], drv[r["server"]]
                c = dc(op="new", ep="cR", kind="rs", role="client", sers=["json"], max=None, sess={})
                ds(op="new", ep="sR", kind="rs", role="server", sers=["json"], max=None, sess={})
                r1 = ds(op="feed", ep="sR", chunks=[relay(c["log"]).hex()])
                dc(op="feed", ep="cR", chunks=[relay(r1["log"]).hex()])
                so = dc(op="send", ep="cR", msgs=[{"id": 5, "len": r["length"]}])
                wire = relay(so["log"])
                print("sender log:", [e if e[0] != "write" else ["write", e[1][:16] + "...", len(e[1]) // 2] for e in so["log"]])
                ro = ds(op="feed", ep="sR", chunks=[wire.hex()])
                print("receiver log:", ro["log"])
            else:
                print("stored observation:", json.dumps(r)[:3000])
        finally:
            for d in drv.values():
                d.close()
        return 0
    print(json.dumps(r)[:3000])
    return 0
