"""C16 -- configured payload limits are enforced early and never by truncation.

Theorems: coq/Props/C16.v over coq/Model/WsRecv.v.  Correspondence: the real protocol classes (harness/impl/ws_recv.py)
on the grid  limit {1,125,126,65535,65536} x kind {message, frame} x size {limit-1, limit, limit+1, 10*limit} x
fragment layout x role x failure policy x header-only delivery (payload withheld) x framework;  the sendMessage guard;
the decompression cap with real zlib.  Every run is judged by the independent RFC oracle extended with the configured
limits (ws_recv.rfc_judge / check_against_rfc) and by differential runs against the same stream without limits; the
small cases are re-evaluated by the Gallina model inside coqc (event for event).

Round 3: (a) configuration plumbing (base.config_plumbing: every option set alone / before / after / together with every
other option / set back, both factories, protocol's effective option vector after a real handshake); (b) the three
receive APIs, overridden as in the shipped examples, several messages per connection; (c, d) all message-level send
APIs x over-limit / at-limit / legal payloads on one connection, with a peer that reads the octets written with one real
inflater (judge_sends), and the Gallina send model (Model/WsSendGuard.v, theorems C16_send_refused_all_apis,
C16_send_whole_or_nothing, C16_peer_reads_accepted) re-evaluated on every send case with the compressor replayed.

Round 4: limit failures x pending queued writes (sendMessage(sync=True) / sendFrame(chopsize=n) still in the write queue
when the over-limit header is read): base.pending_stage, differential against the same reads without queued writes; the
write queue is modelled in Model/WsSendGuard.v (C16_close_frame_reaches_wire).
"""
import json
import os
import sys
import time
import zlib

import vlib
from props import c02 as base

sys.path.insert(0, os.path.join(vlib.ROOT, "harness", "impl"))
import ws_recv  # noqa: E402

IMPORTS = base.IMPORTS
FWS = base.FWS
BASE = base.BASE


def layouts(payload, opcode, masked, rng):
    """ways of spreading one message over frames: list of (label, frames, index of each data frame's header end)"""
    n = len(payload)
    F = lambda op, p, fin: base.enc_frame(op, p, fin=fin, masked=masked, key=bytes(rng.getrandbits(8) for _ in range(4)))
    out = [("single", [F(opcode, payload, True)])]
    if n >= 2:
        h = n // 2
        out.append(("two", [F(opcode, payload[:h], False), F(0, payload[h:], True)]))
        out.append(("one+rest", [F(opcode, payload[:1], False), F(0, payload[1:], True)]))
    if n >= 3:
        a, b = n // 3, 2 * n // 3
        out.append(("three+ping", [F(opcode, payload[:a], False), F(9, b"p", True), F(0, payload[a:b], False), F(0, payload[b:], True)]))
    out.append(("empty-first", [F(opcode, b"", False), F(0, payload, True)]))
    return out


SEND_IMPORTS = "From AV Require Import Model.Masker Gen.WsConsts Model.WsRecv Model.WsSendGuard Model.WsSendGuardRun."


def send_term(c, r):
    """one send case as a Coq term of type send_case (Model/WsSendGuardRun.v)"""
    b = lambda x: "true" if x else "false"
    ops = "; ".join(f"({0 if o['api'] == 'message' else 1}, {b(o['dnc'])}, {o['len']}, {b(o['binary'])}, {g['comp_len']})"
                    for o, g in zip(c["sends"], r["sends"]["ops"]))
    obs = "; ".join(f"({b(g['raised'] == 'PayloadExceededError' and not g['wrote'])}, {b(g['rsv1'])}, {g['wire_len']}, {b(g['compressor_none'])})"
                    for g in r["sends"]["ops"])
    return f"({c['max_msg']}, {b(c['pmc'])}, [{ops}], [{obs}])"


FRAME_WISE_WHAT = ("frame-wise sending (beginMessage/sendMessageFrame/endMessage, beginMessageFrame/sendMessageFrameData) applies no "
                   "maxMessagePayloadSize guard: a message larger than the limit is written frame by frame")


def send_fn(o):
    return "sendMessage" if o["api"] == "message" else "sendPreparedMessage"


def send_path(c, o):
    return "plain" if not c["pmc"] else ("pmc+doNotCompress" if o["dnc"] else "pmc")


def send_over(c, o):
    """over the limit by construction: "noise" does not compress and is > 3 * limit; on the uncompressed path the length"""
    return o["kind"] == "noise" or (o["len"] > c["max_msg"] and (not c["pmc"] or o["dnc"]))


def brief_sends(r):
    S = r["sends"]
    return {"sends": {"ops": [dict(o, payload=o["payload"][:32] + "...") for o in S["ops"]],
                      "peer": [[p[0][:32] + "...", len(p[0]) // 2, p[1]] for p in S["peer"]], "peer_error": S["peer_error"]},
            "state": r["state"]}


def judge_sends(fw, c, r):
    """the send oracle: every over-limit operation raises PayloadExceededError and writes nothing, every other one is
    written, and the peer (independent frame parser + ONE real zlib inflater for the connection, in the driver) reads
    exactly the accepted payloads.  Returns [(key, what)]."""
    L, S = c["max_msg"], r["sends"]
    head = f"[{fw}] {c['role']}, maxMessagePayloadSize={L}, permessage-deflate {'on' if c['pmc'] else 'off'}: "
    out, want_peer, refused_before = [], [], []
    for j, (o, got) in enumerate(zip(c["sends"], S["ops"])):
        over, fn, path = send_over(c, o), send_fn(o), send_path(c, o)
        what = None
        if over and got["raised"] is None:
            what = "over-limit-not-refused"
        elif over and got["wrote"]:
            what = "refused-but-wrote"
        elif got["raised"] == "PayloadExceededError" and not over:
            what = "legal-refused"
        elif got["raised"] is not None and got["raised"] != "PayloadExceededError":
            what = "raised-" + got["raised"]
        elif not over and not got["wrote"]:
            what = "legal-not-written"
        if what:
            out.append((f"send-api/{fn}/{path}/{what}",
                        head + f"operation {j} {fn}({o['len']} octets, {o['kind']}{', doNotCompress' if o['dnc'] else ''}"
                        f"{', fragmentSize=%d' % o['fragment'] if o['fragment'] else ''}) -> raised {got['raised']}, wrote {got['wrote']} octets "
                        f"(compressor output {got['comp_len']})"))
        if over:
            refused_before.append((j, fn, path))
        else:
            want_peer.append((got["payload"], bool(o["binary"]), j, len(refused_before)))
    if out:
        return out
    got_peer = [(p[0], bool(p[1])) for p in S["peer"]]
    k = next((k for k, (w, g) in enumerate(zip(want_peer, got_peer)) if (w[0], w[1]) != g), min(len(want_peer), len(got_peer)))
    if S["peer_error"] or len(got_peer) != len(want_peer) or k < len(want_peer):
        nref = want_peer[k][3] if k < len(want_peer) else len(refused_before)
        if nref:
            _, fn, path = refused_before[nref - 1]
            key = f"send-api/{fn}/{path}/peer-cannot-read-after-refusal"
        else:
            o = c["sends"][want_peer[k][2]] if k < len(want_peer) else c["sends"][0]
            key = f"send-api/{send_fn(o)}/{send_path(c, o)}/peer-reads-wrong"
        out.append((key, head + f"the peer (independent frame parser + one real zlib inflater for the connection) reads {len(got_peer)} message(s) "
                    f"of the {len(want_peer)} accepted ones; the first {k} are right, then: {S['peer_error'] or 'a different payload'}"
                    + (f" -- right after operation {refused_before[nref - 1][0]} was refused with PayloadExceededError" if nref else "")))
    return out


def header_len(frame):
    b1 = frame[1]
    l7 = b1 & 127
    return 2 + (0 if l7 <= 125 else 2 if l7 == 126 else 8) + (4 if b1 & 128 else 0)


def deflate_frames(messages, masked, rng, fragment=False):
    """permessage-deflate sender with context takeover: one compressed binary message per entry"""
    co = zlib.compressobj(zlib.Z_DEFAULT_COMPRESSION, zlib.DEFLATED, -15, 8)
    frames = []
    for m in messages:
        z = co.compress(m) + co.flush(zlib.Z_SYNC_FLUSH)
        z = z[:-4]
        key = bytes(rng.getrandbits(8) for _ in range(4))
        if fragment and len(z) >= 2:
            h = len(z) // 2
            frames.append(base.enc_frame(2, z[:h], fin=False, rsv=4, masked=masked, key=key))
            frames.append(base.enc_frame(0, z[h:], fin=True, rsv=0, masked=masked, key=key))
        else:
            frames.append(base.enc_frame(2, z, fin=True, rsv=4, masked=masked, key=key))
    return frames


def run(ck):
    ck.extra_tb += [
        "modelled, not verified: zlib (decompressobj.decompress with max_length / unconsumed_tail) is an oracle: Section "
        "variables with the documented stream laws in the theorems, the real zlib in the correspondence runs (replay tape "
        "in the model comparison); CPython bytes/int semantics as mirrored in Model/WsRecv.v",
        "maxMessagePayloadSize / maxFramePayloadSize bound the payload octets on the wire (for a compressed message: the "
        "compressed size); the inflated size is bounded only by PerMessageDeflate max_message_size (C16_decompress_cap)",
        "independent oracle: ws_recv.rfc_judge with the configured limits + differential run without limits + real zlib",
        "send side: the compressor is an oracle (Section variable with the context-takeover laws deflate_laws in "
        "C16_peer_reads_accepted; a toy pair inhabits them; the real zlib pair in the correspondence runs: the driver's peer "
        "inflates everything written with one zlib.decompressobj(-15)); fragmentation of what is written is not modelled",
        "frame-wise sending (beginMessage / sendMessageFrame / endMessage, beginMessageFrame / sendMessageFrameData) has no "
        "message-size guard: reported under the one key send-api/frame-wise/over-limit-written (known finding)",
        "receive APIs: the driver's mixins record every application hook call; after the first close frame written / transport "
        "drop of a connection the RFC oracle judges failed, none may follow (key .../app-hooks-called-after-failure)",
        "configuration plumbing judges the options the C02/C16 models read; a wrong effective value of another option is "
        "counted only (histogram config_other_option_differs:*)",
    ]
    ck.rule.append("grid limit {1,125,126,65535,65536} x {message limit, frame limit, both set in one setProtocolOptions call (equal / either smaller)} x "
                   "{OPEN, CLOSING after a local sendClose()} x size {limit-1,limit,limit+1,10*limit} x 5 fragment "
                   "layouts x role x failure policy x (whole stream | headers only up to the offending frame | 2 random cuts) x "
                   "framework; sendMessage at limit-1/limit/limit+1; compressed messages around a decompression cap with real zlib; "
                   "configuration plumbing (each option alone / then another / after another / with another in one call / set back / all, both "
                   "factories); receive API {onMessage, frame-based, streaming} x {3-4 messages per connection: sum over the limit, each at "
                   "the limit, mixed, then one over} x fragmentation x limit kind x role x policy x configuration style x (whole | cuts | burst); "
                   "send API {sendMessage, +fragmentSize, +doNotCompress, sendPreparedMessage, +doNotCompress} x deflate on/off x limit "
                   "{60,126,1000} x role, 7-8 operations per connection (legal, over, legal, legal, at-limit, [limit+1], over, legal). "
                   "non-trivial = a data frame header reaches onMessageFrameBegin with a limit configured; distinct = distinct "
                   "(configuration, stream, segmentation)")
    gen_ok = base.regenerate(ck)
    broken = ck.coq_props()
    ok, out = vlib.coq_make(["Model/WsRecvRun.vo"])
    if not ok:
        raise RuntimeError("WsRecvRun build failed: " + out[-1500:])
    quick = ck.quick()
    # ---- corpus first
    cdir = os.path.join(vlib.ROOT, "corpus", "C16")
    corpus = [json.load(open(os.path.join(cdir, fn))) for fn in sorted(os.listdir(cdir)) if fn.endswith(".json")] if os.path.isdir(cdir) else []
    for fw in FWS:
        if not corpus:
            break
        res = ck.run_impl("ws_recv.py", {"fw": fw, "cases": [c["case"] for c in corpus]}, nvx=False, timeout=600)["results"]
        ck.evaluations += len(corpus)
        for c, r in zip(corpus, res):
            case = c["case"]
            if "true_messages" in c:
                true = [[x, True] for x in c["true_messages"]]
                got = [[e[1], e[2]] for e in r["events"] if e[0] == "msg"]
                esc = [e for e in r["events"] if e[0] == "escaped"]
                if got != true[:len(got)] or esc:
                    over = case.get("pmc_max") is not None and any(len(x) // 2 > case["pmc_max"] for x in c["true_messages"])
                    kind = "escaped-" + esc[0][1] if esc and got == true[:len(got)] else (
                        "truncated" if any(g[0] != t[0] and t[0].startswith(g[0]) for g, t in zip(got, true)) else "altered")
                    prefix = "decompress-cap" if over else ("decompress-within-cap" if case.get("pmc_max") is not None else "decompress-nocap")
                    ck.violation(f"{prefix}/{kind}", f"[{fw}] corpus: max_message_size={case.get('pmc_max')}: true sizes "
                                 f"{[len(x) // 2 for x in c['true_messages']]}, delivered sizes {[len(g[0]) // 2 for g in got]}"
                                 f"{'; ' + esc[0][1] + ' escaped dataReceived' if esc else ''}",
                                 {"fw": fw, "case": case, "observed": {k: v for k, v in r.items() if k != "tape"}, "true_messages": c["true_messages"]}, found_input=True)
            else:
                for key, what in ws_recv.check_against_rfc(case, r):
                    if "control-callback-after-violation" in key or "processing-after-close-frame" in key:
                        continue
                    ck.violation("limits/" + key, f"[{fw}] corpus: {what}", {"fw": fw, "case": case, "observed": r}, found_input=True)
    rng = ck.rng("grid")
    limits = [1, 125, 126, 65535, 65536]
    model_cases = []
    send_model = []
    def limit_kinds(L):
        """(label, maxMessagePayloadSize, maxFramePayloadSize): one limit at a time, and both set through the same
        setProtocolOptions call (equal values, and each one the smaller)"""
        ks = [("msg", L, 0), ("frame", 0, L)]
        if L <= 126 or not quick:
            ks += [("both-equal", L, L)]
        if L <= 126:
            ks += [("both-msg-smaller", L, 2 * L + 1), ("both-frame-smaller", 2 * L + 1, L)]
        return ks

    def overage(c, m):
        """(over?, index of the first offending data frame) from the configured limits and the declared frame lengths"""
        tot = 0
        for j, fl in enumerate(m["frames"]):
            tot += fl
            if (0 < c["max_msg"] < tot) or (0 < c["max_frame"] < fl):
                return True, j
        return False, None

    for fw in FWS:
        t_new = time.time()
        base.config_plumbing(ck, fw)
        ck.log(f"[{fw}] configuration plumbing: {time.time() - t_new:.1f}s")
        cases, meta = [], []
        for role in ("server", "client"):
            masked = role == "server"
            for L in limits:
                for kind, lim_msg, lim_frame in limit_kinds(L):
                    sizes = [L - 1, L, L + 1] + ([10 * L] if (L <= 126 or not quick) else [])
                    if kind.startswith("both"):
                        sizes = [L, L + 1, 2 * L + 1, 2 * L + 2]
                    for size in sizes:
                        payload = bytes((i * 7 + size) & 0x7F for i in range(size))
                        for lname, frames in layouts(payload, 2 if size % 2 else 1, masked, rng):
                            if quick and L >= 65535 and lname not in ("single", "two"):
                                continue
                            if L >= 65535 and size >= 2 * L and lname != "single":
                                continue            # 0.6 MB payloads: one layout is enough (JSON volume)
                            stream = b"".join(frames)
                            # headers only: cut right after the header of each data frame in turn (payload withheld)
                            cuts = []
                            pos = 0
                            for f in frames:
                                cuts.append(pos + header_len(f))
                                pos += len(f)
                            for fbd in (True, False):
                                if L >= 65535 and size >= 2 * L and not fbd:
                                    continue
                                # closing = the APPLICATION called sendClose() before the traffic arrives (state CLOSING,
                                # not failed): the limits must hold there too
                                for closing in (False, True):
                                    cfgc = dict(BASE, role=role, fbd=fbd, max_msg=lim_msg, max_frame=lim_frame, closing=closing)
                                    variants = [("whole", [stream])]
                                    variants += [(f"hdr{k}", [stream[:c]]) for k, c in enumerate(cuts)]
                                    if len(stream) > 3 and not closing:
                                        a, b = sorted((rng.randint(1, len(stream) - 1), rng.randint(1, len(stream) - 1)))
                                        variants.append(("cuts", [stream[:a], stream[a:b], stream[b:]]))
                                    if len(stream) <= 24:
                                        variants.append(("octets", [stream[i:i + 1] for i in range(len(stream))]))
                                    if closing and L >= 65535 and size > L + 1:
                                        continue
                                    for vname, chunks in variants:
                                        c = dict(cfgc, chunks=[x.hex() for x in chunks])
                                        cases.append(c)
                                        meta.append(dict(L=L, kind=kind, size=size, layout=lname, variant=vname, role=role, fbd=fbd,
                                                         total=size, closing=closing,
                                                         frames=[len(f) - header_len(f) for f in frames if (f[0] & 15) < 8]))
                                        # the same stream with no limit configured (differential)
                                        if vname == "whole" and not closing:
                                            cases.append(dict(cfgc, max_msg=0, max_frame=0, chunks=[stream.hex()]))
                                            meta.append(dict(nolimit=True))
        burst_of = {}
        if fw == "aio":
            # asyncio: every multi-read delivery also as one burst (all data_received() calls before the loop turns)
            for i in range(len(cases)):
                if len(cases[i]["chunks"]) >= 2:
                    burst_of[len(cases)] = i
                    cases.append(dict(cases[i], burst=True))
                    meta.append(dict(meta[i], burst=True))
        # what the protocol object retains once a frame was rejected while its payload keeps arriving
        ret_cases = []
        for role in ("server", "client"):
            for L, size in ((1, 40), (125, 126), (126, 3000), (1000, 70000)):
                if quick and size > 3000 and role == "client":
                    continue
                payload = bytes((i * 5) & 0x7F for i in range(size))
                fr = base.enc_frame(2, payload, masked=(role == "server"), key=b"\x11\x22\x33\x44")
                h = header_len(fr)
                for kind, lim_msg, lim_frame in (("msg", L, 0), ("frame", 0, L), ("both-equal", L, L)):
                    for closing in (False, True):
                        cfgc = dict(BASE, role=role, max_msg=lim_msg, max_frame=lim_frame, closing=closing, observe_retained=True, nolost=True)
                        step = max(1, size // 7)
                        streamed = [fr[:h]] + [fr[h + k:h + k + step] for k in range(0, size, step)]
                        half = [fr[:h]] + [fr[h + k:h + k + step] for k in range(0, size // 2, step)]
                        # close-handshake policy: the connection stays up, the peer keeps sending the rejected frame
                        for dname, chunks in (("whole", [fr]), ("streamed", streamed), ("streamed-half", half), ("header", [fr[:h]])):
                            if closing and dname != "header":
                                continue      # CLOSING + violation = TCP dropped at the header: nothing arrives afterwards
                            ret_cases.append((dict(cfgc, fbd=False, chunks=[x.hex() for x in chunks]), dict(kind=kind, L=L, size=size, delivery=dname, hdr=h)))
                        # drop policy: the transport is aborted at the header; only that read is looked at
                        ret_cases.append((dict(cfgc, fbd=True, chunks=[fr[:h].hex()]), dict(kind=kind, L=L, size=size, delivery="header", hdr=h)))
        if fw == "aio":
            ret_cases += [(dict(c, burst=True), dict(m, delivery=m["delivery"] + "+burst")) for c, m in ret_cases if len(c["chunks"]) >= 2]
        ck.log(f"[{fw}] limits grid: {len(cases)} implementation runs (+{len(ret_cases)} retention runs)")
        results = ck.run_impl("ws_recv.py", {"fw": fw, "cases": cases + [c for c, _ in ret_cases]}, nvx=False, timeout=3000)["results"]
        ret_results = results[len(cases):]
        results = results[:len(cases)]
        ck.evaluations += len(ret_cases)
        for (c, m), r in zip(ret_cases, ret_results):
            kept = r.get("retained") or {}
            total = sum(kept.values())
            st = "closing" if c["closing"] else "open"
            ck.bump(f"retained:{m['delivery']}:{'ok' if total <= 14 else 'kept'}")
            delivered = [e for e in r["events"] if e[0] == "msg"]
            if total > 14 or delivered:
                ck.violation(f"{c['role']}/payload-retained-after-rejection/fbd={c['fbd']}/{st}",
                             f"[{fw}] limits msg={c['max_msg']} frame={c['max_frame']}, state {st}: after the {m['size']}-octet frame was rejected at its "
                             f"header ({m['delivery']} delivery) the protocol object still holds {total} octets {kept}"
                             + (f" and delivered {len(delivered)} message(s)" if delivered else ""),
                             {"fw": fw, "case": c, "observed": r, "retention": m}, found_input=True)
        for ib, io in burst_of.items():
            ck.bump("burst_runs")
            if base.canon_result(results[ib]) != base.canon_result(results[io]):
                ck.violation(f"aio/burst-dependent/failByDrop={cases[ib]['fbd']}",
                             f"[{fw}] reads {[len(x) // 2 for x in cases[ib]['chunks']]} delivered back to back before the event loop runs give "
                             f"{results[ib]['events'][-3:]} state {results[ib]['state']}, read by read {results[io]['events'][-3:]} state {results[io]['state']}",
                             {"fw": fw, "case": cases[ib], "observed": results[ib], "read_by_read_observed": results[io]}, found_input=True)
        ck.evaluations += len(cases)
        ck.note_cases(0, (json.dumps([fw, c["role"], c["fbd"], c["closing"], c["max_msg"], c["max_frame"], [len(x) for x in c["chunks"]], c["chunks"][0][:24]])
                          for c in cases if c["max_msg"] or c["max_frame"]))
        last_whole = None
        for i, (c, r, m) in enumerate(zip(cases, results, meta)):
            if m.get("nolimit"):
                # differential: within the limits the limited run must equal the unlimited one
                lc, lr, lm = last_whole
                over, _ = overage(lc, lm)
                if not over and base.canon_result(lr) != base.canon_result(r):
                    ck.violation(f"{lc['role']}/within-limit-differs/{lm['kind']}",
                                 f"[{fw}] a message within the limits (msg {lc['max_msg']}, frame {lc['max_frame']}; size {lm['size']}, {lm['layout']}) is handled "
                                 f"differently than without a limit: {lr['events'][:3]} vs {r['events'][:3]}",
                                 {"fw": fw, "case": lc, "observed": lr, "nolimit_observed": r}, found_input=True)
                continue
            if m["variant"] == "whole" and not m["closing"] and not m.get("burst"):
                last_whole = (c, r, m)
            over, first_bad = overage(c, m)
            st = "closing" if m["closing"] else "open"
            ck.bump(f"grid:{m['kind']}:{st}:{'over' if over else 'within'}:{m['variant'][:3]}")
            for key, what in ws_recv.check_against_rfc(c, r):
                if "control-callback-after-violation" in key or "processing-after-close-frame" in key:
                    continue          # C02's business (reported there), not a statement of C16
                ck.violation(key if key.startswith("config/") else f"limits/{m['kind']}/{st}/" + key,
                             f"[{fw}] limits msg={c['max_msg']} frame={c['max_frame']}, state {st}, size {m['size']}, {m['layout']}/{m['variant']}: {what}",
                             {"fw": fw, "case": c, "observed": r, "grid": m}, found_input=True)
            failed = any(e[0] == "drop" for e in r["events"]) or any(e[0] == "sendclose" and e[1] == 1009 for e in r["events"])
            if over and m["variant"] == "whole" and not failed:
                ck.violation(f"{c['role']}/over-limit-not-failed/{m['kind']}/{st}",
                             f"[{fw}] over-limit message (size {m['size']}, frames {m['frames']}; limits msg={c['max_msg']} frame={c['max_frame']}, "
                             f"state {st}) did not fail the connection; delivered {[len(e[1]) // 2 for e in r['events'] if e[0] == 'msg']}",
                             {"fw": fw, "case": c, "observed": r}, found_input=True)
            # early: headers only, cut after the header of the first offending frame -> already failed, nothing buffered
            if over and m["variant"].startswith("hdr"):
                k = int(m["variant"][3:])
                # index k counts all frames incl. the ping of the three+ping layout
                data_idx = k if m["layout"] != "three+ping" else (k if k < 1 else k - 1 if k > 1 else None)
                if data_idx is not None and data_idx == first_bad and not failed:
                    ck.violation(f"{c['role']}/not-early/{m['kind']}/{st}", f"[{fw}] the header of the offending frame alone (payload withheld) did "
                                 f"not fail the connection (limits msg={c['max_msg']} frame={c['max_frame']}, state {st}, size {m['size']}, {m['layout']})",
                                 {"fw": fw, "case": c, "observed": r}, found_input=True)
            if sum(len(x) for x in c["chunks"]) <= 2400 and (i % 3 == 0 or m["variant"].startswith("hdr")):
                model_cases.append((fw, c, r))
        for c, r in list(zip(cases, results))[:2]:
            ck.sample({"fw": fw, "case": c, "observed": r})

        # ---- sendMessage guard (message limit alone, and together with a frame limit of the same / another value)
        scases = []
        for role in ("server", "client"):
            for L in limits:
                for mf in (0, L, 2 * L + 1):
                    if mf and L > 126 and quick:
                        continue
                    for size in (L - 1, L, L + 1, 2 * L + 3):
                        scases.append(dict(BASE, role=role, max_msg=L, max_frame=mf, chunks=[], send={"len": size, "binary": True}, nolost=True))
        sres = ck.run_impl("ws_recv.py", {"fw": fw, "cases": scases}, nvx=False, timeout=600)["results"]
        ck.evaluations += len(scases)
        for c, r in zip(scases, sres):
            L, size = c["max_msg"], c["send"]["len"]
            ck.bump("send:" + ("over" if size > L else "within"))
            if size > L:
                okk = r["events"] == [["raised", "PayloadExceededError"]]
            else:
                okk = r["events"] == [["sendframe", 2, True, 0, size]]
            if not okk:
                ck.violation(f"{c['role']}/send-guard" + ("" if not c["max_frame"] else "/frame-limit-" + ("equal" if c["max_frame"] == L else "other")),
                             f"[{fw}] sendMessage of {size} octets with maxMessagePayloadSize={L}, maxFramePayloadSize={c['max_frame']}: {r['events']}",
                             {"fw": fw, "case": c, "observed": r}, found_input=True)

        # ---- the three receive APIs x several messages per connection
        # onMessage | onMessageBegin/onMessageFrame/onMessageEnd | onMessageBegin/onMessageFrameBegin/onMessageFrameData/
        # onMessageFrameEnd/onMessageEnd, overridden the way the shipped examples do (ws_recv.FrameApi / StreamingApi: only
        # onMessageBegin and onMessageFrameBegin chain to the base class).  The limit is per MESSAGE: messages that are
        # each within the limit must all arrive although their sizes add up beyond it; the first over-limit one fails
        # the connection at its header.  The options reach the factory in one call or in one call per option.
        t_new = time.time()
        acases, ameta = [], []
        arng = ck.rng("apis")
        for api in ("message", "frame", "streaming"):
            for role in ("server", "client"):
                masked = role == "server"
                for L in (125, 1000):
                    for kind, lim_msg, lim_frame in (("msg", L, 0), ("both-equal", L, L)):
                        plans = [("sum-over", [L // 2 + 1] * 3, None), ("each-at-limit", [L, L, L], None),
                                 ("mixed", [1, L, 0, L - 1], None), ("then-over", [L // 2 + 1, L, L + 1, 3], 2)]
                        for pname, sizes, bad in plans:
                            for frag in (False, True):
                                frames, lens = [], []
                                for mi, n in enumerate(sizes):
                                    payload = bytes((i * 11 + mi) & 0x7F for i in range(n))
                                    key = bytes(arng.getrandbits(8) for _ in range(4))
                                    if frag and n >= 2 and (lim_frame == 0 or True):
                                        h = n // 2
                                        frames += [base.enc_frame(2 - mi % 2, payload[:h], fin=False, masked=masked, key=key),
                                                   base.enc_frame(0, payload[h:], fin=True, masked=masked, key=key)]
                                    else:
                                        frames.append(base.enc_frame(2 - mi % 2, payload, masked=masked, key=key))
                                stream = b"".join(frames)
                                for fbd in (True, False):
                                    style = arng.choice([None, "each", "each-rev"])
                                    cfgc = dict(BASE, role=role, fbd=fbd, max_msg=lim_msg, max_frame=lim_frame, api=api)
                                    if style:
                                        cfgc["config_style"] = style
                                    if arng.random() < 0.34:
                                        cfgc["factory_after"] = {"maxMessagePayloadSize": 0, "maxFramePayloadSize": 0, "failByDrop": not fbd}
                                    a, b = sorted((arng.randint(1, len(stream) - 1), arng.randint(1, len(stream) - 1)))
                                    variants = [("whole", [stream]), ("cuts", [stream[:a], stream[a:b], stream[b:]])]
                                    if fw == "aio":
                                        variants.append(("burst", [stream[:a], stream[a:b], stream[b:]]))
                                    for vname, chunks in variants:
                                        c = dict(cfgc, chunks=[x.hex() for x in chunks])
                                        if vname == "burst":
                                            c["burst"] = True
                                        acases.append(c)
                                        ameta.append(dict(api=api, plan=pname, sizes=sizes, bad=bad, frag=frag, kind=kind, variant=vname, L=L))
        ares = ck.run_impl("ws_recv.py", {"fw": fw, "cases": acases}, nvx=False, timeout=1200)["results"]
        ck.evaluations += len(acases)
        ck.note_cases(0, (json.dumps([fw, "api", c["api"], c["role"], c["fbd"], c["max_msg"], c["max_frame"], c.get("config_style"), m["plan"], m["frag"],
                                      [len(x) for x in c["chunks"]]]) for c, m in zip(acases, ameta)))
        for i, (c, r, m) in enumerate(zip(acases, ares, ameta)):
            ck.bump(f"recv-api:{m['api']}:{m['plan']}")
            # after WE failed the connection no application hook of any receive API may be called any more (upstream 18d9c61a:
            # the failedByMe guard sits where the hooks are dispatched, so it also holds for overrides that do not chain)
            probs = ws_recv.check_against_rfc(c, r)
            hooked = any(k.endswith("app-hooks-called-after-failure") for k, _ in probs)
            ck.bump(f"recv-api:{m['api']}:app-hooks-called-after-failure:{'yes' if hooked else 'no'}")
            for key, what in probs:
                if "control-callback-after-violation" in key or "processing-after-close-frame" in key:
                    continue
                if hooked and m["api"] != "message" and ("msg-after-violation" in key or "oversize-delivery" in key):
                    continue      # the mixin handing on what its hooks were given: same violation, one key
                ck.violation(key if key.startswith("config/") else f"recv-api/{m['api']}/" + key,
                             f"[{fw}] application uses the {m['api']} receive API, limits msg={c['max_msg']} frame={c['max_frame']} "
                             f"({c.get('config_style') or 'one setProtocolOptions call'}{', factory reconfigured after the handshake' if c.get('factory_after') else ''}), "
                             f"{len(m['sizes'])} messages of sizes {m['sizes']}"
                             f"{' (two fragments each)' if m['frag'] else ''}, {m['variant']}: {what}",
                             {"fw": fw, "case": c, "observed": r, "grid": m}, found_input=True)
            failed = any(e[0] == "drop" for e in r["events"]) or any(e[0] == "sendclose" and e[1] == 1009 for e in r["events"])
            if m["bad"] is not None and not failed:
                ck.violation(f"recv-api/{m['api']}/{c['role']}/over-limit-not-failed",
                             f"[{fw}] {m['api']} receive API: message {m['bad']} of sizes {m['sizes']} exceeds msg={c['max_msg']} frame={c['max_frame']} "
                             f"and the connection was not failed", {"fw": fw, "case": c, "observed": r, "grid": m}, found_input=True)
            if i % 4 == 0 and sum(len(x) for x in c["chunks"]) <= 2400:
                model_cases.append((fw, c, r))

        # ---- the send APIs: sendMessage (plain / fragmentSize / doNotCompress) and sendPreparedMessage (doNotCompress
        # either way), with and without permessage-deflate, several operations on one connection: legal, over-limit
        # (incompressible), legal, legal, at the limit, over-limit, legal.  Every over-limit operation must raise
        # PayloadExceededError and write NOTHING; every other must be written; a peer reading the octets written (an
        # independent frame parser, ONE real zlib inflater per connection) must get exactly the accepted payloads.
        sa_cases, sa_meta = [], []
        for role in ("server", "client"):
            for pmc in (False, True):
                for L in (60, 126, 1000):
                    for api, dnc, fragment in (("message", False, None), ("message", False, 7), ("message", True, None),
                                               ("prepared", False, None), ("prepared", True, None)):
                        a = L // 3
                        V = dict(api=api, dnc=dnc, fragment=fragment)
                        ops = [dict(V, len=a, kind="flat", seed=0), dict(V, len=3 * L + 5, kind="noise"),
                               dict(V, len=a + 1, kind="flat", seed=1), dict(api="message", dnc=False, fragment=None, len=a + 2, kind="flat", seed=2),
                               dict(V, len=L, kind="flat", seed=0), dict(V, len=3 * L + 6, kind="noise"), dict(V, len=a + 3, kind="flat", seed=1)]
                        if not pmc or dnc:
                            ops.insert(5, dict(V, len=L + 1, kind="flat", seed=2))       # uncompressed path: exact boundary
                        for j, o in enumerate(ops):
                            o["binary"] = j % 2 == 0
                        for after in (None, {"maxMessagePayloadSize": 0}, {"maxMessagePayloadSize": 7 * L}):
                            # the limits are those of the connection: reconfiguring the factory afterwards changes nothing here
                            if after and L == 126:
                                continue
                            sa_cases.append(dict(BASE, role=role, max_msg=L, pmc=pmc, chunks=[], nolost=True, sends=ops,
                                                 **({"factory_after": after} if after else {})))
                            sa_meta.append(dict(fn="sendMessage" if api == "message" else "sendPreparedMessage",
                                                path="plain" if not pmc else ("pmc+doNotCompress" if dnc else "pmc"), L=L, pmc=pmc))
        sa_res = ck.run_impl("ws_recv.py", {"fw": fw, "cases": sa_cases}, nvx=False, timeout=600)["results"]
        ck.evaluations += len(sa_cases)
        ck.note_cases(0, (json.dumps([fw, "send", c["role"], c["pmc"], c["max_msg"], [(o["api"], o["dnc"], o["fragment"], o["len"], o["kind"]) for o in c["sends"]]])
                          for c in sa_cases))
        for c, r, m in zip(sa_cases, sa_res, sa_meta):
            for o in c["sends"]:
                ck.bump(f"send-api:{send_fn(o)}:{send_path(c, o)}:{'over' if send_over(c, o) else 'within'}")
            for key, what in judge_sends(fw, c, r):
                if c.get("factory_after"):
                    key, what = key + "/factory-reconfigured-later", what + f" (after factory.setProtocolOptions({c['factory_after']}) on the established connection)"
                ck.violation(key, what, {"fw": fw, "case": c, "observed": brief_sends(r)}, found_input=True)
            send_model.append((fw, c, r))
        # frame-wise sending (beginMessage / sendMessageFrame / endMessage, beginMessageFrame / sendMessageFrameData): the message
        # size is not known when the first frame goes out, and no guard exists (KNOWN finding, one key)
        fw_cases = [dict(BASE, role=role, max_msg=60, pmc=pmc, chunks=[], nolost=True, sends=[dict(api=api, len=200, kind="noise", fragment=50, dnc=False)])
                    for role in ("server", "client") for pmc in (False, True) for api in ("frames", "framedata") if not (pmc and api == "framedata")]
        fw_res = ck.run_impl("ws_recv.py", {"fw": fw, "cases": fw_cases}, nvx=False, timeout=300)["results"]
        ck.evaluations += len(fw_cases)
        for c, r in zip(fw_cases, fw_res):
            g = r["sends"]["ops"][0]
            ck.bump("send-api:frame-wise-over-limit:" + ("written" if g["wrote"] else "refused"))
            if g["wrote"] and g["raised"] is None:
                ck.violation("send-api/frame-wise/over-limit-written", FRAME_WISE_WHAT,
                             {"fw": fw, "case": c, "observed": brief_sends(r)}, found_input=True)
        # ---- a limit (or any other) failure while the application has synchronous / chopped writes queued: the 1009 close frame
        # must reach the wire after the queued data (base.pending_stage: each case plain, with sync and with chopped writes)
        pend = []
        prng = ck.rng("pending")
        for role in ("server", "client"):
            masked = role == "server"
            for L in (5, 125, 1000):
                for kind, lim_msg, lim_frame in (("msg", L, 0), ("frame", 0, L), ("both-equal", L, L)):
                    for size in (L, L + 1, 2 * L + 3):
                        payload = bytes((i * 3 + size) & 0x7F for i in range(size))
                        for lname, frames in layouts(payload, 2, masked, prng)[:2]:
                            stream = b"".join(frames)
                            for fbd in (True, False):
                                cfgc = dict(BASE, role=role, fbd=fbd, max_msg=lim_msg, max_frame=lim_frame)
                                pend.append(dict(cfgc, chunks=[stream.hex()]))
                                k = header_len(frames[-1]) + (len(stream) - len(frames[-1]))      # up to the last frame's header
                                pend.append(dict(cfgc, chunks=[stream[:k].hex(), stream[k:].hex()]))
        base.pending_stage(ck, fw, [c for c in pend if all(c["chunks"])], "C16")
        ck.log(f"[{fw}] receive APIs ({len(acases)} runs) and send APIs ({len(sa_cases)} runs): {time.time() - t_new:.1f}s")

        # ---- decompression cap, real zlib
        zc, zmeta = [], []
        zr = ck.rng("zlib")
        for role in ("server", "client"):
            masked = role == "server"
            for cap in (100, 1000):
                for sizes in ([cap - 1, 20], [cap, 20], [cap + 1, 20], [10 * cap, 45], [5, cap * 3, 7]):
                    msgs = [bytes(zr.choice(b"AB") if i % 7 else zr.getrandbits(8) for i in range(n)) for n in sizes]
                    if sizes[0] == 10 * cap:
                        msgs = [b"A" * (10 * cap), b"second message " * 3]
                    for frag in (False, True):
                        frames = deflate_frames(msgs, masked, zr, fragment=frag)
                        for fbd in (True, False):
                            stream = b"".join(frames)
                            for chunks in ([stream], [stream[:len(stream) // 2], stream[len(stream) // 2:]]):
                                zc.append(dict(BASE, role=role, fbd=fbd, pmc=True, pmc_max=cap, chunks=[x.hex() for x in chunks]))
                                zmeta.append(dict(cap=cap, msgs=[m.hex() for m in msgs], frag=frag))
                                zc.append(dict(BASE, role=role, fbd=fbd, pmc=True, pmc_max=None, chunks=[x.hex() for x in chunks]))
                                zmeta.append(dict(cap=None, msgs=[m.hex() for m in msgs], frag=frag))
        zres = ck.run_impl("ws_recv.py", {"fw": fw, "cases": zc}, nvx=False, timeout=600)["results"]
        ck.evaluations += len(zc)
        ck.note_cases(0, (json.dumps([fw, c["role"], c["fbd"], c["pmc_max"], c["chunks"]]) for c in zc))
        for c, r, m in zip(zc, zres, zmeta):
            true = [[x, True] for x in m["msgs"]]
            got = [[e[1], e[2]] for e in r["events"] if e[0] == "msg"]
            over = m["cap"] is not None and any(len(x) // 2 > m["cap"] for x in m["msgs"])
            ck.bump(f"zlib:cap={m['cap']}:{'over' if over else 'within'}")
            esc = [e for e in r["events"] if e[0] == "escaped"]
            if got != true[:len(got)] or esc:
                kind = "escaped-" + esc[0][1] if esc and got == true[:len(got)] else (
                    "truncated" if any(g[0] != t[0] and t[0].startswith(g[0]) for g, t in zip(got, true)) else "altered")
                # the known finding is: a cap is configured AND a message inflates beyond it; anything else is a new key
                prefix = "decompress-cap" if over else ("decompress-within-cap" if m["cap"] is not None else "decompress-nocap")
                ck.violation(f"{prefix}/{kind}",
                             f"[{fw}] permessage-deflate max_message_size={m['cap']}: true message sizes {[len(x) // 2 for x in m['msgs']]}, "
                             f"delivered sizes {[len(g[0]) // 2 for g in got]} (delivered is not a prefix of the true messages"
                             f"{'; ' + esc[0][1] + ' escaped dataReceived' if esc else ''})",
                             {"fw": fw, "case": c, "observed": {k: (v if k != 'tape' else '...') for k, v in r.items()}, "true_messages": m["msgs"]}, found_input=True)
            elif not over and got != true and not any(e[0] in ("drop", "sendclose") for e in r["events"]):
                ck.violation("decompress-cap/within-cap-lost", f"[{fw}] messages within the cap were not all delivered: {len(got)}/{len(true)}",
                             {"fw": fw, "case": c, "observed": r}, found_input=True)
            if not over and r.get("codec_raised") and not esc:
                ck.violation(f"{'decompress-within-cap' if m['cap'] is not None else 'decompress-nocap'}/codec-raised-on-valid-data",
                             f"[{fw}] permessage-deflate max_message_size={m['cap']}: every message is valid deflate data within the cap, the "
                             f"decompressor raised {r['codec_raised'][:2]} and the connection was failed",
                             {"fw": fw, "case": c, "observed": {k: (v if k != 'tape' else '...') for k, v in r.items()}, "true_messages": m["msgs"]}, found_input=True)
            # runs in which the real codec raised have no model answer (the Gallina decompressor is a total oracle): they are judged
            # above (delivered = prefix of the true messages) and, for streams without a cap, by C02's codec_error_stage
            if sum(len(x) for x in c["chunks"]) <= 2400 and sum(len(t) for t in r["tape"]) <= 6000 and not esc and not r.get("codec_raised"):
                model_cases.append((fw, c, r))

    # ---- the Gallina model on the sample
    if len(model_cases) > (1500 if quick else 6000):
        srng = ck.rng("sample")
        srng.shuffle(model_cases)
        model_cases = model_cases[:1500 if quick else 6000]
    terms = [base.coq_case(c, r) for _, c, r in model_cases]
    bad = ck.coq_cases("lim", IMPORTS, "wsrecv_case_ok", terms, ty="wsrecv_case", shard=120)
    ck.bump("model_compared", len(terms))
    ck.log(f"model vs implementation: {len(terms)} cases, {len(bad)} disagree")
    for i in bad[:5]:
        fw, c, r = model_cases[i]
        vals = ck.coq_eval(IMPORTS, ["wsrecv_show " + terms[i]])
        ck.violation(f"model-disagrees/{c['role']}/fbd={c['fbd']}/pmc={c['pmc']}",
                     f"[{fw}] Gallina model and implementation disagree: model {vals[0][:300]} vs observed {r['events'][:6]} {r['state']} {r['close']}",
                     {"fw": fw, "case": c, "observed": r, "model": vals[0], "correspondence": "wsrecv_case_ok"}, found_input=False)
    # ---- the send model (Model/WsSendGuard.v) on every send case, the compressor replayed from the run
    ok, out = vlib.coq_make(["Model/WsSendGuardRun.vo"])
    if not ok:
        raise RuntimeError("WsSendGuardRun build failed: " + out[-1500:])
    sterms = [send_term(c, r) for _, c, r in send_model]
    sbad = ck.coq_cases("send", SEND_IMPORTS, "send_case_ok", sterms, ty="send_case", shard=200)
    ck.bump("send_model_compared", len(sterms))
    ck.log(f"send model vs implementation: {len(sterms)} cases, {len(sbad)} disagree")
    for i in sbad[:5]:
        fw, c, r = send_model[i]
        vals = ck.coq_eval(SEND_IMPORTS, ["send_show " + sterms[i]])
        ck.violation(f"send-model-disagrees/{c['role']}/pmc={c['pmc']}",
                     f"[{fw}] Gallina send model and implementation disagree: model (refused, rsv1, octets, compressor is None) {vals[0][:400]} vs observed "
                     f"{[(o['raised'], o['rsv1'], o['wire_len'], o['compressor_none']) for o in r['sends']['ops']]}",
                     {"fw": fw, "case": c, "observed": {"ops": [dict(o, payload=o['payload'][:32]) for o in r['sends']['ops']]}, "model": vals[0],
                      "correspondence": "send_case_ok"}, found_input=False)
    if broken:
        ck.log(f"broken obligations: {broken}")


def replay(path):
    rec = json.load(open(path))
    r = rec["replay"]
    ck = vlib.Check("C16", "quick", 1)
    case = r.get("case")
    if case is None:
        print("no concrete case stored:", json.dumps(r)[:2000])
        return 1
    fw = r.get("fw", "tx")
    if "config_calls" in case:
        return base.replay_config(ck, fw, case)
    if "pending_writes" in case:
        return base.replay(path)
    res = base.run_cases(ck, fw, [case])[0]
    if "sends" in case:
        print("case          :", json.dumps(case)[:3000])
        for o, g in zip(case["sends"], res["sends"]["ops"]):
            print(f"  {send_fn(o)}({o['len']} octets, {o['kind']}, doNotCompress={o['dnc']}, fragmentSize={o['fragment']}) [{send_path(case, o)}] "
                  f"{'OVER the limit' if send_over(case, o) else 'within the limit'}: raised {g['raised']}, wrote {g['wrote']} octets, "
                  f"compressor output {g['comp_len']}")
        print("peer reads    :", [(len(p[0]) // 2, p[1]) for p in res["sends"]["peer"]], "error:", res["sends"]["peer_error"])
        if case["sends"][0]["api"] in ("frames", "framedata"):
            g = res["sends"]["ops"][0]
            bad = bool(g["wrote"]) and g["raised"] is None
            print(f"frame-wise send of {case['sends'][0]['len']} octets with maxMessagePayloadSize={case['max_msg']}: raised {g['raised']}, wrote {g['wrote']} octets")
            print("oracle verdict:", "over-limit message written" if bad else "conforms")
            return int(bad)
        probs = judge_sends(fw, case, res)
        print("oracle verdict:", probs or "conforms")
        vlib.coq_make(["Model/WsSendGuardRun.vo"])
        vals = ck.coq_eval(SEND_IMPORTS, ["send_case_ok " + send_term(case, res)])
        print("Gallina send model agrees with implementation:", vals[0])
        return int(bool(probs) or "true" not in vals[0])
    print("case          :", json.dumps(case)[:3000])
    print("implementation:", json.dumps({k: v for k, v in res.items() if k != "tape"})[:3000])
    bad = 0
    if "true_messages" in r:
        true = [[x, True] for x in r["true_messages"]]
        got = [[e[1], e[2]] for e in res["events"] if e[0] == "msg"]
        print("true message sizes     :", [len(x[0]) // 2 for x in true])
        print("delivered message sizes:", [len(x[0]) // 2 for x in got], "escaped:", [e for e in res["events"] if e[0] == "escaped"])
        bad = int(got != true[:len(got)] or any(e[0] == "escaped" for e in res["events"]))
    else:
        probs = ws_recv.check_against_rfc(case, res)
        print("oracle verdict:", probs or "conforms")
        bad = int(bool(probs))
    if sum(len(x) for x in case["chunks"]) <= 6000 and not any(e[0] == "escaped" for e in res["events"]):
        vlib.coq_make(["Model/WsRecvRun.vo"])
        vals = ck.coq_eval(IMPORTS, ["wsrecv_case_ok " + base.coq_case(case, res)])
        print("Gallina model agrees with implementation:", vals[0])
    return bad
