"""C17 — Silent peers are dropped on time, responsive peers never.

Timelines on a 125 ms grid (dyadic => exact on both virtual clocks): every placement of each peer reaction
(handshake completion, close reply, TCP drop, pong, data frame) before / at / after each deadline, for the settings
{0 (off), 1, 2, 5} s, both roles, Twisted Clock and asyncio virtual loop.  The real code's per-step observation is
compared with the Gallina model (coqc) and, independently, judged by an oracle written from the property text.
"""
import json, os, time
import vlib
from props import c05
from props.c05 import base_cfg

GRID = 125
SETTINGS = [0, 1000, 2000, 5000]
CLS_FLAG = {"open": ("OpenTO", "wasOpenTO"), "close": ("CloseTO", "wasCloseTO"), "drop": ("DropTO", "wasDropTO"),
            "ping": ("PingTO", None)}


def offsets(T, quick):
    """reaction offsets relative to the arming time: dense around the nominal deadline and the second before it"""
    hi = T + 1000
    xs = set(range(0, hi + 1, GRID if not quick else 250))
    for d in (T - 1125, T - 1000, T - 875, T - 125, T, T + 125):
        if 0 <= d <= hi:
            xs.add(d)
    return sorted(xs)


# ------------------------------------------------------------------ timelines
def tl_open(role, T, t0, x, reaction):
    cfg = base_cfg(role=role, openTO=T, t0=t0, closeTO=1000, dropTO=1000)
    evs = []
    if reaction is not None:
        evs += [["tick", t0 + x], reaction]
    evs += [["tick", t0 + T + 2000], ["ownDrop"], ["tick", t0 + T + 4000]]
    return dict(cfg=cfg, events=evs, meta=dict(timer="open", T=T, armed=t0, D=t0 + T,
                                               reaction=None if reaction is None else t0 + x, rkind=(reaction or ["none"])[0]))


def tl_proxy(T, t0, xp, xh):
    """client behind an explicit proxy (PROXY_CONNECTING): the proxy answers 2xx at t0+xp (or never), the server behind
    it completes the WebSocket handshake at t0+xh (or never).  The opening-handshake timer armed at connectionMade
    covers both phases: the deadline stays t0+T"""
    cfg = base_cfg(role="client", openTO=T, t0=t0, closeTO=1000, dropTO=1000, proxy=True)
    evs = []
    if xp is not None:
        evs += [["tick", t0 + xp], ["proxyok"]]
    if xh is not None:
        evs += [["tick", t0 + xh], ["hs"]]
    evs += [["tick", t0 + T + 2000], ["ownDrop"], ["tick", t0 + T + 4000]]
    responsive = xp is not None and xh is not None and xh >= xp
    return dict(cfg=cfg, events=evs, meta=dict(timer="open", T=T, armed=t0, D=t0 + T, reaction=(t0 + xh) if responsive else None,
                                               rkind="proxy+hs" if responsive else ("proxy-then-silent" if xp is not None else "proxy-silent")))


def tl_close(role, T, t0, x, reaction, fbd=True):
    tc = t0 + 250
    cfg = base_cfg(role=role, openTO=2000, closeTO=T, dropTO=1000, t0=t0, failByDrop=fbd)
    evs = [["hs"], ["tick", tc], ["sendClose", 1000, "627965"]]
    if reaction is not None:
        evs += [["tick", tc + x], reaction]
    evs += [["tick", tc + T + 3000], ["ownDrop"], ["tick", tc + T + 5000]]
    return dict(cfg=cfg, events=evs, meta=dict(timer="close", T=T, armed=tc, D=tc + T,
                                               reaction=None if reaction is None else tc + x, rkind=(reaction or ["none"])[0]))


def tl_drop(T, t0, x, react, initiator):
    """client: closing handshake complete at tr (we initiated, peer replied / peer initiated, we replied); does the
    server drop TCP in time?"""
    tr = t0 + 375
    cfg = base_cfg(role="client", openTO=2000, closeTO=5000, dropTO=T, t0=t0)
    if initiator == "me":
        evs = [["hs"], ["sendClose", 1000, None], ["tick", tr], ["peerClose", 1000, "6f6b"]]
    else:
        evs = [["hs"], ["tick", tr], ["peerClose", 1000, "6f6b"]]
    if react:
        evs += [["tick", tr + x], ["peerDrop", True]]
    evs += [["tick", tr + T + 7000], ["ownDrop"], ["tick", tr + T + 8000]]
    return dict(cfg=cfg, events=evs, meta=dict(timer="drop", T=T, armed=tr, D=tr + T, reaction=(tr + x) if react else None,
                                               rkind="peerDrop" if react else "none", initiator=initiator))


def q(t):
    return (t // 1000) * 1000


def tl_ping(role, I, T, t0, x, reaction, restart, pre=None, size=16):
    """pre: events delivered right after the handshake, before the first ping (e.g. the first fragment of a message, or
    the head of a frame whose tail is the reaction)"""
    cfg = base_cfg(role=role, openTO=2000, closeTO=1000, dropTO=1000, t0=t0, pingInt=I, pingTO=T, restart=restart, pingSize=size)
    F1 = max(t0, q(t0 + I))                       # first auto ping (only used to place the events; the oracle reads the real ping time)
    evs = [["hs"]] + [list(e) for e in (pre or [])] + [["tick", F1]]
    if reaction is not None:
        evs += [["tick", F1 + x], reaction]
    evs += [["tick", F1 + T + 125], ["tick", F1 + T + 8000], ["ownDrop"], ["tick", F1 + T + 9000]]
    # qualifying reactions: the matching pong; with autoPingRestartOnAnyTraffic the END of any data frame (unfragmented
    # message, first / middle / last fragment, tail of a frame read in two pieces).  Not: ping, foreign pong, a frame head
    qualifies = reaction is not None and (reaction == ["peerPong", True] or (reaction[0] in ("peerData", "peerFrag", "peerTail") and restart))
    rk = "none" if reaction is None else ("/".join(str(v) for v in reaction) + ("+pre" if pre else ""))
    return dict(cfg=cfg, events=evs, meta=dict(timer="ping", T=T, I=I, reaction=(F1 + x) if qualifies else None,
                                               rkind=rk + ("" if qualifies or reaction is None else "(non-qualifying)")))


def tl_periodic(role, I, T, t0, r, n, restart, with_data, size=12):
    cfg = base_cfg(role=role, openTO=2000, closeTO=1000, dropTO=1000, t0=t0, pingInt=I, pingTO=T, restart=restart, pingSize=size)
    evs = [["hs"]]
    for _ in range(n):
        evs += [["tickrel", "next"]]
        if r:
            evs += [["tickrel", r]]
        evs += [["peerData"] if with_data else ["peerPong", True]]
    evs += [["tickrel", "next"]]
    return dict(cfg=cfg, events=evs, meta=dict(timer="periodic", I=I, T=T, r=r, n=n, answers="data" if with_data else "pong"))


def tl_dead(role, how, I, T):
    """reach CLOSED with timers still pending, keep the transport-gone event back, let every timer fire"""
    cfg = base_cfg(role=role, openTO=2000, closeTO=2000, dropTO=2000, t0=375, pingInt=I, pingTO=T, failByDrop=(how == "violation"))
    evs = [["hs"], ["tick", q(375 + I) if I else 1000]]
    expect_clean = False
    if how == "peerclose":
        evs += [["peerClose", 1000, "6f6b"]]; expect_clean = (role == "server")
    elif how == "sendclose-reply":
        evs += [["sendClose", 1000, None], ["peerClose", 1000, None]]; expect_clean = (role == "server")
    elif how == "violation":
        evs += [["peerViolation"]]
    elif how == "closetimeout":
        evs += [["sendClose", 1000, None], ["tickrel", 2000]]
    evs += [["tickrel", "next"], ["tickrel", "next"], ["tickrel", "next"], ["tickrel", 9000], ["ownDrop"], ["tickrel", 5000]]
    return dict(cfg=cfg, events=evs, meta=dict(timer="dead", how=how, expect_clean=expect_clean))


# ------------------------------------------------------------------ oracle (from the property text)
def drop_time(steps):
    for s in steps:
        for o in s["out"]:
            if o[1] in ("lose", "abort"):
                return o[0]
    return None


def oracle17(case, res, fw):
    bad = []
    m = case.get("meta")
    cfg, evs, steps = case["cfg"], case["events"], res["steps"]
    role = cfg["role"]
    # generic: no timer has any effect after the connection is closed (visible part: no output on a tick)
    for i, s in enumerate(steps[1:], 1):
        if evs[i - 1][0] in ("tick", "tickrel") and steps[i - 1]["state"] == "CLOSED" and c05.canon_out(fw, s["out"]):
            bad.append((f"{role}/timer-output-after-close", f"step {i} {evs[i-1]}: {s['out']}"))
        for o in s["out"]:
            if o[1] == "escaped":
                bad.append((f"{role}/{evs[i-1][0]}/ESCAPED/{o[2]}", f"step {i}: {o}"))
    if not m:
        return bad
    onclose = [o for s in steps for o in s["out"] if o[1] == "cbclose"]
    final = steps[-1]
    td = drop_time(steps)
    if m["timer"] in ("open", "close", "drop", "ping"):
        cls, flag = CLS_FLAG[m["timer"]]
        T = m["T"]
        if m["timer"] == "ping":
            pings = [o[0] for s in steps for o in s["out"] if o[1] == "wping" and o[2] is not None]
            if not pings:
                if cfg["pingInt"] > 0:
                    bad.append((f"{role}/ping/no-auto-ping", "no automatic ping was written"))
                return bad
            armed = pings[0]
            D = armed + T
            if not (armed - cfg["t0"] <= cfg["pingInt"] and armed - cfg["t0"] > cfg["pingInt"] - 1000):
                bad.append((f"{role}/ping/first-ping-time", f"first ping at {armed}, connection open at {cfg['t0']}, interval {cfg['pingInt']}"))
        else:
            armed, D = m["armed"], m["D"]
        reaction = m["reaction"]
        # (a later, unanswered ping may legitimately time out: for the ping timer only the drop time counts)
        dropped_by_this = m["timer"] != "ping" and ((final["flags"]["ncr"] == cls) or (flag and final["flags"][flag]) or any(o[5] == cls for o in onclose))
        key = f"{role}/{m['timer']}-timeout/T={T}/{m['rkind']}"
        f_c05_1 = m["timer"] == "drop" and m.get("initiator") == "peer"
        if T == 0:
            if dropped_by_this:
                bad.append((key + "/fired-though-disabled", f"timeout 0 (off) but the connection was dropped by the {m['timer']} timer"))
        elif reaction is None or reaction > D:
            # silent peer: dropped no later than the deadline, reported unclean with the corresponding reason
            if td is None or td > D:
                bad.append(("client/peer-close-in-OPEN/no-timer-armed" if f_c05_1 and td is None else key + "/not-dropped-by-deadline", f"armed at {armed} ms, deadline {D} ms, first drop at {td}, reaction at {reaction}; final state {final['state']}"))
            elif reaction is None:
                if not onclose or onclose[0][2] or onclose[0][3] != 1006 or onclose[0][5] != cls:
                    bad.append((key + "/wrong-report", f"dropped at {td}, onClose reported {onclose[:1]}, expected (False, 1006, {cls})"))
                if flag and not final["flags"][flag]:
                    bad.append((key + "/flag-not-set", f"{flag} is False after the timeout"))
        elif reaction <= D - 1000:
            # responsive peer with at least the timer granularity to spare: never dropped by this timer
            if dropped_by_this or (td is not None and td < reaction):
                bad.append((key + "/responsive-peer-dropped", f"armed {armed}, deadline {D}, reaction at {reaction}, drop at {td}, reason {final['flags']['ncr']}"))
            if m["timer"] == "ping" and td is not None and td <= D:
                # the reaction answers every ping written before it; a ping written after it that stays unanswered may
                # time out, but not earlier than one granularity step (1 s) before ITS deadline
                ri = max(i for i, e in enumerate(evs, 1) if e[0].startswith("peer"))      # step of the reaction: the last peer event of the timeline
                later = [o[0] for i, s in enumerate(steps) if i > ri for o in s["out"] if o[1] == "wping" and o[2] is not None]
                if not later or td <= later[0] + T - 1000:
                    bad.append((key + "/responsive-peer-dropped", f"ping at {armed}, deadline {D}, qualifying reaction at {reaction}, dropped at {td}"
                                + (f", next ping at {later[0]}" if later else "")))
    elif m["timer"] == "periodic":
        pings = [o[0] for s in steps for o in s["out"] if o[1] == "wping" and o[2] is not None]
        I, r, n = m["I"], m["r"], m["n"]
        key = f"{role}/ping-periodic/I={I}/answers={m['answers']}"
        expect_pings = n + 1 if (m["answers"] == "pong" or (cfg["restart"] and cfg["pingTO"] > 0)) else 1
        # the property grants every timeout one second of granularity: with whole-second settings pings and deadlines
        # fall on whole seconds and an answer before the deadline is in time; with fractional settings the timeout may
        # fire up to 1 s early, and only answers with a full second to spare are judged here (the rest: model comparison)
        whole = I % 1000 == 0 and cfg["pingTO"] % 1000 == 0
        if cfg["pingTO"] and not whole and r + 1000 > cfg["pingTO"]:
            return bad
        if final["state"] != "OPEN" and expect_pings == n + 1:
            bad.append((key + "/not-open", f"a peer that answers every ping after {r} ms ended in {final['state']} ({final['flags']['ncr']})"))
        if expect_pings == n + 1:
            if len(pings) != n + 1:
                bad.append((key + "/ping-count", f"{len(pings)} pings for {n} answered rounds: {pings}"))
            for a, b_ in zip(pings, pings[1:]):
                gap = b_ - a
                if not (I + r - 1000 < gap <= I + r):
                    bad.append((key + "/ping-gap", f"consecutive pings at {a} and {b_}: gap {gap} ms, interval {I} ms, answer delay {r} ms"))
    elif m["timer"] == "dead":
        key = f"onAutoPingTimeout/effect-after-close" if final["flags"]["ncr"] == "PingTO" else f"{role}/timer-effect-after-close/{m['how']}"
        if m["expect_clean"] and (not onclose or not onclose[0][2]):
            bad.append((key, f"closing handshake completed and connection CLOSED before any timer fired ({m['how']}), but after the "
                             f"timers ran onClose reported {onclose[:1]}"))
    return bad


# ------------------------------------------------------------------ the check
def families(quick):
    fam = {}
    t0s = [0, 375] if quick else [0, 375, 1875]
    roles = ("server", "client")
    L = fam.setdefault("open", [])
    for role in roles:
        for T in SETTINGS:
            for t0 in t0s:
                L.append(tl_open(role, T, t0, 0, None))
                for x in offsets(T, quick):
                    L.append(tl_open(role, T, t0, x, ["hs"]))
                for x in offsets(T, True):
                    L.append(tl_open(role, T, t0, x, ["badhs"]))
                    L.append(tl_open(role, T, t0, x, ["peerDrop", False]))
    L = fam.setdefault("proxy", [])
    for T in SETTINGS:
        for t0 in t0s:
            L.append(tl_proxy(T, t0, None, None))
            for xp in sorted({0, 250, max(0, T - 1125), max(0, T - 250), T + 125}):
                L.append(tl_proxy(T, t0, xp, None))
                for xh in offsets(T, quick):
                    if xh >= xp:
                        L.append(tl_proxy(T, t0, xp, xh))
    L = fam.setdefault("close", [])
    for role in roles:
        for T in SETTINGS:
            for t0 in t0s:
                L.append(tl_close(role, T, t0, 0, None))
                for x in offsets(T, quick):
                    L.append(tl_close(role, T, t0, x, ["peerClose", 1000, None]))
                for x in offsets(T, True):
                    L.append(tl_close(role, T, t0, x, ["peerDrop", True]))
                    L.append(tl_close(role, T, t0, x, ["peerData"]))           # not a qualifying reaction
    for c in L:
        if c["meta"]["rkind"] == "peerData":
            c["meta"]["reaction"] = None; c["meta"]["rkind"] = "peerData(non-qualifying)"
    L = fam.setdefault("drop", [])
    for T in SETTINGS:
        for t0 in t0s:
            for ini in ("me", "peer"):
                L.append(tl_drop(T, t0, 0, False, ini))
                for x in offsets(T, quick):
                    L.append(tl_drop(T, t0, x, True, ini))
    L = fam.setdefault("ping", [])
    for role in roles:
        for I in (1000, 2000):
            for T in SETTINGS:
                for t0 in t0s:
                    for restart in (True, False):
                        L.append(tl_ping(role, I, T, t0, 0, None, restart))
                        for x in offsets(T, True if quick else False):
                            L.append(tl_ping(role, I, T, t0, x, ["peerPong", True], restart))
                        for x in offsets(T, True):
                            L.append(tl_ping(role, I, T, t0, x, ["peerData"], restart))
                            L.append(tl_ping(role, I, T, t0, x, ["peerPong", False], restart))
                        # every kind of incoming frame as the peer's only reaction
                        for x in (offsets(T, True) if (I == 1000 or not quick) else []):
                            L.append(tl_ping(role, I, T, t0, x, ["peerFrag", False, False], restart))
                            L.append(tl_ping(role, I, T, t0, x, ["peerFrag", True, False], restart, pre=[["peerFrag", False, False]]))
                            L.append(tl_ping(role, I, T, t0, x, ["peerFrag", True, True], restart, pre=[["peerFrag", False, False]]))
                            L.append(tl_ping(role, I, T, t0, x, ["peerTail"], restart, pre=[["peerHead"]]))
                            L.append(tl_ping(role, I, T, t0, x, ["peerHead"], restart))
                            L.append(tl_ping(role, I, T, t0, x, ["peerPing"], restart))
    L = fam.setdefault("periodic", [])
    for role in roles:
        for I in (1000, 2000, 5000):
            for T in (0, 1000, 2000):
                for t0 in t0s:
                    for r in (0, 125, 500, 875):
                        if T and r >= T:
                            continue
                        for restart in (True, False):
                            L.append(tl_periodic(role, I, T, t0, r, 4, restart, False))
                            L.append(tl_periodic(role, I, T, t0, r, 4, restart, True))
    # the whole documented range of autoPingSize (12..125: both ends, their neighbours, the middle) and boundary values of
    # the other ping options (sub-second and fractional interval / timeout, timeout <, =, > interval): silent peer,
    # matching pong at every offset, non-matching pong, data frame; and the periodic cycle
    L = fam.setdefault("pingopts", [])
    SIZES = (12, 13, 64, 124, 125)
    ODD = ((125, 125), (500, 500), (1500, 500), (500, 1500), (1000, 125), (125, 1000), (2500, 1500), (1000, 1000))
    for role in roles:
        for t0 in t0s:
            for size in SIZES:
                for I, T in ((1000, 0), (1000, 1000), (2000, 2000)):
                    L.append(tl_ping(role, I, T, t0, 0, None, True, size=size))
                    for x in offsets(T, True):
                        L.append(tl_ping(role, I, T, t0, x, ["peerPong", True], True, size=size))
                    L.append(tl_ping(role, I, T, t0, 250, ["peerPong", False], False, size=size))
                    L.append(tl_ping(role, I, T, t0, 250, ["peerData"], True, size=size))
                    L.append(tl_periodic(role, I, T, t0, 125, 3, True, False, size=size))
                    L.append(tl_periodic(role, I, T, t0, 500, 3, False, True, size=size))
            for I, T in ODD:
                for size in (12, 125):
                    L.append(tl_ping(role, I, T, t0, 0, None, True, size=size))
                    for x in offsets(T, True):
                        L.append(tl_ping(role, I, T, t0, x, ["peerPong", True], False, size=size))
                    for r in (0, 125, 375):
                        if r < T:
                            L.append(tl_periodic(role, I, T, t0, r, 3, True, False, size=size))
    L = fam.setdefault("dead", [])
    for role in roles:
        for how in ("peerclose", "sendclose-reply", "violation", "closetimeout"):
            for I, T in ((0, 0), (1000, 2000), (1000, 0), (2000, 5000)):
                L.append(tl_dead(role, how, I, T))
    return fam


def run(ck):
    ck.rule.append("timelines on a 125 ms grid: for each timer (opening handshake, closing handshake, server TCP drop, auto-ping "
                   "timeout) x setting {0,1,2,5} s x role x start phase {0, 375(, 1875)} ms: the peer's reaction (handshake / bad "
                   "handshake / close reply / TCP drop / matching pong / non-matching pong / unfragmented data frame / first, middle, "
                   "last fragment / head or tail of a frame read in two pieces / ping) placed at every grid point "
                   "from the arming time to 1 s after the deadline, or absent; periodic pings answered after {0,125,500,875} ms for "
                   "4 rounds; autoPingSize in {12,13,64,124,125} and sub-second / fractional autoPingInterval, autoPingTimeout "
                   "(timeout <, =, > interval) on silent / answering / periodic timelines; an exception escaping from a timer callback or "
                   "any other entry point is a violation by itself; timers left pending across CLOSED. non-trivial = left CONNECTING or timed out; distinct = distinct "
                   "(framework, cfg, timeline)")
    ck.extra_tb += c05.TRUSTED
    ck.extra_tb.append("oracle assumptions: 'within the timeout' = a qualifying reaction at a time <= deadline; reactions in the last "
                       "second before the deadline are judged by the model comparison only (the property grants the timer one second "
                       "of granularity)")
    c05.regenerate_consts(ck)
    t_build = time.time()
    broken = ck.coq_props()
    ck.log(f"Coq: constants regenerated, Props closure built and checked in {time.time() - t_build:.1f}s "
           "(a long time here = the 5-file proof chain was rebuilt after a model change, or the build lock was held by another check)")
    ok, out = vlib.coq_make(["Model/WsConnRun.vo"])
    if not ok:
        raise RuntimeError("WsConnRun build failed: " + out[-1500:])
    quick = ck.quick()
    fam = families(quick)
    corpus = c05.load_corpus("C17")
    allc = list(corpus)
    for k, L in fam.items():
        ck.bump("family:" + k, len(L))
        allc += L
    ck.log("generated timelines: " + ", ".join(f"{k}={len(v)}" for k, v in fam.items()) + f", corpus={len(corpus)}")
    rng = ck.rng("sample")
    budget = 1400 if quick else 6000            # per framework, for the Coq side
    if len(allc) > budget:
        per = budget // len(fam)
        sample = list(corpus)
        for k, L in fam.items():
            sample += rng.sample(L, min(len(L), per))
    else:
        sample = allc
    c05.correspondence(ck, "model", {"tx": sample, "aio": sample}, coq_limit=len(sample), oracle_fn=oracle17, do_shrink=False)
    rest = [c for c in allc if c not in sample] if len(sample) < len(allc) else []
    if rest:
        c05.correspondence(ck, "oracle", {"tx": rest, "aio": rest}, coq_limit=0, oracle_fn=oracle17, do_shrink=False)
    ck.exhaustive = False
    for c in (fam["ping"][:2] + fam["close"][:2]):
        ck.sample(c)
    if broken:
        ck.log(f"proof obligations broken: {broken}")


def replay(path):
    r = json.load(open(path))["replay"]
    ck = vlib.Check("C17", "quick", 1)
    fw, case = r["fw"], r["case"]
    res = c05.run_impl_cases(ck, fw, [case])[0]
    print("case:", json.dumps(case))
    if "error" in res:
        print("driver error:", res["error"]); return 1
    for ev, s in zip([["connectionMade"]] + case["events"], res["steps"]):
        print(f"  impl  {ev}{'' if s['applied'] else ' (not applicable)'} -> {s['state']} t={s['now']} timers={s['timers']} "
              f"flags={[k for k, v in s['flags'].items() if v is True]} ncr={s['flags']['ncr']} out={[o for o in s['out']]}")
    bad = oracle17(case, res, fw)
    for k, m in bad:
        print("  ORACLE:", k, "::", m)
    try:
        vals = ck.coq_eval(c05.IMPORTS, [f"conn_case_first_bad {c05.coq_case(fw, case, res)}"])
        print("  model: first step where model and implementation differ:", vals)
    except c05.Unmodelled as e:
        print("  model: observation outside the model's alphabet:", e)
    return 1 if bad else 0
