"""C14 -- components reconnect within their retry budget and finish exactly once.

Three things run here:
  1. the proof obligations of coq/Props/C14.v (after regenerating coq/Gen/ComponentConsts.v from the tree under test);
  2. correspondence: scripted outcome sequences are played against the REAL Component on both frameworks
     (harness/impl/wamp_component.py) and against the Gallina model (Model/ComponentRun.v, vm_compute); every
     observable (attempt order and waits, start() future, stop() results, connectfailure classes, escaped
     exceptions, listener calls per session, final _Transport counters) must agree;
  3. an oracle written from the PROPERTY text (not from the model) judges every implementation log.
"""
import itertools, json, os, subprocess, sys
from fractions import Fraction
import vlib

REASONS = ["wamp.close.normal", "wamp.close.goodbye_and_out", "wamp.close.transport_lost", "wamp.close.system_shutdown",
           "wamp.error.no_such_realm", "wamp.error.no_auth_method", "wamp.error.not_authorized",
           "wamp.error.authentication_failed"]
RCODE = {r: i for i, r in enumerate(REASONS)}
NORMAL = ("wamp.close.normal", "wamp.close.goodbye_and_out")
STOPS = ["none", "connecting", "connected", "hello", "joined"]
COQ_STOP = {"none": "NoStop", "connecting": "StopConnecting", "connected": "StopConnected", "hello": "StopHello",
            "joined": "StopJoined"}
DEFAULT_T = {"max_retries": -1, "max_retry_delay": [300, 1], "initial_retry_delay": [3, 2], "retry_delay_growth": [3, 2],
             "retry_delay_jitter": [1, 10]}


# ------------------------------------------------------------------------------------------------ scripts
def driver_script(items):
    """outcome items -> the network-level script the driver plays (mirrors Model/Component.v `play`)"""
    ops = [["start"]]
    for it in items:
        if it[0] == "stop":
            ops.append(["stop"]); continue
        _, oc, arg, st = it
        ops.append(["wait"])
        if st == "connecting": ops.append(["stop"])
        if oc == "refused":
            ops.append(["refuse", arg]); continue
        ops.append(["connect"])
        if st == "connected": ops.append(["stop"])
        if oc == "hsfail":
            ops.append(["hs_bad"]); continue
        ops.append(["hs_ok"])
        if st == "hello": ops.append(["stop"])
        if oc == "abort":
            ops.append(["abort", arg]); continue
        ops.append(["welcome"])
        if st == "joined": ops.append(["stop"])
        if oc == "lost": ops.append(["drop", False])
        elif oc == "leave": ops.append(["goodbye", arg])
        elif oc == "main_returns": ops += [["main_ok"], ["goodbye", "wamp.close.goodbye_and_out"]]
        elif oc == "main_raises": ops.append(["main_err"])
        elif oc == "lost_main_raises": ops += [["drop", False], ["main_err"]]
        else: raise ValueError(oc)
    ops.append(["wait"])
    return ops


COQ_IMPORTS = "From AV Require Import Model.Component Model.ComponentRun.\nFrom Coq Require Import QArith ZArith."
# terms are written with plain applications (no record / list / Q notations): the parser is the bottleneck
COQ_DEFS = """Definition Qz (n d : Z) : Q := Qmake n (Z.to_pos d).
Definition T (mr n1 d1 n2 d2 n3 d3 n4 d4 : Z) := Build_tcfg mr (Qz n1 d1) (Qz n2 d2) (Qz n3 d3) (Qz n4 d4).
Definition A (i n d : Z) : nat * Q := (Z.to_nat i, Qz n d).
Definition D (i : Z) (e : option err) : nat * option err := (Z.to_nat i, e).
Definition Cn (a b c : Z) (f : bool) : N * N * N * bool := (Z.to_N a, Z.to_N b, Z.to_N c, f).
Definition Ap (r : Z) := EApp (Z.to_N r).
Definition Ab (r : Z) := Aborted (Z.to_N r).
Definition Jl (r : Z) := JoinedLeave (Z.to_N r).
Definition Sl (r : Z) := SLeave (Z.to_N r).
Open Scope Z_scope."""


def lst(xs):
    xs = list(xs)
    return "nil" if not xs else "(" + "".join(f"cons {x} (" for x in xs[:-1]) + f"cons {xs[-1]} nil" + ")" * (len(xs) - 1) + ")"


def q(x):
    f = Fraction(x[0], x[1]) if isinstance(x, (list, tuple)) else Fraction(x)
    return f"(Qz {f.numerator} {f.denominator})" if f >= 0 else f"(Qz ({f.numerator}) {f.denominator})"


def qargs(x):
    f = Fraction(x[0], x[1]) if isinstance(x, (list, tuple)) else Fraction(x)
    return f"{f.numerator} {f.denominator}" if f >= 0 else f"({f.numerator}) {f.denominator}"


ERR_COQ = {"refused": "ERefused", "lost": "ELost", "main": "EMain", "exhausted": "EExhausted", "AttributeError": "EAttr",
           "already_called": "EAlreadyCalled", "AssertionError": "EAssert", "other": "(EOther 1%N)"}


def err(e):
    if e.startswith("app:"):
        return f"(Ap {RCODE.get(e[4:], 99)})"
    return ERR_COQ.get(e, "(EOther 99%N)")


def opt_err(e):
    return "None" if e is None else f"(Some {err(e)})"


def coq_item(it):
    if it[0] == "stop": return "StopNow"
    _, oc, arg, st = it
    o = {"refused": lambda: f"(Refused {err(arg)})", "hsfail": lambda: "HandshakeFail",
         "abort": lambda: f"(Ab {RCODE[arg]})", "lost": lambda: "JoinedLost",
         "leave": lambda: f"(Jl {RCODE[arg]})", "main_returns": lambda: "MainReturns",
         "main_raises": lambda: "MainRaises", "lost_main_raises": lambda: "JoinedLostMainRaises"}[oc]()
    return f"(Play {o} {COQ_STOP[st]})"


def tget(t, k):
    return t.get(k, DEFAULT_T[k])


def coq_tcfg(t):
    mr = tget(t, "max_retries")
    return "(T %s %s %s %s %s)" % (mr if mr >= 0 else f"({mr})", qargs(tget(t, "max_retry_delay")),
                                  qargs(tget(t, "initial_retry_delay")), qargs(tget(t, "retry_delay_growth")),
                                  qargs(tget(t, "retry_delay_jitter")))


def coq_config(c):
    fatal = "None" if c["fatal"] is None else "(Some " + lst(err(e) for e in c["fatal"]) + ")"
    return "(Build_config %s %s %s %s)" % ("Tx" if c["fw"] == "tx" else "Aio", "true" if c["main"] else "false", fatal,
                                          "true" if c.get("listeners", True) else "false")


def coq_oracle(s):
    return f"({'Zs' if s[0] == 'z' else 'Raw'} {q(s[1])})"


# ------------------------------------------------------------------------------------------------ log -> observed
def observed(log):
    """canonical observable behaviour of one implementation run (same shape as ComponentRun.observed)"""
    o = dict(attempts=[], dones=[], stops=[], fails=[], escaped=[], sessions=[], counters=[])
    prev = Fraction(0)
    sess = {}
    for e in log:
        k = e[0]
        if k == "attempt":
            t = Fraction(e[2][0], e[2][1])
            o["attempts"].append([e[1], t - prev]); prev = t
        elif k == "done": o["dones"].append([len(o["attempts"]), None if e[1] == "ok" else e[2]])
        elif k == "stop": o["stops"].append(None if e[1] == "ok" else e[2])
        elif k == "listener":
            if e[1] == "connectfailure": o["fails"].append(e[3])
            else: sess.setdefault(e[2], []).append([e[1], e[3]])
        elif k == "session": sess.setdefault(e[1], [])
        elif k == "escaped": o["escaped"].append(e[1])
        elif k == "counters": o["counters"] = e[1]
    o["sessions"] = [sess[n] for n in sorted(sess) if n > 0]
    o["stray_listener"] = sess.get(0, [])
    return o


def coq_sev(ev):
    n, x = ev
    if n == "connect": return "SConnect"
    if n == "join": return "SJoin"
    if n == "ready": return "SReady"
    if n == "leave": return f"(Sl {RCODE.get(x, 99)})"
    if n == "disconnect": return f"(SDisconnect {'true' if x else 'false'})"
    raise ValueError(ev)


def coq_observed(o):
    return "(Build_observed %s %s %s %s %s %s %s)" % (
        lst(f"(A {i} {qargs(w)})" for i, w in o["attempts"]),
        lst(f"(D {n} {opt_err(v)})" for n, v in o["dones"]),
        lst(opt_err(v) for v in o["stops"]),
        lst(err(e) for e in o["fails"]),
        lst(err(e) for e in o["escaped"]),
        lst(lst(coq_sev(ev) for ev in s) for s in o["sessions"]),
        lst(f"(Cn {a} {b} {c} {'true' if d else 'false'})" for a, b, c, d in o["counters"]))


def coq_model_term(c):
    return "comp_model %s %s %s %s" % (coq_config(c), lst(coq_tcfg(t) for t in c["transports"]),
                                      lst(coq_item(it) for it in c["items"]), lst(coq_oracle(s) for s in c["samples"]))


def coq_case(c, o):
    return "(%s, %s, %s, %s, %s)" % (coq_config(c), lst(coq_tcfg(t) for t in c["transports"]),
                                     lst(coq_item(it) for it in c["items"]), lst(coq_oracle(s) for s in c["samples"]),
                                     coq_observed(o))


def exact(log):
    """floats stayed exact: every normalvariate argument is a dyadic with a small denominator"""
    for e in log:
        if e[0] == "sample":
            for n, d in (e[1], e[2]):
                if d > (1 << 30) or abs(n) > (1 << 44): return False
        if e[0] == "attempt" and (e[2][1] > (1 << 30) or e[2][0] > (1 << 44)): return False
    return True


# ------------------------------------------------------------------------------------------------ property oracle
def fr(x):
    return Fraction(x[0], x[1]) if isinstance(x, (list, tuple)) else Fraction(x)


def oracle(c, log):
    """Judge one implementation log against the PROPERTY text.  Independent of the Gallina model: a small
    bookkeeping of 'attempts since last join', 'fatal', 'next transport in cyclic order' and of what the start()
    future has to do.  Returns at most one finding per case: (key, text) -- the first deviation.  Keys name the
    root cause, so that one defect gives one key."""
    ts = c["transports"]
    n = len(ts)
    maxr = [tget(t, "max_retries") for t in ts]
    maxd = [fr(tget(t, "max_retry_delay")) for t in ts]
    since = [0] * n            # attempts since that transport's last successful join
    ever = [False] * n
    fatal = [False] * n
    last = None                # transport of the latest attempt
    prev_t = Fraction(0)
    done = []                  # values of the start() future
    stop_pending = False       # stop() was called while the future was pending
    stop_seen = False          # stop() was called at all
    att_of_session = {}
    joined_any = False
    owed_attempt = None        # a connection failed: a new attempt is due if budget is left
    cbs, lst_ = {}, {}
    fatal_list = c["fatal"] or []
    main_raised = False
    K_NOMAIN = "budget/join-without-main-not-reset"
    T_NOMAIN = ("without main=, a successful join did not give the transport its retry budget back (the counters "
                "are reset in on_join, which must be registered with and without main): ")

    def has_left(i):
        return (not fatal[i]) and (maxr[i] == -1 or since[i] < maxr[i] + 1)

    def next_rr():
        start = 0 if last is None else (last + 1) % n
        for j in range(n):
            i = (start + j) % n
            if has_left(i): return i
        return None

    for e in log:
        k = e[0]
        if k == "escaped":
            if e[1] == "AssertionError":
                return ("progress/negative-delay/tx-reactor-AssertionError",
                        "a negative jittered delay reaches reactor.callLater: AssertionError, the reconnect loop is dead "
                        "and the start() future never completes")
            if e[1] == "already_called":
                return ("escaped/already_called/main_error-after-connection-failed",
                        "main() failed after the per-connection future was already rejected: main_error rejects it again "
                        "(AlreadyCalledError / InvalidStateError escapes)")
            if e[1] == "AttributeError" and done and not stop_seen:
                return ("done_once/second-completion/AttributeError",
                        "the start() future was completed and then completed again (self._done_f is None by then) "
                        "although stop() was never called")
            if e[1] == "AttributeError" and done:
                return ("stop/loop-continues-after-done",
                        "stop() completed the start() future while a connection was in flight; the reconnect loop kept "
                        "running and then used self._done_f = None (AttributeError escapes)")
            return (f"escaped/{e[1]}", f"exception {e[1]} escaped into the reactor/loop: {e[2]}")
        if k == "stop_call":
            stop_seen = True
            if not done: stop_pending = True
        if k == "stop" and e[1] == "raised":
            return (f"stop/raises-{e[2]}-when-not-running",
                    "stop() raises although the component is simply not running (after completion / before start())")
        if k == "attempt":
            i = e[1]; t = fr(e[2]); w = t - prev_t; prev_t = t
            if done and not stop_seen:
                return ("done_once/attempt-after-done", "a connection attempt is made after the start() future has fired")
            if done:
                return ("stop/loop-continues-after-done",
                        "a connection attempt is made after the start() future has fired (stop() while a connection "
                        "was in flight does not end the reconnect loop)")
            if stop_pending:
                return ("stop/reconnects-after-stop", "stop() was called (session asked to leave) but the component "
                        "made a new connection attempt instead of finishing")
            exp = next_rr()
            if exp is None:
                return ("budget/attempt-with-no-budget-left", f"attempt on transport {i} although every transport is exhausted or fatal")
            if fatal[i]: return ("fatal/attempt-after-fatal", f"attempt on transport {i} after a fatal error on it")
            if maxr[i] != -1 and since[i] + 1 > maxr[i] + 1:
                return ("budget/exceeded", f"transport {i}: attempt {since[i] + 1} since last join, max_retries={maxr[i]}")
            if i != exp:
                if not c["main"] and joined_any:
                    return (K_NOMAIN, T_NOMAIN + f"attempt went to transport {i}, cyclic order with budget left says {exp}")
                return ("round_robin/order", f"attempt went to transport {i}, cyclic order with budget left says {exp}")
            if not ever[i] and w != 0:
                return ("first_immediate/delayed", f"first attempt on transport {i} waited {w}")
            if w > maxd[i]: return ("delay_capped/exceeded", f"waited {w} > max_retry_delay {maxd[i]}")
            since[i] += 1; ever[i] = True; last = i; owed_attempt = None
        if k == "session": att_of_session[e[1]] = last
        if k == "cb":
            cbs.setdefault(e[2], []).append(e[1])
            if e[1] == "join":
                tr_ = att_of_session.get(e[2])
                if tr_ is not None: since[tr_] = 0; joined_any = True
        if k == "listener" and e[1] != "connectfailure": lst_.setdefault(e[2], []).append(e[1])
        if k == "listener" and e[1] == "connectfailure":
            if e[3] in fatal_list and last is not None: fatal[last] = True
            if e[3] == "main": main_raised = True
            owed_attempt = e[3]
        if k == "done":
            done.append((e[1], e[2]))
            if len(done) > 1: return ("done_once/fired-twice", "the start() future fired twice")
            if e[1] == "err":
                if stop_pending:
                    return ("stop/reconnects-after-stop", f"stop() was called but the start() future failed with {e[2]}")
                if e[2] == "exhausted" and next_rr() is not None:
                    if not c["main"] and joined_any:
                        return (K_NOMAIN, T_NOMAIN + "start() fails with 'exhausted' although the transport joined "
                                "successfully since its last failure")
                    return ("progress/gives-up-with-budget-left", "start() future failed with 'exhausted' although a transport "
                            "has attempts left")
                if e[2] not in ("exhausted", "main"):
                    return (f"done_once/unexpected-error/{e[2]}", "start() future failed with an error the property does not name")
            owed_attempt = None
    # end of the script (it ends with a wait): what is still owed
    if main_raised and not any(d[0] == "err" for d in done):
        return ("done/main-raises/no-error", "main() raised but the start() future did not fail: the component treats it "
                "like a lost connection and reconnects (at once, the join having reset the counters)")
    if stop_pending and not done:
        return ("stop/future-never-completes", "stop() was called but the start() future never completed")
    if owed_attempt is not None and not done:
        if next_rr() is not None:
            return ("progress/no-new-attempt", f"connection failed ({owed_attempt}) and budget is left, but no new attempt followed")
        return ("done_once/exhausted-without-error", "every transport exhausted but the start() future did not fail")
    for s_ in set(cbs) | set(lst_):
        want = [x for x in cbs.get(s_, [])]
        got = [x for x in lst_.get(s_, []) if x != "ready"]
        if c.get("listeners", True) and sorted(want) != sorted(got):
            return ("listeners/not-bubbled", f"session {s_}: callbacks {want} but component listeners saw {got}")
        if c.get("listeners", True) and ("join" in want) != ("ready" in lst_.get(s_, [])):
            return ("listeners/ready-missing", f"session {s_}: joined but 'ready' listener calls = {lst_.get(s_, [])}")
    return None


# ------------------------------------------------------------------------------------------------ generators
T_BASE = {"kind": "ws", "max_retries": 1, "max_retry_delay": [4, 1], "initial_retry_delay": [3, 2],
          "retry_delay_growth": [3, 2], "retry_delay_jitter": [1, 8]}


def alphabet(main, rich=False):
    a = [("refused", "refused"), ("hsfail", None), ("abort", "wamp.error.no_such_realm"), ("lost", None),
         ("leave", "wamp.close.normal"), ("leave", "wamp.close.system_shutdown")]
    if rich:
        a += [("refused", "other"), ("abort", "wamp.error.not_authorized"), ("leave", "wamp.close.goodbye_and_out")]
    if main:
        a += [("main_returns", None), ("main_raises", None), ("lost_main_raises", None)]
    return a


def terminal(oc, arg):
    return oc == "main_returns" or (oc == "leave" and arg in NORMAL)


def seqs(alpha, maxlen):
    """all outcome sequences up to maxlen; nothing is appended after an outcome that ends the component normally"""
    out = []

    def rec(prefix):
        if prefix: out.append(list(prefix))
        if len(prefix) == maxlen or (prefix and terminal(*prefix[-1])): return
        for a in alpha:
            prefix.append(a); rec(prefix); prefix.pop()
    rec([])
    return out


def mk_case(fw, transports, main, fatal, seq, samples, stops=None, stop_between=()):
    items = []
    for j, (oc, arg) in enumerate(seq):
        if j in stop_between: items.append(["stop"])
        items.append(["play", oc, arg, (stops or {}).get(j, "none")])
    if len(seq) in stop_between: items.append(["stop"])
    return {"fw": fw, "transports": transports, "main": main, "fatal": fatal, "listeners": True, "items": items,
            "samples": samples}


def gen_cases(ck):
    rng = ck.rng("gen")
    quick = ck.quick()
    cases = []
    ZS = [["z", [0, 1]], ["z", [1, 1]], ["z", [-1, 1]], ["z", [2, 1]], ["raw", [7, 2]], ["raw", [0, 1]], ["z", [1000, 1]]]

    def samples(k):
        return [rng.choice(ZS) for _ in range(k)]

    def tvar(**kw):
        return dict(T_BASE, **kw)

    # (a) exhaustive short sequences, one and two transports, with and without main
    for main in (False, True):
        alpha = alphabet(main)
        plan = ((1, 3 if not main else 2), (2, 2)) if quick else ((1, 4 if not main else 3), (2, 3))
        for ntr, L in plan:
            for seq in seqs(alpha, L):
                trs = [tvar(max_retries=1), tvar(kind="rs", max_retries=0)][:ntr] if ntr == 2 else [tvar(max_retries=1)]
                cases.append(mk_case(None, trs, main, None, seq, samples(len(seq))))
    # (b) longer sequences over the failure alphabet: budgets, round robin, fatal classifiers, grids
    fails = [("refused", "refused"), ("hsfail", None), ("abort", "wamp.error.no_such_realm"), ("lost", None),
             ("leave", "wamp.close.system_shutdown"), ("refused", "other"), ("abort", "wamp.error.not_authorized")]
    fatals = [None, ["refused"], ["app:wamp.error.no_such_realm"], ["lost", "app:wamp.close.transport_lost"],
              ["refused", "other", "lost", "app:wamp.error.no_such_realm", "app:wamp.error.not_authorized",
               "app:wamp.close.transport_lost", "app:wamp.close.system_shutdown", "main"]]
    grid_n = 250 if quick else 3500
    for _ in range(grid_n):
        ntr = rng.choice([1, 2, 2, 3])
        trs = []
        for i in range(ntr):
            trs.append({"kind": rng.choice(["ws", "rs", "rsu"]), "max_retries": rng.choice([0, 1, 2, 2, -1]),
                        "max_retry_delay": rng.choice([[1, 1], [4, 1], [300, 1], [1, 2]]),
                        "initial_retry_delay": rng.choice([[0, 1], [1, 2], [3, 2], [8, 1]]),
                        "retry_delay_growth": rng.choice([[1, 1], [3, 2], [2, 1]]),
                        "retry_delay_jitter": rng.choice([[0, 1], [1, 8], [1, 1]])})
        main = rng.random() < 0.5
        L = rng.randint(1, 5 if quick else 7) if rng.random() < 0.8 else rng.randint(6, 12)
        pool = fails + ([("main_raises", None), ("lost_main_raises", None)] if main else [])
        seq = [rng.choice(pool) for _ in range(L)]
        if rng.random() < 0.3:
            seq.append(rng.choice([("leave", "wamp.close.normal"), ("leave", "wamp.close.goodbye_and_out")] +
                                  ([("main_returns", None)] if main else [])))
        sm = samples(L + 2)
        if rng.random() < 0.15:
            sm[rng.randrange(len(sm))] = rng.choice([["z", [-16, 1]], ["raw", [-1, 1]], ["raw", [-5, 2]]])
        cases.append(mk_case(None, trs, main, rng.choice(fatals), seq, sm))
    # (c) stop() at every point of short sequences
    base = [("refused", "refused"), ("lost", None), ("abort", "wamp.error.no_such_realm"), ("hsfail", None),
            ("leave", "wamp.close.normal")]
    Ls = 2 if quick else 3
    stop_cases = []
    for main in (False, True):
        al = base + ([("main_returns", None), ("main_raises", None)] if main else [])
        for seq in seqs(al, Ls):
            for j in range(len(seq) + 1):
                for ntr in (1, 2):
                    trs = [tvar(max_retries=2), tvar(kind="rs", max_retries=1)][:ntr]
                    stop_cases.append(mk_case(None, trs, main, None, seq, samples(len(seq)), stop_between=(j,)))
                    if j < len(seq) and ntr == 1:
                        for st in STOPS[1:]:
                            stop_cases.append(mk_case(None, trs, main, None, seq, samples(len(seq)), stops={j: st}))
    cap = 250 if quick else 2500
    if len(stop_cases) > cap:
        stop_cases = rng.sample(stop_cases, cap)
    cases += stop_cases
    # (d) defaults of _Transport (missing keys): the code's own defaults are used
    for seq in ([("refused", "refused")] * 6, [("refused", "refused"), ("lost", None), ("refused", "refused")]):
        cases.append(mk_case(None, [{"kind": "ws"}], True, None, seq, [["z", [0, 1]]] * 8))
    return cases


# ------------------------------------------------------------------------------------------------ running
def run_batch(ck, fw, cases, announce=False):
    payload = {"fw": fw, "announce": announce,
               "cases": [dict(transports=c["transports"], main=c["main"], fatal=c["fatal"], listeners=c.get("listeners", True),
                              samples=c["samples"], script=driver_script(c["items"]), log_samples=True) for c in cases]}
    return ck.run_impl("wamp_component.py", payload, timeout=1500)["results"]


def run_parallel(ck, fw, cases, jobs):
    """split over driver processes (each: one framework, fresh interpreter)"""
    import concurrent.futures as cf
    if not cases: return []
    size = max(1, (len(cases) + jobs - 1) // jobs)
    chunks = [cases[i:i + size] for i in range(0, len(cases), size)]
    with cf.ThreadPoolExecutor(max_workers=jobs) as ex:
        outs = list(ex.map(lambda ch: run_batch(ck, fw, ch), chunks))
    return [r for o in outs for r in o]


def shrink(ck, c, key):
    """greedy: drop items / stops while the oracle still reports the same key on the real code"""
    cur = c
    improved = True
    while improved:
        improved = False
        for j in range(len(cur["items"])):
            cand = dict(cur, items=cur["items"][:j] + cur["items"][j + 1:])
            for variant in (cand, dict(cur, items=[it if i != j or it[0] == "stop" else it[:3] + ["none"]
                                                   for i, it in enumerate(cur["items"])])):
                if variant["items"] == cur["items"] or not variant["items"]: continue
                try:
                    r = run_batch(ck, variant["fw"], [variant])[0]
                except vlib.DriverCrash:
                    continue
                f = oracle(variant, r["log"])
                if f and f[0] == key:
                    cur = variant; improved = True; break
            if improved: break
    if len(cur["transports"]) > 1:
        for ntr in range(1, len(cur["transports"])):
            cand = dict(cur, transports=cur["transports"][:ntr])
            r = run_batch(ck, cand["fw"], [cand])[0]
            f = oracle(cand, r["log"])
            if f and f[0] == key:
                cur = cand; break
    return cur


def gen_consts(ck):
    """coq/Gen/ComponentConsts.v from the tree under test (fail closed)"""
    tr = os.path.join(vlib.ROOT, "translators", "component_consts.py")
    env = vlib.impl_env()
    p = subprocess.run([vlib.VENV_PY, tr], env=env, capture_output=True, text=True, timeout=120)
    if p.returncode != 0:
        ck.obligation("translator/component_consts", False, (p.stdout + p.stderr)[-1500:])
        return False
    vlib.write_if_changed(os.path.join(vlib.COQ, "Gen", "ComponentConsts.v"), p.stdout)
    ck.obligation("translator/component_consts", True, "")
    return True


def run(ck):
    ck.extra_tb += [
        "modelled, not verified: the transport + ApplicationSession stack and the reactor/event loop are the environment "
        "of the model (its events); the map outcome -> callback sequence (Model/Component.v `play`, per framework) is "
        "validated only by the correspondence run",
        "modelled, not verified: delays are exact rationals in the model, IEEE doubles in the code; correspondence cases use "
        "dyadic parameters so both agree exactly (cases whose doubles would round are excluded and counted); "
        "random.normalvariate is an oracle argument (scripted in the driver process)",
        "Twisted side runs on twisted.internet.testing.MemoryReactorClock plus ReactorBase.callLater's `delay >= 0` "
        "assertion (copied from twisted/internet/base.py; the test clock omits it); asyncio side on wsdrv.VLoop with "
        "create_connection recorded; real sockets, DNS, TLS are not exercised",
        "oracle assumptions: the peer always cooperates in closing handshakes; outcomes are played at the instant of "
        "the attempt, so wait = difference of attempt times",
    ]
    ck.rule.append("outcome sequences over {refused, other connect error, handshake fails, ABORT r, joined+lost, GOODBYE r, "
                   "main returns, main raises, lost then main raises} x stop() at every phase / between attempts x 1..3 "
                   "transports (websocket, rawsocket tcp, rawsocket unix) x grids of max_retries/initial/growth/jitter/max "
                   "delay x is_fatal classifiers x scripted normalvariate samples (incl. negative and huge); each played on "
                   "the real Component (Twisted memory reactor and asyncio virtual loop), judged by a property oracle and "
                   "compared with the Gallina model. non-trivial = at least one connection attempt reached the reactor; "
                   "distinct = distinct (framework, config, script, samples)")
    gen_consts(ck)
    broken = ck.coq_props()
    ok, out = vlib.coq_make(["Model/ComponentRun.vo"])
    if not ok:
        raise RuntimeError("ComponentRun build failed: " + out[-1500:])

    cases = []
    cdir = os.path.join(vlib.ROOT, "corpus", "C14")
    corpus = []
    if os.path.isdir(cdir):
        for fn in sorted(os.listdir(cdir)):
            if fn.endswith(".json"):
                corpus.append(dict(json.load(open(os.path.join(cdir, fn)))["case"], _corpus=True))
    gen = gen_cases(ck)
    ck.log(f"generated {len(gen)} scripts (+{len(corpus)} corpus), each run on both frameworks")
    findings = {}
    compared, coq_terms, coq_src = 0, [], []
    import concurrent.futures as cf
    todos = {fw: [c for c in corpus if c["fw"] == fw] + [dict(c, fw=fw) for c in gen] for fw in ("tx", "aio")}
    with cf.ThreadPoolExecutor(max_workers=2) as ex:
        futs = {fw: ex.submit(run_parallel, ck, fw, todos[fw], 8) for fw in ("tx", "aio")}
        results = {fw: f.result() for fw, f in futs.items()}
    for fw in ("tx", "aio"):
        todo, res = todos[fw], results[fw]
        n_inexact = 0
        for c, r in zip(todo, res):
            log = r["log"]
            if log and log[0][0] == "driver_error":
                raise RuntimeError("driver error: " + str(log[0][1:])[:1500])
            ck.evaluations += 1
            o = observed(log)
            if o["attempts"]:
                ck.note_cases(0, [json.dumps([fw, c["transports"], c["main"], c["fatal"], c["items"], c["samples"]], sort_keys=True)])
            for it in c["items"]:
                ck.bump("item:" + (it[0] if it[0] == "stop" else it[1] + ("" if it[3] == "none" else "+stop@" + it[3])))
            ck.bump(f"{fw}:done=" + (",".join("ok" if d[1] is None else str(d[1]) for d in o["dones"]) or "pending"))
            ck.bump(f"{fw}:attempts", len(o["attempts"]))
            f = oracle(c, log)
            if f:
                ck.bump("oracle:" + f[0])
                findings.setdefault(f[0], []).append((c, f[1]))
            if exact(log):
                coq_terms.append(coq_case(c, o)); coq_src.append((c, o))
            else:
                n_inexact += 1
        ck.log(f"{fw}: {len(todo)} runs, {n_inexact} excluded from the model comparison (doubles would round)")
        ck.bump(f"{fw}:inexact_skipped", n_inexact)
    for c, o in [x for x in coq_src if not x[0].get("_corpus")][:4]:
        ck.sample({"fw": c["fw"], "transports": c["transports"], "main": c["main"], "fatal": c["fatal"], "items": c["items"],
                   "samples": c["samples"], "attempts": [[i, str(w)] for i, w in o["attempts"]], "dones": o["dones"]})
    # the Coq parser is the bottleneck (~0.1 s per case): the model is compared on every run in quick, on the corpus
    # plus a seeded sample in thorough; the property oracle above has judged every run
    limit = 6000
    if len(coq_terms) > limit:
        keep = sorted({i for i, (c, o) in enumerate(coq_src) if c.get("_corpus")} |
                      set(ck.rng("model-sample").sample(range(len(coq_terms)), limit)))
        coq_terms = [coq_terms[i] for i in keep]; coq_src = [coq_src[i] for i in keep]
    bad = ck.coq_cases("component", COQ_IMPORTS, "comp_case_ok", coq_terms, ty="comp_case", defs=COQ_DEFS, shard=200)
    ck.bump("model_compared", len(coq_terms))
    ck.log(f"model comparison: {len(coq_terms)} runs, {len(bad)} disagreements; oracle findings: "
           f"{ {k: len(v) for k, v in findings.items()} }")
    # verdicts
    for key, lst in sorted(findings.items()):
        c, text = min(lst, key=lambda x: (len(x[0]["items"]), len(x[0]["transports"])))
        try:
            c = shrink(ck, c, key)
        except Exception as e:      # shrinking is best effort
            ck.log(f"shrink failed for {key}: {e}")
        ck.violation(key, f"{text} [{len(lst)} scripts]", {"case": c, "script": driver_script(c["items"])}, found_input=True)
    for i in bad[:5]:
        c, o = coq_src[i]
        f = oracle(c, [])     # never a property verdict by itself; look for a failing input nearby
        ck.violation("model-disagrees/" + c["fw"] + "/" + "+".join(sorted({it[0] if it[0] == "stop" else it[1] for it in c["items"]}))[:60],
                     "real Component and Gallina model disagree on an outcome script (correspondence broken)",
                     {"case": c, "observed": json.loads(json.dumps(o, default=str))}, found_input=False)
    if broken and not findings:
        ck.log("proof obligations broken, no failing input found by the sweep")


def replay(path):
    d = json.load(open(path))
    r = d.get("replay", d)          # evidence/replay/*.json or corpus/C14/*.json
    c = r["case"]
    ck = vlib.Check("C14", "quick", 1)
    print("case:", json.dumps(c))
    res = run_batch(ck, c["fw"], [c])[0]
    for l in res["log"]:
        print("  impl:", l)
    f = oracle(c, res["log"])
    print("property oracle:", f)
    o = observed(res["log"])
    vals = ck.coq_eval(COQ_IMPORTS + "\n" + COQ_DEFS, ["comp_case_ok " + coq_case(c, o), coq_model_term(c)])
    print("Gallina model agrees with implementation:", vals[0])
    print("model:", vals[1])
    return 1 if f else 0
