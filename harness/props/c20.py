"""C20 — end-to-end encrypted payloads are recovered exactly or rejected."""
import concurrent.futures
import copy
import glob
import json
import os

import vlib

IMPORTS = "From AV Require Import Model.SessionErr Model.SessionErrRun Model.Cryptobox Model.CryptoboxRun."
SCOPES = "Open Scope N_scope. Open Scope string_scope."
NOTE, UNSER, UNKNOWN = 777777, 555555, 888888
ENC_DECRYPT = "wamp.error.encryption.decrypt_error"
ENC_MISMATCH = "wamp.error.encryption.trusted_uri_mismatch"
ENC_NOCODEC = "wamp.error.no_payload_codec"
ENC_URIS = (ENC_DECRYPT, ENC_MISMATCH, ENC_NOCODEC)

VALUES = [None, True, 0, 1, -5, 2 ** 53, "SECRET-alpha", "SECRET-beta with space", ["SECRET-in-list", 1, [2, None]],
          {"k": "SECRET-in-dict", "n": {"m": [1]}}, [], {}, 1.5, "SECRET-\"quoted\"\\", {"$b": "5345435245542d6279746573"},
          "SECRET-ü€", {"$dt": 1577934245},
          # JSON-sensitive values (appended: corpus files refer to values by index)
          "0042", "1E5", "+4915112345", "0", "-0", "1e3", "Infinity", "NaN", " 1", "1_0", "1.0", 1.0, 1e300,
          ["0042", {"n": "1e3", "SECRET": ["-0"]}], {"1": "0", "0042": 1}, 2 ** 63, -(2 ** 63), ""]
DT = 16                              # the JSON-unserializable value (a datetime)
assert VALUES[DT] == {"$dt": 1577934245}
PLAIN_VALUES = [i for i in range(len(VALUES)) if i != DT]
KEYS = ["SECRET_k", "a", "SECRET_detail", "x_y", "1", "0042", "1e3"]
URIS = ["com.myapp.topic1", "com.myapp.secret.topic", "com.other.x", "com.myapp.proc1", "com.myapp.secret.proc", "com.myappx"]
ERR_URIS = ["com.myapp.error1", "com.myapp.secret.err", "com.other.error", "wamp.error.runtime_error"]


# ------------------------------------------------------------------ keyring layouts
def K(opriv=None, opub=None, rpriv=None, rpub=None):
    return {"opriv": opriv, "opub": opub, "rpriv": rpriv, "rpub": rpub}


def ring(default=None, keys=()):
    return {"default": default, "keys": [list(k) for k in keys]}


def layouts():
    o12, r12 = K(opriv=1, rpub=2), K(opub=1, rpriv=2)
    o34, r34 = K(opriv=3, rpub=4), K(opub=3, rpriv=4)
    o56, r56 = K(opriv=5, rpub=6), K(opub=5, rpriv=6)
    sym = K(opriv=7, rpriv=7)                      # KeyRing("<private key>") : one key in both roles
    full = K(opriv=1, rpriv=2)                     # both private keys known to both sides
    return {
        "default-only": (ring(o12), ring(r12)),
        "default-string-key": (ring(sym), ring(sym)),
        "both-roles": (ring(full), ring(full)),
        "per-prefix": (ring(None, [("com.myapp.", o12)]), ring(None, [("com.myapp.", r12)])),
        "nested-prefixes": (ring(o12, [("com.myapp.", o34), ("com.myapp.secret.", o56)]),
                            ring(r12, [("com.myapp.", r34), ("com.myapp.secret.", r56)])),
        "nested-reordered": (ring(o12, [("com.myapp.secret.", o56), ("com.myapp.", o34)]),
                             ring(r12, [("com.myapp.", r34), ("com.myapp.secret.", r56)])),
        "originator-only-codec": (ring(o12), None),
        "responder-only-codec": (None, ring(r12)),
        "no-codec": (None, None),
        "wrong-responder-key": (ring(o12), ring(K(opub=1, rpriv=9))),
        "wrong-originator-pub": (ring(o12), ring(K(opub=8, rpriv=2))),
        "responder-has-originator-material": (ring(o12), ring(K(opriv=1, rpub=2))),
        "prefix-mismatch": (ring(None, [("com.myapp.", o12)]), ring(None, [("com.myapp.secret.", r12)])),
        "inner-prefix-other-key": (ring(o12, [("com.myapp.secret.", o34)]), ring(r12, [("com.myapp.secret.", r56)])),
    }


# independent re-implementation of the key selection (from the documentation: longest URI prefix, else default)
def box_of(r, originating, uri):
    """-> the unordered pair of key owners identifying the shared secret, or None"""
    if r is None:
        return None
    best = None
    for prefix, k in r["keys"]:
        if uri.startswith(prefix) and (best is None or len(prefix) > len(best[0])):
            best = (prefix, k)
    k = best[1] if best else r["default"]
    if k is None:
        return None
    owner_o = k["opriv"] if k["opriv"] is not None else k["opub"]
    owner_r = k["rpriv"] if k["rpriv"] is not None else k["rpub"]
    if originating:
        return None if k["opriv"] is None else (min(k["opriv"], owner_r), max(k["opriv"], owner_r))
    return None if k["rpriv"] is None else (min(k["rpriv"], owner_o), max(k["rpriv"], owner_o))


# ------------------------------------------------------------------ generator
def gen_fault(rng, uri_pool, uri):
    r = rng.random()
    if r < 0.40: return None
    if r < 0.58: return {"t": "flip", "pos": rng.randrange(0, 400), "mask": rng.choice([1, 2, 0x80, 0xff, 0x55])}
    if r < 0.76: return {"t": "swap", "uri": rng.choice([u for u in uri_pool if u != uri])}
    return {"t": rng.choice(["ser", "algo", "trunc", "extend"])}


def payload(rng, allow_dt=False):
    pool = PLAIN_VALUES + ([DT] * 3 if allow_dt else [])
    args = [rng.choice(pool) for _ in range(rng.choice([0, 1, 1, 2, 3]))]
    keys = rng.sample(KEYS, rng.choice([0, 0, 1, 2]))
    return args, [[k, rng.choice(pool)] for k in keys]


def gen_scenario(rng, i, lay):
    name = rng.choice(sorted(lay))
    A, B = lay[name]
    kind = ["pubsub", "call", "error"][i % 3]
    uri = rng.choice(URIS)
    ser = ["json", "msgpack", "cbor"][(i // 3) % 3]
    dt = ser == "cbor" and rng.random() < 0.15
    args, kwargs = payload(rng, allow_dt=dt and rng.random() < 0.3)
    sc = {"layout": name, "kind": kind, "ser": ser, "A": A, "B": B, "uri": uri, "args": args, "kwargs": kwargs,
          "fault1": None, "fault2": None, "detail_uri": rng.random() < 0.5}
    which = rng.random()
    if kind == "pubsub":
        sc["fault1"] = gen_fault(rng, URIS, uri)
        sc["handlers"] = [rng.random() < 0.5 for _ in range(rng.choice([1, 2, 2, 3]))]     # details_arg yes/no per handler
    else:
        if which < 0.45:
            sc["fault1"] = gen_fault(rng, URIS, uri)
        sc["reg_mode"] = rng.choice(["plain", "plain", "prefix", "decorated", "decorated_prefix", "pattern"])
        if sc["reg_mode"] == "pattern":
            sc["detail_uri"] = True
        if kind == "call":
            ra, rk = payload(rng, allow_dt=dt)
            if rng.random() < 0.4:
                ra, rk = [rng.choice(PLAIN_VALUES[1:] + ([DT] if dt else []))], None     # not None: same as "no result"
            if ra == [0] and not rk:
                ra = [3]                       # a lone None result is indistinguishable from "no result" for the caller
            sc["result"] = {"args": ra, "kwargs": rk, "progress": rng.random() < 0.3}
            if sc["fault1"] is None and which >= 0.45:
                sc["fault2"] = gen_fault(rng, URIS, uri)
        else:
            ea, ek = payload(rng)
            e = rng.choice(ERR_URIS)
            sc["exc"] = {"error": e, "args": ea, "kwargs": ek}
            if sc["fault1"] is None and which >= 0.45:
                sc["fault2"] = gen_fault(rng, ERR_URIS, e)
            if rng.random() < 0.7:
                # the caller has exception classes registered for the error URI and for the URI a swap would use
                f2 = sc["fault2"]
                uris = [e] + ([f2["uri"]] if f2 and f2["t"] == "swap" else [])
                sc["caller_reg"] = [[u, rng.choice(["kw", "kw", "plain", "noarg"])] for u in uris if rng.random() < 0.85]
    return sc


def exhaustive_scenarios(ck, lay):
    """every single-octet alteration of one ciphertext per direction (quick: 1 mask, 1 layout; thorough: 3 masks, all
    layouts in which the message is encrypted and the receiver can decrypt)"""
    masks = [0x01] if ck.quick() else [0x01, 0x80, 0xff]
    names = ["default-only"] if ck.quick() else ["default-only", "default-string-key", "both-roles", "nested-prefixes"]
    out = []
    for name in names:
        A, B = lay[name]
        for ser in (["json"] if ck.quick() else ["json", "cbor"]):
            base = {"layout": name, "ser": ser, "A": A, "B": B, "args": [6, 3], "kwargs": [["SECRET_k", 8]],
                    "detail_uri": False, "fault1": None, "fault2": None}
            fa = {"t": "flip_all", "masks": masks}
            out.append(dict(base, kind="pubsub", uri="com.myapp.secret.topic", fault1=fa, handlers=[False, True, False]))
            for t in ("ser", "algo", "trunc", "extend"):
                out.append(dict(base, kind="pubsub", uri="com.myapp.secret.topic", fault1={"t": t}, handlers=[True, False]))
            for du in (False, True):
                out.append(dict(base, kind="pubsub", uri="com.myapp.secret.topic", detail_uri=du,
                                fault1={"t": "swap", "uri": "com.myapp.topic1"}, handlers=[False, False, True]))
            out.append(dict(base, kind="call", uri="com.myapp.proc1", fault1=fa, result={"args": [7], "kwargs": None, "progress": False}))
            for mode in ("prefix", "decorated", "decorated_prefix", "pattern"):
                out.append(dict(base, kind="call", uri="com.myapp.secret.proc", reg_mode=mode, detail_uri=(mode == "pattern"),
                                result={"args": [7], "kwargs": None, "progress": False}))
                out.append(dict(base, kind="call", uri="com.myapp.secret.proc", reg_mode=mode, detail_uri=(mode == "pattern"),
                                fault1={"t": "swap", "uri": "com.myapp.proc1"}, result={"args": [7], "kwargs": None, "progress": False}))
            out.append(dict(base, kind="call", uri="com.myapp.proc1", fault2=fa, result={"args": [7, 9], "kwargs": [["a", 6]], "progress": False}))
            out.append(dict(base, kind="call", uri="com.myapp.proc1", fault2=fa, result={"args": [7], "kwargs": None, "progress": True}))
            out.append(dict(base, kind="error", uri="com.myapp.proc1", fault2=fa,
                            exc={"error": "com.myapp.error1", "args": [6], "kwargs": [["SECRET_detail", 7]]}))
            out.append(dict(base, kind="error", uri="com.myapp.proc1", fault2=fa, caller_reg=[["com.myapp.error1", "kw"]],
                            exc={"error": "com.myapp.error1", "args": [6], "kwargs": [["SECRET_detail", 7]]}))
            for t in ("ser", "algo", "trunc", "extend"):
                for ctor in ("kw", "noarg"):
                    out.append(dict(base, kind="error", uri="com.myapp.proc1", fault2={"t": t}, caller_reg=[["com.myapp.error1", ctor]],
                                    exc={"error": "com.myapp.error1", "args": [6], "kwargs": []}))
            for ctor in ("kw", "plain", "noarg"):
                out.append(dict(base, kind="error", uri="com.myapp.proc1", fault2={"t": "swap", "uri": "com.other.error"},
                                caller_reg=[["com.other.error", ctor], ["com.myapp.error1", "kw"]],
                                exc={"error": "com.myapp.error1", "args": [6], "kwargs": []}))
    return out


# ------------------------------------------------------------------ keyrings mutated while in use (histories)
H_TOPICS = ["com.myapp.topic1", "com.myapp.secret.topic"]
H_PROCS = ["com.myapp.proc1", "com.other.x"]
H_PREFIXES = ["", "com.myapp.", "com.myapp.secret.", "com.other.", "com.myapp.proc1"]
H_PAIRS = [(1, 2), (3, 4), (5, 6)]
EMPTY_RING = {"default": None, "keys": []}


def gen_history(rng, i):
    """the SAME two sessions / KeyRing objects through 6-14 steps: set_key (add, replace, remove, default, shadowing
    prefix; on both sides or on one) interleaved with publish / call (result or error) on a small URI set, and with
    re-deliveries of earlier ciphertexts"""
    if rng.random() < 0.6:
        A, B = dict(EMPTY_RING), dict(EMPTY_RING)
    else:
        A, B = ring(K(opriv=1, rpub=2)), ring(K(opub=1, rpriv=2))
    ops = []
    def msg_op():
        r = rng.random()
        args = [rng.choice(PLAIN_VALUES) for _ in range(rng.choice([0, 1, 2]))]
        kwargs = [[k, rng.choice(PLAIN_VALUES)] for k in rng.sample(KEYS, rng.choice([0, 0, 1]))]
        if r < 0.40:
            return ["pub", rng.randrange(len(H_TOPICS)), args, kwargs]
        if r < 0.75:
            if rng.random() < 0.65:
                ra = [rng.choice(PLAIN_VALUES[1:])]
                how = {"result": {"args": ra, "kwargs": None}}
            else:
                how = {"exc": {"error": rng.choice(["com.myapp.error1", "com.other.error"]),
                               "args": [rng.choice(PLAIN_VALUES)], "kwargs": []}}
            return ["call", rng.randrange(len(H_PROCS)), args, kwargs, how]
        return [rng.choice(["redeliver_pub", "redeliver_call"]), rng.randrange(8)]
    ops.append(msg_op()); ops.append(msg_op())                 # the URIs are used BEFORE the first set_key
    for _ in range(rng.randrange(4, 12)):
        if rng.random() < 0.35:
            prefix = rng.choice(H_PREFIXES)
            if rng.random() < 0.25:
                ko = kr = None                                                    # remove
            else:
                a, b = rng.choice(H_PAIRS)
                ko, kr = K(opriv=a, rpub=b), K(opub=a, rpriv=b)
            side = rng.random()
            if side < 0.7:
                ops.append(["set", "A", prefix, ko]); ops.append(["set", "B", prefix, kr])
            elif side < 0.85:
                ops.append(["set", "A", prefix, ko])
            else:
                ops.append(["set", "B", prefix, kr])
        else:
            ops.append(msg_op())
    ops.append(msg_op()); ops.append(["pub", 0, [6], []]); ops.append(["call", 0, [7], [], {"result": {"args": [6], "kwargs": None}}])
    return {"layout": "history", "kind": "history", "ser": ["json", "msgpack", "cbor"][i % 3], "A": A, "B": B,
            "topics": H_TOPICS, "procs": H_PROCS, "ops": ops, "fault1": None, "fault2": None}


def sets_before(sc, side, n):
    """the set_key calls on one side among the first n set ops of the history"""
    out, seen = [], 0
    for op in sc["ops"]:
        if op[0] != "set":
            continue
        if seen >= n:
            break
        seen += 1
        if op[1] == side:
            out.append((op[2], op[3]))
    return out


def ring_now(base, sets):
    """independent replay of set_key: a dict prefix -> key, "" = default"""
    d = {p: k for p, k in base["keys"]}
    default = base["default"]
    for p, k in sets:
        if p == "":
            default = k
        elif k is None:
            d.pop(p, None)
        else:
            d[p] = k
    return {"default": default, "keys": [[p, k] for p, k in d.items()]}


def history_leg_sides(sc, leg):
    """(sender side, sender sets, receiver side, receiver sets, sender originating?, lookup uri)"""
    if leg["leg"] in ("publish_event", "call_invocation"):
        return "A", sets_before(sc, "A", leg["sets_at_seal"]), "B", sets_before(sc, "B", leg["sets_at_recv"]), True, leg["uri"]
    uri = leg["error_uri"] if leg["leg"] == "error" else leg["uri"]
    return "B", sets_before(sc, "B", leg["sets_at_recv"]), "A", sets_before(sc, "A", leg["sets_at_recv"]), False, uri


def history_terms(sc, legs):
    out = []
    for li, leg in enumerate(legs):
        o = cout(leg["outcomes"][0][0])
        if o is None:
            continue
        ss, ssets, rs, rsets, orig, uri = history_leg_sides(sc, leg)
        S, R = cring(sc[ss] or EMPTY_RING, ssets), cring(sc[rs] or EMPTY_RING, rsets)
        enc = "true" if leg["encrypted"] else "false"
        args, kwargs = leg["sent"]
        if leg["leg"] == "publish_event":
            l = "(LPublishEvent %s %s %s %s %s NoFault false [%s])" % (S, R, cstr(uri), clist(cval(a) for a in args), ckw(kwargs), cN(1))
        elif leg["leg"] == "call_invocation":
            l = "(LCallInvocation %s %s %s %s %s NoFault %s)" % (S, R, cstr(uri), clist(cval(a) for a in args), ckw(kwargs),
                                                                creg_mode("plain", uri, False))
        elif leg["leg"] == "yield_result":
            l = "(LYieldResult %s %s %s %s false %s %s NoFault)" % (
                S, R, cstr(uri), "true" if leg["call_encrypted"] else "false", clist(cval(a) for a in args), copt(kwargs, ckw))
        else:
            l = "(LError %s %s %s (Some %s) (Some %s) NoFault [] [])" % (S, R, cstr(uri), clist(cval(a) for a in args), ckw(kwargs or []))
        out.append((li, "(%s, %s, %s)" % (l, enc, o)))
    return out


def judge_history(sc, res):
    """oracle over a history: every message must behave as the CURRENT keyrings say (independent replay of set_key)"""
    v = []
    if res.get("driver_error"):
        return [("driver/" + res["driver_error"].split(":")[0], res["driver_error"] + " " + res.get("tb", "")[-300:])]
    for leg in res["legs"]:
        name = leg["leg"]
        ss, ssets, rs, rsets, orig, uri = history_leg_sides(sc, leg)
        sbox = box_of(ring_now(sc[ss] or EMPTY_RING, ssets), orig, uri)
        rbox = box_of(ring_now(sc[rs] or EMPTY_RING, rsets), not orig, uri)
        o = leg["outcomes"][0][0]
        hist = f"op #{leg['op']} of {[op[0] + ':' + str(op[1]) for op in sc['ops']]}"
        if o[0] == "raised":
            v.append((f"history/{name}/ESCAPED/{o[1]}", f"{o[1]} escaped from onMessage ({hist})")); continue
        if leg["encrypted"] and (leg["clear_fields"] or leg["leak"]):
            v.append((f"history/{name}/clear-payload-next-to-ciphertext", hist))
        want_enc = sbox is not None and (name != "yield_result" or leg["call_encrypted"])
        if want_enc and not leg["encrypted"]:
            v.append((f"history/{name}/sent-in-clear-although-a-key-now-applies",
                      f"the sender's keyring currently maps {uri} to secret {sbox} (after its set_key calls {ssets}) but the "
                      f"payload went out in the clear ({hist})"))
            continue
        if leg["encrypted"] and sbox is None:
            v.append((f"history/{name}/encrypted-although-no-key-applies-any-more",
                      f"the key for {uri} was removed by set_key but the message is still encrypted ({hist})"))
            continue
        delivered = (o[0] == "handlers" and o[1]) or o[0] == "invoked"
        got = ([o[1][0][1], o[1][0][2]] if o[0] == "handlers" and o[1] else [o[1], o[2]]) if delivered else None
        want = [list(leg["sent"][0]), [list(p) for p in (leg["sent"][1] or [])]]
        exact = delivered and got[0] == want[0] and sorted(map(tuple, got[1])) == sorted(map(tuple, want[1]))
        if leg["encrypted"]:
            if sbox != rbox:
                if delivered:
                    v.append((f"history/{name}/ciphertext-under-replaced-or-wrong-key-accepted",
                              f"sealed under secret {sbox}, the receiver's CURRENT key for {uri} gives {rbox} (its set_key calls: "
                              f"{rsets}), but the payload was delivered: {o} ({hist})"))
                elif name != "publish_event" and not (o[0] == "failed" and o[1] in ENC_URIS):
                    v.append((f"history/{name}/no-explicit-encryption-error", f"{o} ({hist})"))
            elif not exact:
                v.append((f"history/{name}/roundtrip", f"current keys pair up ({sbox}); sent {want}, got {o} ({hist})"))
        elif not exact:
            v.append((f"history/{name}/plain-roundtrip", f"no key applies; sent {want}, got {o} ({hist})"))
    return v


# ------------------------------------------------------------------ Coq terms
_STRS, _NUMS = {}, set()


def cstr(s):
    assert all(32 <= ord(c) < 127 for c in s), s
    if s not in _STRS:
        _STRS[s] = "s%d" % len(_STRS)
    return _STRS[s]


def cN(n):
    n = UNKNOWN if n is None or n < 0 else int(n)
    _NUMS.add(n)
    return "n%d" % n


def defs():
    return SCOPES + "\n" + "\n".join("Definition n%d : N := %d." % (n, n) for n in sorted(_NUMS)) + "\n" + \
        "\n".join('Definition %s : string := "%s".' % (n, s.replace('"', '""')) for s, n in _STRS.items())


def clist(xs):
    return "[" + "; ".join(xs) + "]"


def copt(x, f):
    return "None" if x is None else "(Some %s)" % f(x)


def cval(i):
    return cN(UNSER if i == DT else i)


def ckw(kw):
    return clist("(%s, %s)" % (cstr(k), cval(v)) for k, v in kw)


def cks(k):
    return "(mkKS %s %s %s %s)" % tuple(copt(k[f], cN) for f in ("opriv", "opub", "rpriv", "rpub"))


def cring(r, sets=()):
    if r is None:
        return "None"
    return "(Some (mkRS %s %s %s))" % (copt(r["default"], cks), clist("(%s, %s)" % (cstr(p), cks(k)) for p, k in r["keys"]),
                                       clist("(%s, %s)" % (cstr(p), copt(k, cks)) for p, k in sets))


def cfault(f):
    if not f: return "NoFault"
    if f["t"] in ("flip", "flip_all", "trunc", "extend"): return "Tamper"
    if f["t"] == "swap": return "(Swap %s)" % cstr(f["uri"])
    return {"ser": "BadSerializer", "algo": "BadAlgo"}[f["t"]]


CKIND = {"kw": "CKw", "plain": "CPlain", "noarg": "CNoArg"}


def creg(sc):
    reg = sc.get("caller_reg") or []
    return (clist("(DefExplicit %s %s)" % (cN(10 + i), cstr(u)) for i, (u, _) in enumerate(reg)),
            clist("(%s, %s)" % (cN(10 + i), CKIND[c]) for i, (_, c) in enumerate(reg)))


def creg_mode(mode, env_uri, detail):
    """how the callee registered env_uri -> the model's (prefix, name, procedure detail present)"""
    cut = env_uri.rfind(".") + 1
    if mode in ("prefix", "decorated_prefix"):
        return "(Some %s) %s %s" % (cstr(env_uri[:cut]), cstr(env_uri[cut:]), "true" if detail else "false")
    if mode == "pattern":                       # registered URI is the prefix; the router's detail names the procedure
        return "None %s true" % cstr(env_uri[:cut])
    return "None %s %s" % (cstr(env_uri), "true" if detail else "false")


def cout(o):
    if o[0] == "invoked": return "(XInvoked %s %s)" % (clist(cval(a) for a in o[1]), ckw(o[2]))
    if o[0] == "class": return "(XClass %s %s %s)" % (cN(o[1]), clist(cval(a) for a in o[2]), ckw(o[3]))
    if o[0] == "failed" and isinstance(o[1], str): return "(XFailed %s)" % cstr(o[1])
    if o[0] == "handlers":
        return "(XHandlers %s)" % clist("(%s, %s, %s)" % (cN(i), clist(cval(a) for a in aa), ckw(kk)) for i, aa, kk in o[1])
    if o[0] == "ignored": return "XIgnored"
    if o[0] == "notsent": return "XNotSent"
    return None


def leg_terms(sc, legs):
    """one Coq case per observed leg (the unique outcome of the leg); -> list of (leg index, term)"""
    if sc.get("kind") == "history":
        return history_terms(sc, legs)
    out = []
    call_enc = None
    for li, leg in enumerate(legs):
        if len(leg["outcomes"]) != 1:
            continue
        o = cout(leg["outcomes"][0][0])
        if o is None:
            continue
        enc = "true" if leg["encrypted"] else "false"
        A, B = cring(sc["A"]), cring(sc["B"])
        if leg["leg"] == "publish_event":
            l = "(LPublishEvent %s %s %s %s %s %s %s %s)" % (
                A, B, cstr(sc["uri"]), clist(cval(a) for a in sc["args"]), ckw(sc["kwargs"]), cfault(sc["fault1"]),
                "true" if sc.get("detail_uri") else "false", clist(cN(i) for i in range(1, len(sc.get("handlers") or [False]) + 1)))
        elif leg["leg"] == "call_invocation":
            call_enc = leg["encrypted"]
            f1 = sc["fault1"]
            env_uri = f1["uri"] if f1 and f1["t"] == "swap" else sc["uri"]
            l = "(LCallInvocation %s %s %s %s %s %s %s)" % (A, B, cstr(sc["uri"]), clist(cval(a) for a in sc["args"]), ckw(sc["kwargs"]),
                                                          cfault(f1), creg_mode(sc.get("reg_mode", "plain"), env_uri, sc.get("detail_uri")))
        elif leg["leg"] == "yield_result":
            r = sc["result"]
            single = r["kwargs"] is None and len(r["args"]) == 1
            kwargs = None if single else (r["kwargs"] or [])
            f2 = sc["fault2"] if not (leg.get("progress") and sc["fault2"] and sc["fault2"]["t"] == "swap") else sc["fault2"]
            l = "(LYieldResult %s %s %s %s %s %s %s %s)" % (
                B, A, cstr(sc["uri"]), "true" if call_enc else "false", "true" if leg.get("progress") else "false",
                clist(cval(a) for a in r["args"]), copt(kwargs, ckw), cfault(f2))
        else:
            if sc.get("exc") and leg.get("error_uri") == sc["exc"]["error"] and legs[li - 1]["outcomes"][0][0][0] == "invoked":
                x = sc["exc"]
                l = "(LError %s %s %s (Some %s) (Some %s) %s %s %s)" % ((B, A, cstr(x["error"]), clist(cval(a) for a in x["args"]), ckw(x["kwargs"]), cfault(sc["fault2"])) + creg(sc))
            else:   # the reply to an INVOCATION that could not be decrypted
                l = "(LError %s %s %s (Some [%s]) (Some []) %s %s %s)" % ((B, A, cstr(leg["error_uri"]), cN(NOTE), cfault(sc["fault2"])) + creg(sc))
        out.append((li, "(%s, %s, %s)" % (l, enc, o)))
    return out


# ------------------------------------------------------------------ property oracle (from the property text)
def judge(sc, res):
    if sc.get("kind") == "history":
        return judge_history(sc, res)
    v = []
    if res.get("driver_error"):
        return [("driver/" + res["driver_error"].split(":")[0], res["driver_error"] + " " + res.get("tb", "")[-300:])]
    A, B = sc["A"], sc["B"]
    call_enc = False
    for leg in res["legs"]:
        name = leg["leg"]
        outs = [o for o, n in leg["outcomes"]]
        # what the keyrings promise for this leg
        if name == "publish_event":
            sbox, fault, sent = box_of(A, True, sc["uri"]), sc["fault1"], (sc["args"], sc["kwargs"])
            env_uri = fault["uri"] if fault and fault["t"] == "swap" else sc["uri"]
            rbox = box_of(B, False, env_uri)
            must_encrypt = sbox is not None
        elif name == "call_invocation":
            sbox, fault, sent = box_of(A, True, sc["uri"]), sc["fault1"], (sc["args"], sc["kwargs"])
            env_uri = fault["uri"] if fault and fault["t"] == "swap" else sc["uri"]
            rbox = box_of(B, False, env_uri)
            must_encrypt = sbox is not None
            call_enc = leg["encrypted"]
            mode = sc.get("reg_mode", "plain")
            want_reg = env_uri[:env_uri.rfind(".") + 1] if mode == "pattern" else env_uri
            if leg.get("register_uri") != want_reg:
                v.append((f"register/{mode}/wrong-URI-on-the-wire", f"REGISTER carried {leg.get('register_uri')!r}, expected {want_reg!r}"))
        elif name == "yield_result":
            r = sc["result"]
            sbox, fault = box_of(B, False, sc["uri"]), sc["fault2"]
            sent = (r["args"], r["kwargs"] or [])
            env_uri = fault["uri"] if fault and fault["t"] == "swap" else sc["uri"]
            rbox = box_of(A, True, env_uri)
            must_encrypt = call_enc          # results of an encrypted call travel encrypted
        else:
            euri = leg.get("error_uri")
            fault = sc["fault2"]
            own = sc.get("exc") and euri == sc["exc"]["error"]
            sent = (sc["exc"]["args"], sc["exc"]["kwargs"]) if own else ([NOTE], [])
            sbox = box_of(B, False, euri)
            env_uri = fault["uri"] if fault and fault["t"] == "swap" else euri
            rbox = box_of(A, True, env_uri)
            must_encrypt = call_enc and bool(own)          # ... and so do its errors
        where = f"{name}" + ("/progress" if leg.get("progress") else "")
        nh = len(sc.get("handlers") or [False])
        if name == "publish_event":
            # normalise: which handlers of the subscription were invoked, and with what
            norm = []
            for o in outs:
                if o[0] == "handlers":
                    norm.append(["ignored"] if not o[1] else ["invoked-handlers", o[1]])
                else:
                    norm.append(o)
            outs = norm
        for o in outs:
            if o[0] == "raised":
                v.append((f"{where}/ESCAPED/{o[1]}", f"{o[1]} escaped from onMessage while handling the {name} message"))
        if leg["encrypted"] and (leg["clear_fields"] or leg["leak"]):
            v.append((f"{where}/clear-payload-next-to-ciphertext", "an encrypted message also carries the clear payload"))
        if must_encrypt and not leg["encrypted"] and not any(o[0] == "notsent" for o in outs):
            if name == "yield_result":
                key, why = "yield/encode-failure-sent-in-clear", \
                    "the result of an ENCRYPTED call is sent in the clear (encode raised, the exception was swallowed)"
            elif name == "error":
                key, why = "error/keyed-by-error-URI/sent-in-clear", \
                    f"the error of an ENCRYPTED call travels in the clear: the keyring has no key for the error URI {leg.get('error_uri')}"
            else:
                key, why = f"{where}/not-encrypted", "the keyring has a key for the URI but the payload is not encrypted"
            v.append((key, why))
        altered = bool(fault) and leg["encrypted"] and not (fault["t"] == "swap" and env_uri == (sc["uri"] if name != "error" else leg.get("error_uri")))
        if altered:
            for o in outs:
                if o[0] == "invoked-handlers":
                    which = [h[0] for h in o[1]]
                    v.append((f"{where}/altered-payload-delivered/{fault['t']}" + ("/later-handler" if 1 not in which else ""),
                              f"after fault {fault} handler(s) {which} of the subscription ({nh} handlers) were still invoked: {o[1]}"))
                elif o[0] == "class":
                    v.append((f"{where}/altered-payload-delivered/registered-class",
                              f"after fault {fault} the call failed with an instance of the class registered for the envelope "
                              f"error URI (class C{o[1]}, args {o[2]}, kwargs {o[3]}) instead of an explicit encryption error"))
                elif o[0] == "invoked":
                    v.append((f"{where}/altered-payload-delivered/{fault['t']}",
                              f"after fault {fault} the application still received a payload: {o}"))
                elif name != "publish_event" and not (o[0] == "failed" and o[1] in ENC_URIS):
                    v.append((f"{where}/no-explicit-encryption-error/{fault['t']}", f"after fault {fault}: {o}"))
            if len(outs) > 1:
                v.append((f"{where}/alterations-treated-differently", f"outcomes {leg['outcomes']} odd {leg['odd']}"))
        elif not fault and leg["encrypted"] and sbox != rbox:
            # wrong key / no key / no codec at the receiver
            for o in outs:
                if o[0] == "invoked-handlers":
                    v.append((f"{where}/payload-delivered-without-matching-key",
                              f"the receiver has no matching key (sender secret {sbox}, receiver {rbox}) but handlers ran: {o[1]}"))
                elif o[0] == "class":
                    v.append((f"{where}/payload-delivered-without-matching-key/registered-class",
                              f"the receiver has no matching key (sender secret {sbox}, receiver {rbox}) but the call failed "
                              f"with an instance of the registered class: {o}"))
                elif o[0] == "invoked":
                    v.append((f"{where}/payload-delivered-without-matching-key",
                              f"the receiver has no matching key (sender secret {sbox}, receiver {rbox}) but got {o}"))
                elif name != "publish_event" and not (o[0] == "failed" and o[1] in ENC_URIS):
                    v.append((f"{where}/no-explicit-encryption-error/wrong-key", f"receiver without matching key: {o}"))
        elif not fault and leg["encrypted"] and sbox is not None and sbox == rbox:
            want = ["invoked", [a for a in sent[0]], [list(p) for p in sent[1]]]
            got = outs[0]
            if name == "publish_event":
                exp = [[i, want[1], want[2]] for i in range(1, nh + 1)]
                seen_h = got[1] if got[0] == "invoked-handlers" else []
                if [[h[0], h[1], sorted(map(tuple, h[2]))] for h in seen_h] != [[e[0], e[1], sorted(map(tuple, e[2]))] for e in exp]:
                    v.append((f"{where}/roundtrip", f"published {want[1:]}, the {nh} handlers of the matching subscriber got {got}"))
                continue
            if got[0] == "class":               # surfaced as the class the caller registered for the URI: same payload expected
                got = ["invoked", got[2], got[3]]
            if got[0] != "invoked" or got[1] != want[1] or sorted(map(tuple, got[2])) != sorted(map(tuple, want[2])):
                mode = sc.get("reg_mode", "plain") if name == "call_invocation" else "plain"
                v.append((f"{where}/roundtrip" + (f"/registered-via-{mode}" if mode != "plain" else ""),
                          f"sent {want}, the matching peer got {got}" + (f" (procedure registered via {mode})" if mode != "plain" else "")))
    return v


# ------------------------------------------------------------------ running
def run_fw(ck, fw, scs, timeout=3000):
    return ck.run_impl("wamp_cryptobox.py", {"fw": fw, "values": VALUES, "scenarios": scs}, timeout=timeout)["results"]


def run(ck):
    ck.rule.append(
        "scenarios between two real sessions with real PyNaCl keyrings (Twisted and asyncio in separate processes), this "
        "harness as router/attacker, every hop through a real serializer; payload values include strings that look "
        "numeric (0042, 1E5, +49..., -0, NaN, Infinity, ' 1', 1_0), 1.0 vs 1, 2^63, numeric-looking keys, compared by "
        "exact value AND type; 1-3 event handlers per subscription id with/without details_arg: 14 keyring layouts (default key, string key, "
        "both roles, per-prefix, nested prefixes in two insertion orders, codec on one side only, wrong responder key, "
        "wrong originator public key, role-mismatched material, prefix mismatch, diverging inner prefix) x direction "
        "(publish/event, call/invocation, yield/result final+progressive, error) x fault (none, one flipped octet, URI "
        "swap, enc_serializer/enc_algo changed, truncated, extended) + HISTORIES (40 quick / 600 thorough per framework): the "
        "same two sessions and KeyRing objects through 8-16 steps of set_key (add, replace, remove, default key, shadowing "
        "prefix, on both sides or one) interleaved with publish / call+result / call+error on 4 URIs and re-deliveries of "
        "earlier ciphertexts, every message judged against the CURRENT keyrings + EVERY single-octet alteration of one ciphertext per "
        "direction (quick: mask 0x01, 1 layout; thorough: masks 0x01/0x80/0xff, 4 layouts x 2 serializers); 70% of the error "
        "scenarios (and a dedicated sweep under every fault kind) have exception classes (accept-anything / no-keywords / "
        "no-arguments constructors) registered AT THE CALLER for the error URI and for the swapped URI. "
        "non-trivial = a leg whose message was encrypted; distinct = distinct (scenario, leg)")
    ck.extra_tb += [
        "ASSUMPTION aead_ok (premise of the integrity theorems): NaCl crypto_box is an authenticated cipher — it is "
        "exercised with real PyNaCl in the correspondence (every single-octet alteration rejected) but not proved",
        "ASSUMPTION json_ok: serializer._dumps/_loads round-trip the envelope {uri,args,kwargs} unchanged",
        "confidentiality of the ciphertext itself is NaCl's; the run only checks that no clear string of the payload occurs "
        "in any serialized message whose enc_algo is set",
        "the model run instantiates the cipher with a TOY authenticated cipher (ciphertext = secret+nonce+plaintext in "
        "the open or Garbage; CryptoboxRun.v) shown to satisfy aead_ok (C20_toy_aead_ok); every alteration of the real "
        "ciphertext maps to Garbage; Curve25519 key agreement is modelled as the unordered pair of key owners",
        "modelled, not verified: pytrie.StringTrie.longest_prefix_value (character-wise longest prefix), the nonce source",
    ]
    broken = ck.coq_props()
    ok, out = vlib.coq_make(["Model/CryptoboxRun.vo"])
    if not ok:
        raise RuntimeError("CryptoboxRun build failed: " + out[-1500:])
    lay = layouts()
    n = 450 if ck.quick() else 4000
    corpus = [json.load(open(p))["spec"] for p in sorted(glob.glob(os.path.join(vlib.ROOT, "corpus", "C20", "*.json")))]
    per_fw = {}
    for fw in ("tx", "aio"):
        rng = ck.rng("gen/" + fw)
        hrng = ck.rng("hist/" + fw)
        per_fw[fw] = corpus + exhaustive_scenarios(ck, lay) + [gen_scenario(rng, i, lay) for i in range(n)] + \
            [gen_history(hrng, i) for i in range(40 if ck.quick() else 600)]
    results = {"tx": {}, "aio": {}}
    with concurrent.futures.ThreadPoolExecutor(8) as ex:
        jobs = []
        for fw in ("tx", "aio"):
            scs = per_fw[fw]
            step = len(scs) if ck.quick() else (len(scs) + 3) // 4
            for i in range(0, len(scs), step):
                jobs.append((fw, i, ex.submit(run_fw, ck, fw, scs[i:i + step])))
        for fw, i, fut in jobs:
            for j, o in enumerate(fut.result()):
                results[fw][i + j] = o
    ck.log("implementation runs done")
    terms, where, seen = [], [], {}
    flips = 0
    for fw in ("tx", "aio"):
        for i, sc in enumerate(per_fw[fw]):
            res = results[fw][i]
            for leg in res["legs"]:
                ck.evaluations += leg.get("n_alterations", 1)
                ck.bump("leg:" + leg["leg"]); ck.bump("fw:" + fw)
                ck.bump("encrypted:" + str(leg["encrypted"]).lower())
                for o, cnt in leg["outcomes"]:
                    if o[0] == "class": ck.bump("error-surfaced-as-registered-class", cnt)
                    if o[0] == "handlers":
                        ck.bump("event:handlers-invoked=%d/%d" % (len(o[1]), len(sc.get("handlers") or [False])), cnt)
                    ck.bump("outcome:" + (o[0] if o[0] != "failed" else "failed:" + str(o[1]).rsplit(".", 1)[-1]), cnt)
                if leg.get("n_alterations", 1) > 1:
                    flips += leg["n_alterations"]
            ck.bump("layout:" + sc.get("layout", "corpus"))
            for f in (sc.get("fault1"), sc.get("fault2")):
                ck.bump("fault:" + (f["t"] if f else "none"))
            for key, what in judge(sc, res):
                ck.bump("oracle:" + key)
                seen.setdefault(key, (fw, sc, what))
            for li, t in leg_terms(sc, res["legs"]):
                terms.append(t); where.append((fw, i, li))
            ck.note_cases(0, (json.dumps([sc, li], sort_keys=True) for li, leg in enumerate(res["legs"]) if leg["encrypted"]))
    ck.bump("single_octet_alterations", flips)
    for fw, i, li in where[:3]:
        ck.sample({"fw": fw, "scenario": per_fw[fw][i], "leg": results[fw][i]["legs"][li]})
    bad = ck.coq_cases("cb", IMPORTS, "cb_case_ok", terms, ty="cb_case", shard=400, defs=defs())
    ck.bump("model_compared", len(terms))
    ck.log(f"{ck.evaluations} deliveries ({flips} single-octet alterations), {len(terms)} legs compared with the model, "
           f"{len(bad)} disagreements; oracle violation keys: {sorted(seen)}")
    known = {k.get("key") for k in ck.known if k.get("property") == ck.pid and k.get("status") == "known"}
    for key, (fw, sc, what) in sorted(seen.items()):
        small = sc if key in known else shrink(ck, fw, sc, key)      # known findings have their minimal case in corpus/
        ck.violation(key, what, {"fw": fw, "values": VALUES, "spec": small}, found_input=True)
    explained = 0
    for b in bad:
        fw, i, li = where[b]
        sc, res = per_fw[fw][i], results[fw][i]
        if judge(sc, res):
            explained += 1
            continue
        ck.violation("model-disagrees/" + res["legs"][li]["leg"],
                     "implementation and Gallina model (Cryptobox) disagree on a leg the property oracle accepts "
                     "(correspondence cb_case_ok broken)", {"fw": fw, "values": VALUES, "spec": sc, "leg": li,
                                                           "observed": res["legs"][li]}, found_input=False)
    if explained:
        ck.log(f"{explained} model disagreements are on scenarios that the oracle rejects too")
    if broken and not seen:
        ck.log("proof obligations broken; the oracle found no failing input in this run")


def shrink_history(ck, fw, sc, key):
    cur = sc
    for _ in range(6):
        cands = []
        for j in range(len(cur["ops"])):
            c = copy.deepcopy(cur); c["ops"].pop(j); cands.append(c)
        acc = copy.deepcopy(cur)
        for j in reversed(range(len(cur["ops"]))):
            acc = copy.deepcopy(acc); acc["ops"].pop(j) if j < len(acc["ops"]) else None
            cands.append(copy.deepcopy(acc))
        cands = [c for c in cands if c["ops"]]
        if not cands:
            break
        res = run_fw(ck, fw, cands)
        alive = [c for c, o in zip(cands, res) if any(k == key for k, _ in judge(c, o))]
        if not alive:
            break
        cur = min(alive, key=lambda c: len(c["ops"]))
    return cur


def shrink(ck, fw, sc, key):
    if sc.get("kind") == "history":
        return shrink_history(ck, fw, sc, key)
    cur = sc
    for _ in range(3):
        cands = []
        def add(mut):
            c = copy.deepcopy(cur); mut(c)
            if c != cur and c not in cands: cands.append(c)
        add(lambda c: c.update(args=[]))
        add(lambda c: c.update(kwargs=[]))
        add(lambda c: c.update(ser="json") if str(DT) not in json.dumps([c["args"], c["kwargs"], c.get("result"), c.get("exc")]) else None)
        add(lambda c: c.update(detail_uri=False))
        if cur.get("result"):
            add(lambda c: c["result"].update(progress=False))
            add(lambda c: c["result"].update(kwargs=None, args=c["result"]["args"][:1]))
        if cur.get("exc"):
            add(lambda c: c["exc"].update(args=[], kwargs=[]))
        for s in ("A", "B"):
            if cur[s] and cur[s]["keys"]:
                for j in range(len(cur[s]["keys"])):
                    add(lambda c, s=s, j=j: c[s]["keys"].pop(j))
        if not cands:
            break
        res = run_fw(ck, fw, cands)
        alive = [c for c, o in zip(cands, res) if any(k == key for k, _ in judge(c, o))]
        if not alive:
            break
        cur = min(alive, key=lambda c: len(json.dumps(c)))
    return cur


def replay(path):
    r = json.load(open(path))
    r = r.get("replay", r)
    if "spec" not in r:
        print(json.dumps(r, indent=1)); return 1
    ck = vlib.Check("C20", "quick", 1)
    rc = 0
    vlib.coq_make(["Model/CryptoboxRun.vo"])
    for fw in ([r["fw"]] if r.get("fw") else ["tx", "aio"]):
        res = run_fw(ck, fw, [r["spec"]])[0]
        print(f"--- {fw}: scenario {json.dumps(r['spec'])}")
        for leg in res["legs"]:
            print("leg", leg["leg"], "encrypted", leg["encrypted"], "wire", json.dumps(leg["wire"]), "outcomes", json.dumps(leg["outcomes"]))
        for k, w in judge(r["spec"], res):
            print("ORACLE    :", k, "::", w); rc = 1
        ts = leg_terms(r["spec"], res["legs"])
        if ts:
            print("model agrees per leg:", ck.coq_eval(IMPORTS + "\nFrom Coq Require Import List NArith String.\nImport ListNotations.\n" + defs(), ["cb_case_ok " + t for _, t in ts]))
    return rc
