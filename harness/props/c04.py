"""C04 — each WAMP request completes exactly once with its own reply.

Also the shared harness side of the Session model (used by c06.py): rendering of histories / configurations /
implementation logs as Coq terms of Model/Session.v + SessionRun.v, the history generators, the driver calls."""
import json
import os
import subprocess

import vlib

IMPORTS = "From AV Require Import Gen.WampTypeCodes Model.Session Model.SessionRun."
DEFS = "Open Scope N_scope."
FRAMEWORKS = ("tx", "aio")
REQ_KINDS = ("publish", "subscribe", "unsubscribe", "call", "register", "unregister")
KIND_CODE = {"publish": 16, "subscribe": 32, "unsubscribe": 34, "call": 48, "register": 64, "unregister": 66}
ERROR_TYPES = [16, 32, 34, 48, 64, 66, 68]       # what message.Error.parse admits
MATCH_INV = {None: 0, "exact": 0, "prefix": 1, "wildcard": 2}
INVOKE_INV = {None: 0, "single": 0, "first": 1, "last": 2, "roundrobin": 3, "random": 4}
DEFAULT_CFG = {"connect": "join", "welcome": "none", "challenge": "raise", "join_raises": False, "leave_super": True,
               "leave_raises": False, "disc_super": True, "disc_raises": False, "lenient": False}


# ------------------------------------------------------------------------------------------------------------------
# translator step: coq/Gen/WampTypeCodes.v from the tree under test (fail closed)
# ------------------------------------------------------------------------------------------------------------------
def regenerate(ck):
    tr = os.path.join(vlib.ROOT, "translators", "wamp_types.py")
    p = subprocess.run([vlib.VENV_PY, tr], env=vlib.impl_env(), stdout=subprocess.PIPE, stderr=subprocess.PIPE,
                       text=True, timeout=120)
    gen = os.path.join(vlib.COQ, "Gen", "WampTypeCodes.v")
    if p.returncode != 0 or "Definition T_CALL" not in p.stdout:
        err = [l for l in p.stderr.splitlines() if "conda" not in l]
        ck.obligation("translator_wamp_types", False, "translators/wamp_types.py failed closed: " + " | ".join(err[-5:]))
        return False
    vlib.write_if_changed(gen, p.stdout)
    ck.obligation("translator_wamp_types", True)
    return True


# ------------------------------------------------------------------------------------------------------------------
# rendering: python structures -> Coq terms
# ------------------------------------------------------------------------------------------------------------------
def c_bool(b):
    return "true" if b else "false"


def c_opt(v, f=str):
    return "None" if v is None else f"(Some {f(v)})"


def c_list(xs, f=str):
    return "[" + "; ".join(f(x) for x in xs) + "]"


def c_kw(kw):
    return c_list(kw, lambda p: f"({p[0]}, {p[1]})")


def c_reason(r):
    return {"normal": "RsNormal", "lost": "RsTransportLost", "noauth": "RsCannotAuth"}.get(r) or f"(RsUser {r})"


def c_payload(a, kw):
    return "{| p_args := %s; p_kw := %s |}" % (c_opt(a, c_list), c_opt(kw, c_kw))


def c_cfg(cfg):
    return ("{| u_connect := %s; u_welcome := %s; u_challenge := %s; u_join_raises := %s; u_leave_super := %s; "
            "u_leave_raises := %s; u_disc_super := %s; u_disc_raises := %s; t_lenient := %s |}") % (
        {"join": "CnJoin", "raise": "CnRaise"}[cfg["connect"]],
        {"none": "WlNone", "deny": "WlDeny", "raise": "WlRaise"}[cfg["welcome"]],
        {"sig": "ChSig", "none": "ChNone", "raise": "ChRaise"}[cfg["challenge"]],
        c_bool(cfg["join_raises"]), c_bool(cfg["leave_super"]), c_bool(cfg["leave_raises"]),
        c_bool(cfg["disc_super"]), c_bool(cfg["disc_raises"]), c_bool(cfg.get("lenient", False)))


def c_op(o):
    n = o[0]
    if n == "open": return "COp OOpen"
    if n == "lost": return f"COp (OLost {c_bool(o[1])})"
    if n == "turn": return "COp OTurn"
    if n == "call":
        opt = o[4]
        co = "None" if opt is None else "(Some {| co_timeout := %s; co_progress := %s; co_details := %s |})" % (
            c_opt(opt["timeout"]), c_bool(opt["progress"]), c_bool(opt["details"]))
        return f"COp (ACall {o[1]} {c_list(o[2])} {c_kw(o[3])} {co})"
    if n == "publish":
        opt = o[4]
        po = "None" if opt is None else "(Some {| po_ack := %s; po_exclude_me := %s |})" % (
            c_opt(opt["ack"], c_bool), c_opt(opt["excl"], c_bool))
        return f"COp (APublish {o[1]} {c_list(o[2])} {c_kw(o[3])} {po})"
    if n == "subscribe":
        opt = o[2]
        so = "None" if opt is None else "(Some {| so_match := %s; so_get_retained := %s |})" % (
            c_opt(opt["match"]), c_opt(opt["retained"], c_bool))
        return f"COp (ASubscribe {o[1]} {so})"
    if n == "register":
        opt = o[2]
        ro = "None" if opt is None else "(Some {| ro_match := %s; ro_invoke := %s |})" % (
            c_opt(opt["match"]), c_opt(opt["invoke"]))
        return f"COp (ARegister {o[1]} {ro})"
    if n == "failsend": return f"CFail {EXN[o[1]]} ({c_op(o[2])})"
    if n == "react": return f"CReact {o[1]} ({c_op(o[2])})"
    if n == "inline":
        r = c_op(o[2])
        assert r.startswith("COp ")
        return f"CInline ({c_op(o[1])}) {r[4:]}"
    if n == "unsubscribe": return f"CUnsub {o[1]}"
    if n == "unregister": return f"CUnreg {o[1]}"
    if n == "cancel": return f"CCancel {o[1]}"
    if n == "leave": return f"COp (ALeave {c_opt(o[1], c_reason)})"
    if n == "disconnect": return "COp ADisconnect"
    if n == "welcome": return f"COp (RWelcome {o[1]})"
    if n == "abort": return f"COp (RAbort {c_reason(o[1])})"
    if n == "challenge": return "COp RChallenge"
    if n == "goodbye": return f"COp (RGoodbye {c_reason(o[1])})"
    if n == "published": return f"COp (RPublished {o[1]} {o[2]})"
    if n == "subscribed": return f"COp (RSubscribed {o[1]} {o[2]})"
    if n == "unsubscribed": return f"COp (RUnsubscribed {o[1]})"
    if n == "result": return f"COp (RResult {o[1]} {c_bool(o[2])} {c_payload(o[3], o[4])})"
    if n == "registered": return f"COp (RRegistered {o[1]} {o[2]})"
    if n == "unregistered": return f"COp (RUnregistered {o[1]} {c_opt(o[2])})"
    if n == "error": return f"COp (RError {o[1]} {o[2]} {o[3]} {c_payload(o[4], o[5])})"
    if n == "event": return f"COp (REvent {o[1]})"
    if n == "invocation": return f"COp (RInvocation {o[1]} {o[2]})"
    if n == "interrupt": return f"COp (RInterrupt {o[1]})"
    if n == "other": return "COp ROther"
    raise ValueError(n)


class Unrenderable(Exception):
    """the implementation produced an event the model has no constructor for (e.g. an unexpected exception class)"""


EXN = {"ProtocolError": "XProtocolError", "TransportLost": "XTransportLost", "TypeError": "XTypeError",
       "AttributeError": "XAttributeError", "Exception": "XException", "NoObject": "XNoObject", "KeyError": "XKeyError",
       "SerializationError": "XSerializationError", "PayloadExceededError": "XPayloadExceeded"}


def c_exn(name):
    if name not in EXN:
        raise Unrenderable(f"exception class {name}")
    return EXN[name]


def c_msg(m):
    n = m[0]
    if n == "hello": return "MHello"
    if n == "authenticate": return "MAuthenticate"
    if n == "abort": return f"(MAbort {c_reason(m[1])})"
    if n == "goodbye": return f"(MGoodbye {c_reason(m[1])})"
    if n == "publish":
        return f"(MPublish {m[1]} {m[2]} {c_list(m[3])} {c_kw(m[4])} {c_opt(m[5], c_bool)} {c_opt(m[6], c_bool)})"
    if n == "subscribe":
        return f"(MSubscribe {m[1]} {m[2]} {MATCH_INV[m[3]]} {c_opt(m[4], c_bool)})"
    if n == "unsubscribe": return f"(MUnsubscribe {m[1]} {m[2]})"
    if n == "call":
        return f"(MCall {m[1]} {m[2]} {c_list(m[3])} {c_kw(m[4])} {c_opt(m[5])} {c_bool(m[6])})"
    if n == "cancel": return f"(MCancel {m[1]})"
    if n == "register": return f"(MRegister {m[1]} {m[2]} {MATCH_INV[m[3]]} {INVOKE_INV[m[4]]})"
    if n == "unregister": return f"(MUnregister {m[1]} {m[2]})"
    if n == "yield": return f"(MYield {m[1]})"
    raise Unrenderable(f"message {m}")


def c_value(v):
    n = v[0]
    if n == "none": return "VNone"
    if n == "zero": return "VZero"
    if n == "callresult": return f"(VCallResult {c_list(v[1])} {c_kw(v[2])})"
    if n in ("single", "publication", "subscription", "registration", "count"):
        return "(V%s %d)" % (n.capitalize(), v[1])
    raise Unrenderable(f"value {v}")


def c_result(r):
    if r[0] == "ok":
        return f"(ROk {c_value(r[1])})"
    e = r[1]
    if e[0] == "app": return "(RErr (EApp %d %s))" % (e[1], c_payload(e[2], e[3]))
    if e[0] == "leave": return f"(RErr (ELeave {c_reason(e[1])}))"
    if e[0] == "transportlost": return "(RErr ETransportLost)"
    if e[0] == "cancelled": return "(RErr ECancelled)"
    raise Unrenderable(f"error {e}")


def c_cb(c):
    n = c[0]
    if n == "connect": return "CbConnect"
    if n == "welcome": return "CbWelcome"
    if n == "challenge": return "CbChallenge"
    if n == "disconnect": return "CbDisconnect"
    if n == "join": return f"(CbJoin {c[1]})"
    if n == "leave": return f"(CbLeave {c_reason(c[1])} {c_opt(c[2])})"
    raise Unrenderable(f"callback {c}")


def c_event(e):
    n = e[0]
    if n == "sent": return f"Sent {c_msg(e[1])}"
    if n == "sendfailed": return f"SendFailed {c_msg(e[1])}"
    if n == "dropped": return f"Dropped {c_msg(e[1])}"
    if n == "completed": return f"Completed {e[1]} {c_result(e[2])}"
    if n == "progress": return f"Progress {e[1]} {c_bool(e[2])} {c_list(e[3])} {c_kw(e[4])}"
    if n == "called": return f"Called {c_cb(e[1])}"
    if n == "usererror": return "UserError"
    if n == "raised": return f"Raised {c_exn(e[1])}"
    if n == "apiret": return f"ApiReturned {c_opt(e[1])}"
    if n == "apiraised": return f"ApiRaised {c_exn(e[1])}"
    if n == "looperror": return f"LoopError {c_exn(e[1])}"
    if n == "tclose": return "TransportClose"
    if n == "tabort": return "TransportAbort"
    raise Unrenderable(f"event {e}")


def c_endstate(r):
    t = r["tables"]
    return "{| e_sid := %s; e_transport := %s; e_goodbye := %s; e_next_id := %d; e_tables := %s |}" % (
        c_opt(r["session_id"]), c_bool(r["transport"]), c_bool(r["goodbye_sent"]), r["next_id"],
        c_list([t[k] for k in REQ_KINDS]))


def c_case(fw, cfg, ops, res):
    return "(%s, %s,\n %s,\n %s,\n %s)" % (
        {"tx": "Tx", "aio": "Aio"}[fw], c_cfg(cfg), c_list(ops, c_op),
        c_list(res["trace"], lambda evs: c_list([e for e in evs if e[0] != "reenter"], c_event)), c_endstate(res))


# ------------------------------------------------------------------------------------------------------------------
# generators
# ------------------------------------------------------------------------------------------------------------------
def gen_payload(rng):
    """wire shapes of application payload: none | args | args+kwargs  (kwargs without args cannot be encoded)"""
    shape = rng.choice(["none", "none", "args1", "args", "empty", "kw", "emptykw"])
    if shape == "none": return None, None
    if shape == "empty": return [], None
    if shape == "args1": return [rng.randrange(0, 9)], None
    if shape == "args": return [rng.randrange(0, 9) for _ in range(rng.randint(2, 3))], None
    if shape == "emptykw": return [], []
    a = [rng.randrange(0, 9) for _ in range(rng.randint(0, 2))]
    return a, sorted({rng.randrange(0, 4): rng.randrange(0, 9) for _ in range(rng.randint(1, 2))}.items())


def gen_api_payload(rng):
    a = [rng.randrange(0, 9) for _ in range(rng.choice([0, 0, 1, 2]))]
    kw = sorted({rng.randrange(0, 4): rng.randrange(0, 9) for _ in range(rng.choice([0, 0, 1, 2]))}.items())
    return a, [list(p) for p in kw]


class Shadow:
    """what the generator remembers to aim replies at: purely a steering aid, never used as an oracle"""
    def __init__(self):
        self.next_id = 0
        self.pending = []     # (kind, id, j)
        self.answered = []    # (kind, id)
        self.nret = 0
        self.sub_futs = []    # j of subscribe futures
        self.reg_futs = []
        self.subids, self.regids = [], []

    def new(self, kind, returns=True):
        self.next_id += 1
        j = None
        if returns:
            j = self.nret
            self.nret += 1
            self.pending.append((kind, self.next_id, j))
            if kind == "subscribe": self.sub_futs.append(j)
            if kind == "register": self.reg_futs.append(j)
        return self.next_id, j

    def rejoin(self):
        """the session object joins anew (next life): ids start again, nothing of the old session is pending"""
        self.next_id = 0
        self.pending, self.answered = [], []

    def take_key(self, kind, rid):
        for p in list(self.pending):
            if p[0] == kind and p[1] == rid:
                self.pending.remove(p)
                self.answered.append(p[:2])

    def take(self, rng, kind=None):
        c = [p for p in self.pending if kind is None or p[0] == kind]
        if not c: return None
        p = rng.choice(c)
        self.pending.remove(p)
        self.answered.append(p[:2])
        return p


def gen_react_api(rng, sh):
    """the API call a re-entering callback issues"""
    k = rng.choice(["call", "call", "publish", "subscribe", "register", "unregister"])
    if k == "call": return ["call", rng.randrange(1, 6), [], [], None]
    if k == "publish": return ["publish", rng.randrange(1, 6), [], [], {"ack": True, "excl": None}]
    if k == "subscribe": return ["subscribe", rng.randrange(1, 6), None]
    if k == "register": return ["register", rng.randrange(1, 6), None]
    return ["unregister", rng.choice(sh.reg_futs) if sh.reg_futs else 0]


def gen_react_op(rng, sh):
    """user code attaches a callback that re-enters the API to a (probably) pending future"""
    js = [p[2] for p in sh.pending if p[2] is not None]
    j = rng.choice(js) if js and rng.random() < 0.9 else rng.randrange(0, max(1, sh.nret + 1))
    return ["react", j, gen_react_api(rng, sh)]


def gen_api_op(rng, sh):
    k = rng.choice(["call", "call", "call", "publish", "publish", "subscribe", "register", "unsubscribe", "unregister",
                    "cancel", "react", "react"])
    if k == "react":
        return gen_react_op(rng, sh)
    if k == "call":
        a, kw = gen_api_payload(rng)
        opt = None
        if rng.random() < 0.6:
            opt = {"timeout": rng.choice([None, None, 5]), "progress": rng.random() < 0.6, "details": rng.random() < 0.4}
        sh.new("call")
        return ["call", rng.randrange(1, 6), a, kw, opt]
    if k == "publish":
        a, kw = gen_api_payload(rng)
        opt = None
        if rng.random() < 0.8:
            opt = {"ack": rng.choice([True, True, True, False, None]), "excl": rng.choice([None, None, True, False])}
        sh.new("publish", returns=bool(opt and opt["ack"]))
        return ["publish", rng.randrange(1, 6), a, kw, opt]
    if k == "subscribe":
        opt = None
        if rng.random() < 0.4:
            opt = {"match": rng.choice([None, 0, 1, 2]), "retained": rng.choice([None, True, False])}
        sh.new("subscribe")
        return ["subscribe", rng.randrange(1, 6), opt]
    if k == "register":
        opt = None
        if rng.random() < 0.4:
            opt = {"match": rng.choice([None, 0, 1, 2]), "invoke": rng.choice([None, 0, 3, 4])}
        sh.new("register")
        return ["register", rng.randrange(1, 6), opt]
    if k == "unsubscribe":
        if sh.sub_futs and rng.random() < 0.9:
            j = rng.choice(sh.sub_futs)
        else:
            j = rng.randrange(0, max(1, sh.nret + 1))
        # may or may not send a request (depends on handlers left / object state): the shadow guesses "sends"
        return ["unsubscribe", j]
    if k == "unregister":
        if sh.reg_futs and rng.random() < 0.9:
            j = rng.choice(sh.reg_futs)
        else:
            j = rng.randrange(0, max(1, sh.nret + 1))
        return ["unregister", j]
    return ["cancel", rng.randrange(0, max(1, sh.nret + 1))]


def gen_reply_op(rng, sh, max_id):
    """a router message of the established phase, aimed adversarially"""
    mode = rng.choice(["ok", "ok", "ok", "ok", "error", "error", "progress", "dup", "unknown", "wrongtype",
                       "crosskind", "event", "invocation", "interrupt", "forced_unreg"])
    anyid = lambda: rng.randrange(1, max(2, max_id + 2))
    if mode in ("ok", "error", "progress", "wrongtype", "crosskind"):
        p = None
        if mode == "progress":
            c = [q for q in sh.pending if q[0] == "call"]
            p = rng.choice(c) if c else None
        elif mode in ("wrongtype", "crosskind"):
            p = rng.choice(sh.pending) if sh.pending else None
        else:
            p = sh.take(rng)
        if p is None:
            kind, rid = rng.choice(REQ_KINDS), anyid()
        else:
            kind, rid = p[0], p[1]
        if mode == "error":
            a, kw = gen_payload(rng)
            return ["error", KIND_CODE[kind], rid, rng.randrange(1, 5), a, kw]
        if mode == "wrongtype":
            other = rng.choice([c for c in ERROR_TYPES if c != KIND_CODE[kind]])
            return ["error", other, rid, rng.randrange(1, 5), None, None]
        if mode == "crosskind":
            kind = rng.choice([k for k in REQ_KINDS if k != kind])
        if mode == "progress":
            a, kw = gen_payload(rng)
            return ["result", rid, True, a, kw]
        return success_reply(rng, sh, kind, rid)
    if mode == "dup":
        if sh.answered:
            kind, rid = rng.choice(sh.answered)
            if rng.random() < 0.3:
                return ["error", KIND_CODE[kind], rid, 1, None, None]
            return success_reply(rng, sh, kind, rid)
        return success_reply(rng, sh, rng.choice(REQ_KINDS), anyid())
    if mode == "unknown":
        return success_reply(rng, sh, rng.choice(REQ_KINDS), rng.choice([0, max_id + 5, 9007199254740992]))
    if mode == "event":
        return ["event", rng.choice(sh.subids + [77]) if rng.random() < 0.8 else 78]
    if mode == "invocation":
        return ["invocation", rng.randrange(1, 4), rng.choice(sh.regids + [55]) if rng.random() < 0.8 else 56]
    if mode == "interrupt":
        return ["interrupt", rng.randrange(1, 4)]
    return ["unregistered", 0, rng.choice(sh.regids + [None, 56])]


def success_reply(rng, sh, kind, rid):
    if kind == "publish": return ["published", rid, rng.randrange(100, 110)]
    if kind == "subscribe":
        sid = rng.choice([77, 77, 77, 77, 78, 79])      # mostly one id: several handlers on one subscription
        sh.subids.append(sid)
        return ["subscribed", rid, sid]
    if kind == "unsubscribe": return ["unsubscribed", rid]
    if kind == "call":
        a, kw = gen_payload(rng)
        return ["result", rid, False, a, kw]
    if kind == "register":
        g = rng.choice([55, 56, 57, 58])
        sh.regids.append(g)
        return ["registered", rid, g]
    return ["unregistered", rid, None]


def gen_inline_op(rng, sh):
    """an API call whose reply is delivered from inside transport.send() (loopback / in-process router link)"""
    kind = rng.choice(REQ_KINDS)
    if kind == "unsubscribe":
        if not sh.sub_futs: kind = "subscribe"
        else: api = ["unsubscribe", rng.choice(sh.sub_futs)]; sh.next_id += 1
    if kind == "unregister":
        if not sh.reg_futs: kind = "register"
        else: api = ["unregister", rng.choice(sh.reg_futs)]; sh.next_id += 1
    if kind == "call":
        a, kw = gen_api_payload(rng)
        opt = {"timeout": None, "progress": rng.random() < 0.5, "details": rng.random() < 0.4} if rng.random() < 0.5 else None
        api = ["call", rng.randrange(1, 6), a, kw, opt]; sh.new("call")
    elif kind == "publish":
        a, kw = gen_api_payload(rng)
        api = ["publish", rng.randrange(1, 6), a, kw, {"ack": True, "excl": None}]; sh.new("publish")
    elif kind == "subscribe":
        api = ["subscribe", rng.randrange(1, 6), None]; sh.new("subscribe")
    elif kind == "register":
        api = ["register", rng.randrange(1, 6), None]; sh.new("register")
    rid = sh.next_id
    r = rng.random()
    if r < 0.65:
        reply = success_reply(rng, sh, kind, rid)
        sh.take_key(kind, rid)
    elif r < 0.85:
        a, kw = gen_payload(rng)
        reply = ["error", KIND_CODE[kind], rid, rng.randrange(1, 5), a, kw]
        sh.take_key(kind, rid)
    elif r < 0.92 and kind == "call":
        a, kw = gen_payload(rng)
        reply = ["result", rid, True, a, kw]
    else:
        reply = gen_reply_op(rng, sh, sh.next_id)
    return ["inline", api, reply]


SEND_FAILURES = ("SerializationError", "PayloadExceededError", "TransportLost")

def gen_failsend_ops(rng, sh):
    """an API call (each of the six request kinds) whose request message the transport refuses in one of its three ways,
    usually followed by a router message bearing the id that call consumed (it must NOT be matched to anything)"""
    kind = rng.choice(REQ_KINDS)
    if kind == "unsubscribe" and not sh.sub_futs: kind = "subscribe"
    if kind == "unregister" and not sh.reg_futs: kind = "register"
    if kind == "call":
        a, kw = gen_api_payload(rng)
        api = ["call", rng.randrange(1, 6), a, kw, rng.choice([None, {"timeout": None, "progress": True, "details": False}])]
    elif kind == "publish":
        a, kw = gen_api_payload(rng)
        api = ["publish", rng.randrange(1, 6), a, kw, rng.choice([{"ack": True, "excl": None}, None])]
    elif kind == "subscribe": api = ["subscribe", rng.randrange(1, 6), None]
    elif kind == "register": api = ["register", rng.randrange(1, 6), None]
    elif kind == "unsubscribe": api = ["unsubscribe", rng.choice(sh.sub_futs)]
    else: api = ["unregister", rng.choice(sh.reg_futs)]
    sh.next_id += 1          # the id is consumed before send() (if the call gets that far)
    rid = sh.next_id
    ops = [["failsend", rng.choice(SEND_FAILURES), api]]
    r = rng.random()
    if r < 0.45:
        ops.append(success_reply(rng, sh, kind, rid))
    elif r < 0.75:
        ops.append(["error", KIND_CODE[kind], rid, rng.randrange(1, 5), None, None])
    elif r < 0.85 and kind == "call":
        ops.append(["result", rid, True, [1], None])
    return ops


def join_prefix(fw, sid=1234):
    return [["open"], ["turn"], ["welcome", sid], ["turn"], ["turn"]] if fw == "aio" else [["open"], ["welcome", sid]]


def next_life(fw, sid):
    """the transport is lost, the same session object is given a new one and joins again"""
    if fw == "aio":
        return [["lost", False], ["turn"], ["turn"], ["turn"]] + join_prefix(fw, sid)
    return [["lost", False]] + join_prefix(fw, sid)


def gen_c04_history(rng, fw, nops):
    sh = Shadow()
    ops = join_prefix(fw, rng.choice([1234, 1, 9007199254740992]))
    for _ in range(nops):
        r = rng.random()
        if rng.random() < 0.025 and sh.next_id:
            # request ids are in session scope: the next life of the object starts from 1 again
            ops += next_life(fw, rng.choice([1235, 2, 9007199254740991]))
            sh.rejoin()
        elif fw == "aio" and r < 0.22:
            ops.append(["turn"])
        elif r < 0.12 + (0.22 if fw == "aio" else 0):
            ops.append(gen_inline_op(rng, sh))
        elif r < 0.20 + (0.22 if fw == "aio" else 0):
            ops += gen_failsend_ops(rng, sh)
        elif r < 0.60 or not sh.next_id:
            ops.append(gen_api_op(rng, sh))
        else:
            ops.append(gen_reply_op(rng, sh, sh.next_id))
    if rng.random() < 0.3:
        ops.append(rng.choice([["goodbye", "normal"], ["lost", False], ["leave", None]]))
        if fw == "aio":
            ops += [["turn"], ["turn"]]
    return ops


# ------------------------------------------------------------------------------------------------------------------
# running histories on the implementation and on the model
# ------------------------------------------------------------------------------------------------------------------
def run_histories(ck, fw, cases, timeout=3000):
    """cases: [{"cfg":..., "ops":[...]}] -> driver results (same order)"""
    out = []
    for i in range(0, len(cases), 4000):
        r = ck.run_impl("wamp_session.py", {"fw": fw, "cases": cases[i:i + 4000]}, timeout=timeout)
        out += r["results"]
        for k, v in r["hist"].items():
            ck.bump(f"{fw}:{k}", v)
    return out


def run_histories_parallel(ck, jobs):
    """jobs: list of (fw, cases); runs them in parallel driver processes; returns list of result lists"""
    import concurrent.futures as cf
    res = [None] * len(jobs)
    with cf.ThreadPoolExecutor(max_workers=min(16, max(1, len(jobs)))) as ex:
        futs = {ex.submit(lambda j=j: ck.run_impl("wamp_session.py", {"fw": j[0], "cases": j[1]}, timeout=3000)): i
                for i, j in enumerate(jobs)}
        for f in cf.as_completed(futs):
            r = f.result()
            res[futs[f]] = r["results"]
            for k, v in r["hist"].items():
                ck.bump(f"{r['fw']}:{k}", v)
    return res


def canon_case(fw, cfg, ops):
    return json.dumps([fw, cfg, ops], sort_keys=True)


def model_compare(ck, label, items):
    """items: [(fw, cfg, ops, res)] -> indices where model and implementation disagree (or the log is unrenderable)"""
    terms, idx, bad = [], [], []
    for i, (fw, cfg, ops, res) in enumerate(items):
        try:
            terms.append(c_case(fw, cfg, ops, res))
            idx.append(i)
        except Unrenderable:
            bad.append(i)
    failing = ck.coq_cases(label, IMPORTS, "session_case_ok", terms, ty="session_case", defs=DEFS, shard=250)
    return sorted(bad + [idx[k] for k in failing])


def model_answer(ck, fw, cfg, ops, res):
    """the model's own trace for one case (diagnostics / replay)"""
    try:
        t = c_case(fw, cfg, ops, res)
    except Unrenderable as e:
        return [f"unrenderable implementation log: {e}"]
    return ck.coq_eval(IMPORTS + "\n" + DEFS, [f"session_case_diff {t}", f"session_case_model {t}"])


def shrink(ck, fw, cfg, ops, batch_pred, keep_prefix=0, rounds=10):
    """delta debugging on the op list.  Every round evaluates all candidates (chunks of 8/4/2/1 ops dropped) in ONE
    driver process; batch_pred(cands, results) -> list of bools (True = still fails)."""
    cur = list(ops)
    for _ in range(rounds):
        n, cands, seen = len(cur), [], set()
        for size in (8, 4, 2, 1):
            for i in range(keep_prefix, n - size + 1):
                c = cur[:i] + cur[i + size:]
                k = json.dumps(c)
                if k not in seen:
                    seen.add(k)
                    cands.append(c)
        cands = cands[:250]
        if not cands:
            break
        results = run_histories(ck, fw, [{"cfg": cfg, "ops": c} for c in cands])
        flags = batch_pred(cands, results)
        ok = [c for c, f in zip(cands, flags) if f]
        if not ok:
            break
        cur = min(ok, key=len)
    return cur


# ------------------------------------------------------------------------------------------------------------------
# property oracle for C04, written from the property text; reads only the implementation's log
# ------------------------------------------------------------------------------------------------------------------
REQUEST_MSGS = {"publish", "subscribe", "unsubscribe", "call", "register", "unregister"}
REPLY_OF = {"published": "publish", "subscribed": "subscribe", "unsubscribed": "unsubscribe", "result": "call",
            "registered": "register", "unregistered": "unregister"}
ENDING = {"goodbye", "abort", "lost", "challenge"}


def expected_reply_content(op, req):
    """content the property prescribes for the reply `op` to request `req` ("the content of the router reply ... or
    the error that reply carries"); None = not determined by the text (left to the model comparison)"""
    n = op[0]
    if n == "error":
        return ["err", ["app", op[3], list(op[4] or []), [list(p) for p in (op[5] or [])]]]
    if n == "published": return ["ok", ["publication", op[2]]]
    if n == "subscribed": return ["ok", ["subscription", op[2]]]
    if n == "registered": return ["ok", ["registration", op[2]]]
    if n == "unsubscribed": return ["ok", ["zero"]]
    if n == "unregistered": return ["ok", ["none"]]
    if n == "result":
        a, kw = list(op[3] or []), [list(p) for p in (op[4] or [])]
        details = bool(req.get("details"))
        if kw or details: return ["ok", ["callresult", a, kw]]
        if len(a) == 1: return ["ok", ["single", a[0]]]
        if len(a) > 1: return ["ok", ["callresult", a, []]]
        return ["ok", ["none"]]
    return None


def expand_inline(ops, trace, v):
    """["inline", api, reply] whose request message was accepted by the transport is judged as the API call followed
    by its reply (that is what "replies may arrive at any time after the request was handed to the transport" means):
    the request message and the return of the API call go to the first, everything the reply caused to the second.
    In addition the API call itself must not raise because its reply came early."""
    o2, t2 = [], []
    for op, evs in zip(ops, trace):
        if op[0] != "inline":
            o2.append(op); t2.append(evs); continue
        api, reply = op[1], op[2]
        k = next((i for i, e in enumerate(evs) if e[0] == "sent" and e[1][0] in REQUEST_MSGS), None)
        if k is None:
            o2.append(api); t2.append(evs); continue          # nothing was sent: the reply was never delivered
        # the API call's own return is the last apiret/apiraised of the op (callbacks fired by the reply may re-enter
        # the API and log their own returns before it)
        last = max(i for i, e in enumerate(evs) if e[0] in ("apiret", "apiraised"))
        a_evs = [evs[k], evs[last]]
        r_evs = [e for i, e in enumerate(evs) if i not in (k, last)]
        if evs[last][0] == "apiraised":
            v.append((f"{api[0]}/reply-during-send/api-raised",
                      f"{api} raised {evs[last][1]} because its reply {reply} arrived inside send()"))
        o2 += [api, reply]; t2 += [a_evs, r_evs]
    return o2, t2


def oracle_c04(fw, cfg, ops, res):
    """returns list of (key, text).  Checks, on the implementation log only:
       ids sequential from 1 within every session (every life of the object: HELLO restarts them) and within 1..2^53;
       one request message per API call with the given URI / args / options;
       every future completes at most once; a completion that follows the reply bearing the request's (type, id)
       carries that reply's content (or the error it carries); a future never completes without such a reply unless
       the session ends / the user cancels; progressive results reach only their own call and do not complete it;
       a reply matching no pending request raises ProtocolError and completes nothing; nothing but ProtocolError
       leaves onMessage; an API call whose transport.send() raises (each of the six kinds, each of the three
       exceptions) raises that exception, returns no future, consumes its id, and a later router message bearing
       that id is a protocol violation like any other reply nobody waits for."""
    v = []
    for what, text in res.get("bystander") or []:        # session objects of one process share no state
        v.append((f"isolation/other-session-object-disturbed/{what}", text))
    ops, trace = expand_inline(ops, res["trace"], v)
    nreq = 0
    completed = {}
    reqs = {}            # (kind, id) -> {"j":..., "details":..., "open": bool, "reply": op or None}
    by_j = {}
    failed = {}          # (kind, id) of requests whose send() raised -> op index
    lives = 0            # HELLOs seen so far
    stale = {}           # (kind, id) -> request of an earlier life whose future never completed
    window = []          # asyncio: ops since the last turn (user callbacks surface in the next loop iteration)
    joined = False
    ended = False
    for i, (op, evs) in enumerate(zip(ops, trace)):
        name = op[0]
        sent = [e[1] for e in evs if e[0] in ("sent", "sendfailed", "dropped") and e[1][0] in REQUEST_MSGS]
        # ---- ids: session scope -- from 1 in every life (join() = HELLO starts a new session), sequential within it ----
        if any(e[0] in ("sent", "sendfailed", "dropped") and e[1][0] == "hello" for e in evs):
            if lives:
                nreq, failed = 0, {}
                # records that survived the previous life (no default onDisconnect sweep): join() keeps the tables
                stale = {k: r for k, r in reqs.items() if r.get("j") is not None and r["j"] not in completed}
                for r in reqs.values(): r["open"] = False
                joined = ended = False
            lives += 1
        for m in sent:
            nreq += 1
            if m[1] != nreq or not (1 <= m[1] <= 2 ** 53):
                if lives > 1 and nreq == 1:
                    v.append(("request-id/not-from-1-in-next-life",
                              f"the first request of life {lives} of the session object carries id {m[1]} at op {i} "
                              f"(request ids are in session scope: every join() starts from 1)"))
                    nreq = m[1]
                else:
                    v.append(("ids/not-sequential", f"request #{nreq} of the session carries id {m[1]} at op {i}"))
        # ---- one message per API call, faithful content ----
        own = evs[:next((i for i, e in enumerate(evs) if e[0] == "reenter"), len(evs))]
        if name in ("call", "publish", "subscribe", "register"):
            ret = [e for e in own if e[0] == "apiret"]
            ok_sent = [e[1] for e in own if e[0] == "sent" and e[1][0] in REQUEST_MSGS]
            if ret:
                if len(ok_sent) != 1 or ok_sent[0][0] != name:
                    if not any(e[0] == "dropped" for e in evs):
                        v.append((f"{name}/message-count", f"API call returned but sent {len(ok_sent)} request messages at op {i}"))
                else:
                    m = ok_sent[0]
                    want = None
                    mt = {None: "exact", 0: "exact", 1: "prefix", 2: "wildcard"}
                    if name == "call":
                        o = op[4] or {}
                        want = ["call", m[1], op[1], op[2], op[3], o.get("timeout"), bool(o.get("progress"))]
                    elif name == "publish":
                        o = op[4] or {}
                        want = ["publish", m[1], op[1], op[2], op[3], o.get("ack"), o.get("excl")]
                    elif name == "subscribe":
                        o = op[2] or {}
                        want = ["subscribe", m[1], op[1], mt[o.get("match")], o.get("retained")]
                    elif name == "register":
                        o = op[2] or {}
                        want = ["register", m[1], op[1], mt[o.get("match")],
                                {None: "single", 0: "single", 1: "first", 2: "last", 3: "roundrobin", 4: "random"}[o.get("invoke")]]
                    if json.dumps(want) != json.dumps(m):
                        v.append((f"{name}/message-content", f"sent {m} for API call {op} at op {i}"))
                    j = ret[0][1]
                    if j is not None:
                        o = (op[4] if name == "call" else None) or {}
                        reqs[(name, m[1])] = {"j": j, "details": o.get("details"), "open": True, "reply": None}
                        by_j[j] = (name, m[1])
        if name == "failsend":
            kind = op[2][0]
            sf = [e[1] for e in own if e[0] == "sendfailed" and e[1][0] in REQUEST_MSGS]
            if sf:                # the call got as far as send(): that send raised op[1]
                if any(e[0] == "apiret" for e in own) or not any(e[0] == "apiraised" and e[1] == op[1] for e in own):
                    v.append((f"send-failed/{kind}/api-did-not-raise",
                              f"send() raised {op[1]} inside {op[2]} at op {i} but the API call did not raise it: "
                              f"{[e for e in own if e[0] in ('apiret', 'apiraised')]}"))
                if any(e[0] == "sent" and e[1][0] in REQUEST_MSGS for e in own):
                    v.append((f"send-failed/{kind}/sent-anyway", f"{op} at op {i} put a request on the wire"))
                failed[(sf[0][0], sf[0][1])] = i
        if name in ("unsubscribe", "unregister"):
            ret = [e for e in own if e[0] == "apiret"]
            ok_sent = [e[1] for e in own if e[0] == "sent" and e[1][0] == name]
            if ret and ok_sent:
                reqs[(name, ok_sent[0][1])] = {"j": ret[0][1], "open": True, "reply": None}
                by_j[ret[0][1]] = (name, ok_sent[0][1])
        # ---- requests issued by callbacks that re-enter the API (retry idiom): [reenter, sent m, apiret j] ----
        for k0, e0 in enumerate(evs):
            if e0[0] != "reenter": continue
            m = None
            for e in evs[k0 + 1:]:
                if e[0] == "reenter": break
                if e[0] == "sent" and e[1][0] in REQUEST_MSGS: m = e[1]
                if e[0] in ("apiret", "apiraised"):
                    if e[0] == "apiret" and e[1] is not None and m is not None:
                        reqs[(m[0], m[1])] = {"j": e[1], "details": None, "open": True, "reply": None}
                        by_j[e[1]] = (m[0], m[1])
                    break
        # ---- escaping exceptions ----
        for e in evs:
            if e[0] == "raised" and e[1] != "ProtocolError" and not (e[1] == "TransportLost" and name == "goodbye"):
                v.append((f"onMessage/ESCAPED/{e[1]}/{name}" + ("-progressive" if name == "result" and op[2] else ""),
                          f"{e[1]} escaped the entry point at op {i}: {op}"))
        # ---- replies: which request do they belong to ----
        unknown_reply = False
        stale_j = None
        if (name in REPLY_OF or name == "error") and joined and not ended:
            if name == "error":
                kinds = [k for k, c in KIND_CODE.items() if c == op[1]]
                key = (kinds[0], op[2]) if kinds else None
            else:
                key = (REPLY_OF[name], op[1])
            if name == "unregistered" and op[1] == 0:
                pass        # router-initiated revocation, not a reply
            elif not (key in reqs and reqs[key]["open"]):
                unknown_reply = True
                stale_j = None
                if not any(e[0] == "raised" and e[1] == "ProtocolError" for e in evs):
                    if key in stale and stale[key]["j"] not in completed:
                        stale_j = stale[key]["j"]
                        v.append(("stale-record/reply-of-next-session-matched-to-request-of-previous-life",
                                  f"{op} of life {lives} (op {i}) matches no request of this session, but is accepted: the "
                                  f"record of {key} issued in an earlier life of the object (future {stale_j}) is still in "
                                  f"the table (join() resets the request ids but keeps the request tables)"))
                    elif key in failed:
                        v.append((f"send-failed/{key[0]}/later-reply-accepted",
                                  f"{key[0]}() at op {failed[key]} raised because send() failed; the router message {op} "
                                  f"bearing the id it consumed is accepted without ProtocolError (op {i}): the request "
                                  f"record was left in the table"))
                    else:
                        v.append((f"{name}/unknown-not-violation", f"{op} matches no pending request but no ProtocolError (op {i})"))
                if any(e[0] == "completed" and e[1] != stale_j for e in evs):
                    v.append((f"{name}/unknown-completes", f"{op} matches no pending request but completed a future (op {i})"))
            elif not (name == "result" and op[2]):
                reqs[key]["open"] = False
                reqs[key]["reply"] = op
                reqs[key]["reply_at"] = i
                if any(e[0] == "raised" for e in evs):
                    reqs[key]["reply_raised"] = True
                    if name != "registered":
                        # (REGISTERED naming a registration id in use is the one reply that is itself a violation)
                        v.append((f"{name}/matching-reply-treated-as-violation",
                                  f"{op} bears type and id of the pending request {key} (future {reqs[key].get('j')}"
                                  f"{', already completed locally' if reqs[key].get('j') in completed else ''}) but "
                                  f"raised {[e[1] for e in evs if e[0] == 'raised']} (op {i})"))
        # ---- completions ----
        if name != "turn":
            window.append(op)
        for e in evs:
            if e[0] != "completed": continue
            j = e[1]
            if j in completed:
                v.append(("future/completed-twice", f"future {j} completed again at op {i} ({op})"))
                continue
            completed[j] = (i, e[2])
            if unknown_reply and j == stale_j:
                continue             # reported above
            key = by_j.get(j)
            rq = reqs.get(key)
            causes = [op] if fw == "tx" else list(window)
            cancelled = e[2] == ["err", ["cancelled"]]
            if cancelled:
                if not any(c[0] == "cancel" and c[1] == j for c in causes):
                    v.append(("future/cancelled-without-cancel", f"future {j} completed with CancelledError at op {i}"))
            elif rq and rq["reply"] is not None:
                want = expected_reply_content(rq["reply"], rq)
                if fw == "tx" and rq["reply_at"] != i:
                    v.append((f"{key[0]}/late-completion", f"future {j} completed at op {i}, its reply came at op {rq['reply_at']}"))
                if want is not None and json.dumps(want) != json.dumps(e[2]):
                    v.append((f"{key[0]}/wrong-content", f"future {j} of {key} completed with {e[2]}, reply {rq['reply']}"))
            elif key is None and any(c[0] == "unsubscribe" or (c[0] == "failsend" and c[2][0] == "unsubscribe") for c in causes):
                pass         # unsubscribe() with handlers left returns an already completed future
            elif any(c[0] in ENDING or c[0] in ("leave", "disconnect") for c in causes):
                if e[2][0] != "err":
                    v.append(("future/ok-without-reply", f"future {j} of {key} completed ok without a reply at op {i}"))
            else:
                v.append(("future/completed-by-foreign-message",
                          f"future {j} of request {key} completed at op {i} by {causes}"))
        # Twisted: a matching reply completes its future within the same onMessage call (unless cancelled before)
        if fw == "tx" and (name in REPLY_OF or name == "error") and joined and not ended and not unknown_reply:
            for key, rq in reqs.items():
                if rq.get("reply_at") == i and rq["j"] not in completed:
                    if name == "registered" and rq.get("reply_raised"):
                        v.append(("registered/duplicate-registration-id/future-never-completes",
                                  f"{op}: request popped, ProtocolError raised, future {rq['j']} is never completed"))
                    else:
                        v.append((f"{name}/reply-lost", f"{op} matches pending request {key} but its future did not complete"))
        # ---- progress is local ----
        for e in evs:
            if e[0] == "progress":
                key = by_j.get(e[1])
                if not (name == "result" and op[2] and key == ("call", op[1])):
                    v.append(("progress/foreign", f"on_progress of future {e[1]} fired by {op}"))
                if any(x[0] == "completed" and x[1] == e[1] for x in evs):
                    v.append(("progress/completes", f"progressive result completed future {e[1]}"))
        if name == "turn":
            window = []
        if name == "welcome": joined = True
        if name in ("goodbye", "lost", "abort") and any(e[0] == "called" and e[1][0] == "leave" for e in evs):
            ended = True
            for r in reqs.values(): r["open"] = False
        if name == "lost":
            ended = True
            for r in reqs.values(): r["open"] = False
    return v


# ------------------------------------------------------------------------------------------------------------------
def run(ck):
    ck.rule.append(
        "random histories on a joined session (<= 14 ops quick, <= 24 thorough, plus the join prefix) mixing the six "
        "request kinds (payload shapes none/args/kwargs/details, options), replies aimed at pending requests (success, "
        "error, progressive, duplicated, unknown id, ERROR with a foreign request type, reply of a foreign kind), "
        "EVENT/INVOCATION/INTERRUPT noise, cancel/unsubscribe/unregister, replies delivered re-entrantly from inside "
        "transport.send() for all six request kinds (loopback router link), transport.send() raising each of "
        "SerializationError / PayloadExceededError / TransportLost inside each of the six request kinds followed by a "
        "router message (success, ERROR, progressive RESULT) bearing the id that call consumed, callbacks that re-enter the "
        "API, a second / third life of the same session object (transport lost, new transport, join again: request ids "
        "start from 1 again), a second session object alive in the same process (joined / not joined, one pending "
        "request of four kinds, untouched by the history: must stay exactly as it was), asyncio loop turns at random "
        "points; run on the "
        "real ApplicationSession under Twisted and asyncio and on the Gallina model (coqc, vm_compute); compared: per op "
        "the exact sequence of messages handed to the transport, future completions with content, on_progress calls, "
        "exceptions; non-trivial = at least one request sent and one router message processed; distinct = distinct "
        "(framework, history)")
    ck.extra_tb += [
        "modelled, not verified: txaio continuation semantics (Twisted: synchronous, chained; asyncio: one loop iteration "
        "later, fan-out) as written in Model/Session.v; CPython dict insertion order; URI validation, payload codecs, "
        "exception class lookup (_exception_from_message) are outside this projection (C08/C18/C20)",
        "oracle assumptions: the fake ITransport of harness/impl/wamp_session.py (send raises TransportLost after close(), or "
        "RawSocket-like acceptance of sends after close()); user callbacks are synchronous functions; messages are built by the real message "
        "classes from wire-level lists; abstract ids stand for URIs/arguments",
        "translator: translators/wamp_types.py (MESSAGE_TYPE codes, IdGenerator bounds) regenerated from the tree under test",
    ]
    regenerate(ck)
    broken = ck.coq_props()
    ck.log(f"coq: property file built, broken obligations: {broken}")
    ok, out = vlib.coq_make(["Model/SessionRun.vo"])
    if not ok:
        raise RuntimeError("SessionRun build failed: " + out[-1500:])
    n_hist = 1500 if ck.quick() else 20000
    max_ops = 14 if ck.quick() else 24
    jobs, meta = [], []
    corpus = load_corpus("C04")
    shards = 8 if ck.quick() else 16
    for fw in FRAMEWORKS:
        rng = ck.rng(f"hist/{fw}")
        cases = [dict(c) for c in corpus if c.get("fw", fw) == fw]
        for c in cases: c.pop("fw", None)
        while len(cases) < n_hist:
            cases.append({"cfg": dict(DEFAULT_CFG, lenient=(rng.random() < 0.15), bystander=rng.choice([0, 0, 0, 1, 2])),
                          "ops": gen_c04_history(rng, fw, rng.randint(3, max_ops))})
        per = (len(cases) + shards - 1) // shards
        for k in range(0, len(cases), per):
            jobs.append((fw, cases[k:k + per]))
    results = run_histories_parallel(ck, jobs)
    items = []
    for (fw, cases), rs in zip(jobs, results):
        for c, r in zip(cases, rs):
            items.append((fw, c["cfg"], c["ops"], r))
    ck.evaluations += len(items)
    nontriv = [it for it in items if any(e[0] == "sent" and e[1][0] in REQUEST_MSGS for evs in it[3]["trace"] for e in evs)
               and any(o[0] in REPLY_OF or o[0] == "error" for o in it[2])]
    ck.note_cases(0, (canon_case(fw, cfg, ops) for fw, cfg, ops, _ in nontriv))
    for it in nontriv[:3]:
        ck.sample({"fw": it[0], "ops": it[2], "trace": it[3]["trace"]})
    ck.log(f"implementation: {len(items)} histories ({len(nontriv)} non-trivial) on {FRAMEWORKS}")
    # ---- property oracle on the implementation ----
    found = {}
    for it in items:
        for key, text in oracle_c04(*it):
            ck.bump("oracle:" + key)
            if key not in found or len(it[2]) < len(found[key][1][2]):
                found[key] = (text, it)
    report_findings(ck, found, oracle_c04, lambda fw: len(join_prefix(fw)))
    # ---- model comparison ----
    bad = model_compare(ck, "c04", items)
    ck.bump("model_compared", len(items))
    ck.log(f"model comparison: {len(items)} histories, {len(bad)} disagreements; oracle findings: {sorted(found)}")
    reported = 0
    for i in bad:
        fw, cfg, ops, res = items[i]
        if oracle_c04(fw, cfg, ops, res):
            continue                  # already reported with a concrete failing input
        if reported >= 3:
            break
        reported += 1

        def still(cands, results, fw=fw, cfg=cfg):
            bad_idx = set(model_compare(ck, "c04shrink", [(fw, cfg, c, r) for c, r in zip(cands, results)]))
            return [i in bad_idx for i in range(len(cands))]
        small = shrink(ck, fw, cfg, ops, still, keep_prefix=0, rounds=6)
        r2 = run_histories(ck, fw, [{"cfg": cfg, "ops": small}])[0]
        shape = "/".join(o[0] for o in small[-4:])
        ck.violation(f"{fw}/model-disagrees/{shape}", "implementation and Gallina session model disagree "
                     "(correspondence broken); the property oracle accepts the implementation's log",
                     {"fw": fw, "cfg": cfg, "ops": small, "trace": r2["trace"],
                      "model": model_answer(ck, fw, cfg, small, r2)}, found_input=False)
    if broken:
        # the sweep above is the search for a concrete failing input; whatever it found is reported with its replay,
        # the broken obligations themselves are reported here (no failing input attached)
        ck.violation("obligation/" + broken[0], f"proof obligation(s) no longer check: {broken[:12]}",
                     {"broken_obligations": broken, "note": "see coverage.broken_obligations in the evidence file for the "
                      "coqc error; the history sweep of this run is the search for a failing input"}, found_input=False)


def report_findings(ck, found, oracle, keep_prefix_of):
    """found: key -> (text, (fw, cfg, ops, res)).  Shrinks the long ones (in parallel driver processes) and reports."""
    import concurrent.futures as cf

    def work(item):
        key, (text, it) = item
        fw, cfg, ops, res = it
        small = ops
        if len(ops) > 9:
            def still(cands, results):
                return [any(k == key for k, _ in oracle(fw, cfg, c, r)) for c, r in zip(cands, results)]
            small = shrink(ck, fw, cfg, ops, still, keep_prefix=keep_prefix_of(fw), rounds=5)
        r2 = run_histories(ck, fw, [{"cfg": cfg, "ops": small}])[0] if small is not ops else res
        return key, text, fw, cfg, small, r2
    with cf.ThreadPoolExecutor(max_workers=8) as ex:
        done = list(ex.map(work, sorted(found.items())))
    for key, text, fw, cfg, small, r2 in done:
        ck.violation(f"{fw}/{key}", f"[{fw}] {text}", {"fw": fw, "cfg": cfg, "ops": small, "trace": r2["trace"]},
                     found_input=True)


def load_corpus(pid):
    d = os.path.join(vlib.ROOT, "corpus", pid)
    out = []
    if os.path.isdir(d):
        for f in sorted(os.listdir(d)):
            if f.endswith(".json"):
                c = json.load(open(os.path.join(d, f)))
                c = c.get("replay", c)
                if "ops" in c:
                    out.append({"fw": c.get("fw", "tx"), "cfg": c.get("cfg", dict(DEFAULT_CFG)), "ops": c["ops"]})
    return out


def replay(path, pid="C04", oracle=None):
    r = json.load(open(path))
    r = r.get("replay", r)
    ck = vlib.Check(pid, "quick", 1)
    fw, cfg, ops = r.get("fw", "tx"), r.get("cfg", dict(DEFAULT_CFG)), r["ops"]
    res = run_histories(ck, fw, [{"cfg": cfg, "ops": ops}])[0]
    print("framework:", fw, " cfg:", json.dumps(cfg))
    for o, evs in zip(ops, res["trace"]):
        print("  ", json.dumps(o), "->", json.dumps(evs))
    print("end state:", json.dumps({k: v for k, v in res.items() if k != "trace"}))
    viol = (oracle or oracle_c04)(fw, cfg, ops, res)
    for k, t in viol:
        print("ORACLE VIOLATION", k, "::", t)
    vlib.coq_make(["Model/SessionRun.vo"])
    bad = model_compare(ck, "replay", [(fw, cfg, ops, res)])
    print("Gallina model agrees with implementation:", not bad)
    if bad:
        for line in model_answer(ck, fw, cfg, ops, res):
            print("   model:", line[:3000])
    return 1 if viol or bad else 0
