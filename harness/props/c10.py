"""C10 — every invocation gets exactly one terminal reply (callee side of ApplicationSession).

Theorems: coq/Props/C10.v over the model coq/Model/SessionInv.v.  Correspondence: op histories run on the REAL
ApplicationSession (harness/impl/wamp_invoke.py; Twisted and asyncio in separate processes; a scripted fake
transport for volume and the four real WAMP transports with their real send()) and on the model (coqc/vm_compute),
outputs compared entry by entry.  Independent oracle from the property text on every implementation log."""
import glob, json, os
import vlib

DRIVER = "wamp_invoke.py"
IMPORTS = "From AV Require Import Model.SessionInv Model.SessionInvRun."

# ---------------------------------------------------------------------------------------------------------------
# JSON -> Coq terms
# ---------------------------------------------------------------------------------------------------------------
XC = {"ProtocolError": "XProtocolError", "KeyError": "XKeyError", "AttributeError": "XAttributeError",
      "TypeError": "XTypeError", "SerializationError": "XSerializationError", "PayloadExceededError": "XPayloadExceeded",
      "ValueError": "(XOther 1)", "CBOREncodeError": "(XOther 2)", "CBOREncodeTypeError": "(XOther 2)"}
SIG = {"ok": "SigOk", "short": "SigShort", "ill": "SigIllTyped"}
KINDS = ["fixed", "defaults", "varargs", "varkw", "both", "kwonly"]
FB = {"success_ser": "FbSuccessSer", "error_ser": "FbErrorSer", "exceeded": "FbExceeded"}


class Undecodable(Exception):
    pass


def b(x): return "true" if x else "false"
def xc(n): return XC.get(n, "(XOther 99)")


def nn(x):
    """a natural number of the model; the driver reports what it cannot decode as a negative id"""
    if not isinstance(x, int) or isinstance(x, bool) or x < 0: raise Undecodable(f"not a model id: {x!r}")
    return x


def c_on(x): return "None" if x is None else f"(Some {nn(x)})"
def c_ob(x): return "None" if x is None else f"(Some {b(x)})"
def c_idet(i): return "(" + ", ".join(c_on(x) for x in i[:3]) + ")"


def c_payload(p):
    if p[0] == "val": return f"(PVal {int(p[1])} {b(p[2])} {b(p[3])})"
    if p[0] == "none": return "PNone"
    if p[0] == "empty": return "PEmpty"
    if p[0] == "text": return "PText"
    if p[0] == "fb": return f"(PFallback {FB[p[1]]})"
    if p[0] == "self": return f"(PSelf {int(p[1])} {c_payload(p[2])})"
    raise Undecodable(p)


def c_ret(r): return f"({'RPlain' if r[0] == 'plain' else 'RCallResult'} {c_payload(r[1])})"
def c_exn(e): return f"({'EApp' if e[0] == 'app' else 'EOther'} {int(e[1])} {c_payload(e[2])})"
def c_result(r): return f"(ROk {c_ret(r[1])})" if r[0] == "ok" else f"(RErr {c_exn(r[1])})"


def c_beh(bh):
    f = bh["fin"]
    fin = {"ret": lambda: f"(FReturn {c_ret(f[1])})", "raise": lambda: f"(FRaise {c_exn(f[1])})", "pend": lambda: "FPending"}[f[0]]()
    return "{| b_pre := [" + "; ".join(c_payload(p) for p in bh["pre"]) + f"]; b_fin := {fin} |}}"


def c_op(o):
    k = o[0]
    if k == "reg":
        check, sig = (o[4], o[5]) if len(o) >= 7 else (False, "ok")
        return (f"ORegister {o[1]} {{| r_details := {b(o[2])}; r_coro := {b(o[3])}; r_check := {b(check)}; "
                f"r_sig := {SIG[sig]}; r_obj := None |}}")
    if k == "unreg": return f"OUnregister {o[1]}"
    if k == "inv": return f"OInvocation {o[1]} {o[2]} {c_payload(o[3])} {c_idet(o[4])} {c_ob(o[5])} {c_beh(o[6])}"
    if k == "int": return f"OInterrupt {o[1]}"
    if k == "res": return f"OResolve {o[1]} {c_result(o[2])}"
    if k == "prog": return f"OProgress {o[1]} {c_payload(o[2])}"
    if k == "lose": return "OLose"
    if k == "turn": return "OTurn"
    raise Undecodable(o)


def c_uri(u):
    return {"app": lambda: f"(UApp {u[1]})", "runtime": lambda: "URuntime", "type_check": lambda: "UTypeCheck", "invalid_payload": lambda: "UInvalidPayload",
            "payload_exceeded": lambda: "UPayloadExceeded"}.get(u[0], lambda: (_ for _ in ()).throw(Undecodable(u)))()


def c_out(e):
    k = e[0]
    if k == "acc": return f"OAccepted {e[1]} {e[2]} {e[3]} {c_payload(e[4])} {c_idet(e[5])} {c_ob(e[6])} {b(e[7])}"
    if k == "called":
        det = "None" if e[5] is None else f"(Some (({c_on(e[5][0][0])}, {c_on(e[5][0][1])}, {nn(e[5][0][2])}), {b(e[5][1])}))"
        return f"OCalled {nn(e[1])} {nn(e[2])} {nn(e[3])} {c_payload(e[4])} {det}"
    if k == "sent":
        m = e[1]
        if m[0] == "yield": return f"OSent (MYield {m[1]} {b(m[2])} {c_payload(m[3])} {b(m[4])})"
        return f"OSent (MError {m[1]} {c_uri(m[2])} {c_payload(m[3])})"
    if k == "raised": return f"ORaised {'InOnMessage' if e[1] == 'msg' else 'InCallback'} {xc(e[2])}"
    if k == "prograised": return f"OProgRaised {e[1]} {xc(e[2])}"
    raise Undecodable(e)


def c_sres(r):
    if r == "sent": return "Sent"
    if r == "ser": return "SerErr"
    if r == "exc": return "Exceeded"
    return f"(OtherExn {xc(r[1])})"


def c_spec(fw, tr):
    if tr["kind"] == "fake":
        return "(CTbl (" + ", ".join(c_sres(r) for r in tr["tbl"]) + "))"
    if tr["kind"] == "ws": return "CWs"
    return "CRsTx" if fw == "tx" else "CRsAio"


def model_ops(case):
    """the history as the model sees it: with a real transport the driver runs the loop after every op"""
    if case["transport"]["kind"] == "fake":
        return case["ops"]
    out = []
    for o in case["ops"]:
        out.append(o)
        if o[0] != "turn": out.append(["turn"])
    return out


def coq_case(fw, case, log):
    ecls = "[" + "; ".join(f"({c}, {u})" for c, u in case.get("ecls", [])) + "]"
    segs, cur = [], []
    for o in model_ops(case):
        if o[0] == "regobj":            # the model's reading of session.register(obj, options=.., prefix=..)
            if cur: segs.append("[" + ";\n   ".join(cur) + "]"); cur = []
            ms = "; ".join(f"({r}, {c_ob(own)}, {b(co)})" for r, own, co in o[5])
            segs.append(f"reg_object {o[1]} {c_ob(o[3])} [{ms}]")
        else:
            cur.append(c_op(o))
    if cur or not segs: segs.append("[" + ";\n   ".join(cur) + "]")
    ops = "(" + " ++\n   ".join(segs) + ")"
    outs = "[" + ";\n   ".join(c_out(e) for e in log if e[0] != "op") + "]"
    return f"({'Tx' if fw == 'tx' else 'Aio'}, {c_spec(fw, case['transport'])}, {ecls},\n  {ops},\n  {outs})"


# ---------------------------------------------------------------------------------------------------------------
# generators
# ---------------------------------------------------------------------------------------------------------------
OK_TBL = ["sent", "ser", "exc"]
TABLES = [OK_TBL] * 6 + [
    ["sent", ["other", "TypeError"], "exc"],          # un-serializable escapes as a raw TypeError
    ["sent", "ser", ["other", "ValueError"]],         # oversized escapes as ValueError
    ["sent", "exc", "ser"], ["sent", "sent", "exc"], ["sent", "ser", "sent"],
    [["other", "KeyError"], "ser", "exc"],            # a transport whose send() always fails
    ["sent", ["other", "AttributeError"], ["other", "TypeError"]],
]


def g_reg(rng, reg, p_details=0.65, p_coro=0.3):
    """registration: details, coroutine, check_types on/off, how the arguments fit, signature kind"""
    check = rng.random() < 0.3
    r = rng.random()
    sig = "ok" if r < 0.84 else ("short" if r < 0.91 else "ill")
    kind = rng.choice(KINDS if sig != "ill" else [k for k in KINDS if k != "both"])
    return ["reg", reg, rng.random() < p_details, rng.random() < p_coro and not check, check, sig, kind, rng.random() < 0.3]


FLAVOURS = ["truthy", "empty", "false", "flip", "oddeq"]


def g_regobj(rng, oid, regs):
    """session.register(obj, options, prefix): decorated methods with / without own options in any order, call-level
    options absent / without / with details, an instance that may be falsy, change truthiness, or compare oddly"""
    methods = [[r, rng.choice([None, None, False, True]), rng.random() < 0.25] for r in regs]
    return ["regobj", oid, rng.choice(FLAVOURS), rng.choice([None, False, True]), rng.random() < 0.3, methods]


def g_rp(rng):
    """receive_progress in INVOCATION.Details: absent / explicitly false / true"""
    return rng.choice([None, None, False, False, True, True, True, True])


def g_idet(rng):
    """caller, caller_authid (0 = empty string), procedure, timeout: each absent or present (falsy values included)"""
    return [rng.choice([None, rng.randint(1, 9)]), rng.choice([None, None, 0, rng.randint(1, 9)]),
            rng.choice([None, None, 900 + rng.randint(0, 9)]), rng.choice([None, None, 0, 30000])]


def g_payload(rng, pool, allow_empty=True):
    r = rng.random()
    pool[0] += 1
    i = pool[0]
    if r < 0.62: return ["val", i, False, False]
    if r < 0.76: return ["val", i, True, False]
    if r < 0.90: return ["val", i, False, True]
    if r < 0.94: return ["val", i, True, True]
    return ["empty"] if allow_empty else ["val", i, False, False]


def g_ret(rng, pool):
    r = rng.random()
    if r < 0.12: return ["plain", ["none"]]
    p = g_payload(rng, pool)
    if p[0] == "empty": return ["cr", p]
    return [rng.choice(["plain", "plain", "cr"]), p]


def g_exn(rng, pool):
    p = g_payload(rng, pool)
    r = rng.random()
    if r < 0.5: return ["app", rng.choice([3, 4]), p]
    return ["other", rng.choice([1, 2]), p]           # class 1 is registered with define(), class 2 is not


def g_beh(rng, pool, p_pend=0.4):
    n = rng.choice([0, 0, 0, 0, 0, 1, 1, 2, 3])
    pre = [g_payload(rng, pool) for _ in range(n)]
    r = rng.random()
    if r < p_pend: fin = ["pend"]
    elif r < p_pend + (1 - p_pend) * 0.62: fin = ["ret", g_ret(rng, pool)]
    else: fin = ["raise", g_exn(rng, pool)]
    return {"pre": pre, "fin": fin}


def drain(ops, ninv, fw):
    """finish everything: resolve every call that may still be pending, run the loop"""
    ops.append(["turn"])
    for k in range(ninv):
        ops.append(["res", k, ["ok", ["plain", ["val", 9000 + k, False, False]]]])
    ops.append(["turn"]); ops.append(["turn"])


def gen_fake(rng, fw, nops):
    pool = [0]
    ops, regs = [], []
    if rng.random() < 0.35:
        regs += [100, 101] + ([102] if rng.random() < 0.5 else [])
        ops.append(g_regobj(rng, 1, list(regs)))
    else:
        for i in range(rng.choice([1, 2, 2, 3])):
            regs.append(100 + i)
            ops.append(g_reg(rng, 100 + i))
    reqs, ninv, argid, pend_guess = [], 0, 1000, []
    lost = False
    for _ in range(nops):
        r = rng.random()
        if r < 0.34 or not reqs:
            if len(pend_guess) >= 3 and rng.random() < 0.8:
                ops.append(["turn"]); continue
            q = rng.random()
            if q < 0.86 or not reqs: req = (max(reqs) + 1) if reqs else rng.choice([1, 7, 9007199254740000])
            else: req = rng.choice(reqs)
            g = rng.random()
            reg = rng.choice(regs) if g < 0.93 else 555
            argid += 1
            bh = g_beh(rng, pool)
            ops.append(["inv", req, reg, ["val", argid, False, False], g_idet(rng), g_rp(rng), bh])
            reqs.append(req)
            if reg != 555:
                if bh["fin"][0] == "pend": pend_guess.append(ninv)
                ninv += 1
        elif r < 0.50:
            req = rng.choice(reqs) if rng.random() < 0.92 else 424242
            ops.append(["int", req])
        elif r < 0.66:
            k = rng.choice(pend_guess) if pend_guess and rng.random() < 0.8 else rng.randint(0, max(0, ninv))
            res = ["ok", g_ret(rng, pool)] if rng.random() < 0.6 else ["err", g_exn(rng, pool)]
            ops.append(["res", k, res])
            if k in pend_guess: pend_guess.remove(k)
        elif r < 0.78:
            k = rng.randint(0, max(0, ninv - 1)) if ninv else 0
            ops.append(["prog", k, g_payload(rng, pool)])
        elif r < 0.92:
            ops.append(["turn"])
        elif r < 0.95:
            ops.append(["unreg", rng.choice(regs)])
        elif r < 0.975:
            reg = rng.choice(regs + [100 + len(regs)])
            if reg not in regs: regs.append(reg)
            ops.append(g_reg(rng, reg, 0.6))
        elif not lost and rng.random() < 0.5:
            ops.append(["lose"]); lost = True
        else:
            ops.append(["turn"])
    drain(ops, ninv, fw)
    return {"transport": {"kind": "fake", "tbl": rng.choice(TABLES)}, "ecls": [[1, 5]], "ops": ops}


def gen_real(rng, fw, kind, role, ser, nops):
    """valid conversations only (a ProtocolError makes a real transport drop the connection)"""
    pool = [0]
    ops = [["reg", 100, True, False, rng.random() < 0.4, "ok", rng.choice(KINDS)],
           ["reg", 101, False, rng.random() < 0.5, False, "ok", rng.choice(KINDS)]]
    ninv, argid, req, pend = 0, 2000, 0, []
    for _ in range(nops):
        r = rng.random()
        if r < 0.5 or ninv == 0:
            req += 1; argid += 1
            bh = g_beh(rng, pool, p_pend=0.3)
            ops.append(["inv", req, rng.choice([100, 100, 101]), ["val", argid, False, False], g_idet(rng), g_rp(rng), bh])
            if bh["fin"][0] == "pend": pend.append((ninv, req))
            ninv += 1
        elif r < 0.7 and pend:
            k, q = pend.pop(rng.randrange(len(pend)))
            ops.append(["res", k, ["ok", g_ret(rng, pool)] if rng.random() < 0.6 else ["err", g_exn(rng, pool)]])
        elif r < 0.82 and pend:
            k, q = pend.pop(rng.randrange(len(pend)))
            ops.append(["int", q])
        elif r < 0.92 and ninv:
            ops.append(["prog", rng.randint(0, ninv - 1), g_payload(rng, pool)])
        else:
            ops.append(["turn"])
    drain(ops, ninv, fw)
    return {"transport": {"kind": kind, "role": role, "ser": ser, "limit": 512}, "ecls": [[1, 5]], "ops": ops}


def fixed_real(fw, kind, role, ser):
    """the endpoint outcomes of the quantifier, one invocation each, on one real transport"""
    V = lambda i, u=False, g=False: ["val", i, u, g]
    outcomes = [["ret", ["plain", V(1)]], ["ret", ["plain", ["none"]]], ["ret", ["cr", V(2)]], ["ret", ["cr", ["empty"]]],
                ["ret", ["plain", V(3, True)]], ["ret", ["plain", V(4, False, True)]], ["ret", ["cr", V(5, True)]],
                ["ret", ["cr", V(6, False, True)]], ["raise", ["app", 3, V(7)]], ["raise", ["other", 1, V(8)]],
                ["raise", ["other", 2, V(9)]], ["raise", ["app", 3, V(10, True)]], ["raise", ["app", 3, V(11, False, True)]],
                ["raise", ["other", 2, V(12, True)]], ["raise", ["other", 2, V(13, False, True)]], ["raise", ["app", 4, ["empty"]]]]
    cases = []
    ops = [["reg", 100, True, False], ["reg", 101, False, False]]
    for i, f in enumerate(outcomes):
        ops.append(["inv", i + 1, 100 + (i % 2), V(3000 + i), 5, True, {"pre": [], "fin": f}])
    cases.append({"transport": {"kind": kind, "role": role, "ser": ser, "limit": 512}, "ecls": [[1, 5]], "ops": ops})
    # pending results resolved / failed later with every payload class, progress before, interrupt
    ops = [["reg", 100, True, False]]
    k = 0
    for i, f in enumerate(outcomes):
        res = ["ok", f[1]] if f[0] == "ret" else ["err", f[1]]
        ops += [["inv", 100 + i, 100, V(3100 + i), 6, i % 3 != 0, {"pre": [V(50 + i)] if i % 3 == 1 else [], "fin": ["pend"]}],
                ["prog", k, V(70 + i, i % 5 == 4, i % 7 == 6)], ["res", k, res]]
        k += 1
    ops += [["inv", 900, 100, V(3900), 6, True, {"pre": [], "fin": ["pend"]}], ["prog", k, V(90)], ["int", 900], ["prog", k, V(91)]]
    cases.append({"transport": {"kind": kind, "role": role, "ser": ser, "limit": 512}, "ecls": [[1, 5]], "ops": ops})
    # exact size boundary: the SERIALIZED terminal message is limit-1, limit, limit+1 octets long
    L = 512
    ops = [["reg", 100, True, False]]
    k = 0
    for j, target in enumerate((L - 1, L, L + 1, L - 1, L, L + 1)):
        p = ["val", 400 + j, False, target > L, target]
        if j < 3:
            ops.append(["inv", 200 + j, 100, V(3200 + j), 4, False, {"pre": [], "fin": ["ret", ["plain", p]]}])
        else:
            ops += [["inv", 200 + j, 100, V(3200 + j), 4, False, {"pre": [], "fin": ["pend"]}], ["res", k, ["ok", ["plain", p]]]]
        k += 1
    for j, target in enumerate((L - 1, L, L + 1)):
        ops.append(["inv", 300 + j, 100, V(3300 + j), 4, False,
                    {"pre": [], "fin": ["raise", ["app", 3, ["val", 500 + j, False, target > L, target]]]}])
    cases.append({"transport": {"kind": kind, "role": role, "ser": ser, "limit": L}, "ecls": [[1, 5]], "ops": ops})
    cases.append(sig_case({"kind": kind, "role": role, "ser": ser, "limit": 512}, coro=(role == "client")))
    cases.append(tristate_case({"kind": kind, "role": role, "ser": ser, "limit": 512}, coro=(role == "server")))
    cases.append(object_case({"kind": kind, "role": role, "ser": ser, "limit": 512},
                             FLAVOURS[(len(ser) + (role == "client") + 2 * (kind == "ws")) % len(FLAVOURS)], coro=(role == "client")))
    return [norm_case(c) for c in cases]


def object_case(transport, flavour, coro=False):
    """object registration: methods with own options (details / no details) and without, in both orders, under
    call-level options absent / without details / with details, with and without prefix; one invocation per method
    with receive_progress so that a leaked or missing details argument shows"""
    V = lambda i: ["val", i, False, False]
    ops, reg, req, oid = [], 100, 0, 0
    for call in (None, False, True):
        for order in ([True, None, False], [None, True], [False, None, True, None]):
            oid += 1
            methods = [[reg + i, own, coro and i % 2 == 1] for i, own in enumerate(order)]
            ops.append(["regobj", oid, flavour, call, oid % 2 == 0, methods])
            for r, own, co in methods:
                req += 1
                ops.append(["inv", req, r, V(3800 + req), [4, None, None], True,
                            {"pre": [V(700 + req)] if (own if own is not None else bool(call)) else [], "fin": ["ret", ["plain", V(750 + req)]]}])
            reg += len(order)
    ops += [["reg", reg, True, coro, False, "ok", "varkw", True], ["inv", req + 1, reg, V(3800 + req + 1), [None, None, None], None,
            {"pre": [], "fin": ["ret", ["plain", V(799)]]}], ["turn"], ["turn"]]
    return {"transport": transport, "ecls": [[1, 5]], "ops": ops}


def norm_case(case):
    """older case files / fixed histories write the INVOCATION details as (caller, receive_progress: bool); spread the
    'not requested' ones over the two ways of not requesting: option absent (odd request id) / explicitly false"""
    ops = []
    for o in case["ops"]:
        if o[0] == "inv" and isinstance(o[4], int):
            o = [o[0], o[1], o[2], o[3], [o[4], None, None], True if o[5] else (None if o[1] % 2 else False), o[6]]
        ops.append(o)
    return dict(case, ops=ops)


def tristate_case(transport, coro=False):
    """INVOCATION.Details options absent / falsy / set: receive_progress {absent, false, true} x registration with and
    without details x an endpoint that reports progress whenever details.progress is callable (the documented idiom
    is exercised by the driver's endpoint: it calls progress and fails if it is None), plus caller / caller_authid
    (absent, "", "a5") / procedure (absent, given) / timeout (absent, 0, n) in every combination with receive_progress"""
    V = lambda i: ["val", i, False, False]
    ops = [["reg", 100, True, coro], ["reg", 101, False, coro]]
    req = 0
    idets = [[None, None, None, None], [7, 0, None, 0], [7, 5, 905, 30000], [None, 3, 906, None]]
    for reg in (100, 101):
        for rp in (None, False, True):
            for j, idet in enumerate(idets):
                req += 1
                pre = [V(800 + req)] if (j % 2 == 0) else []
                ops.append(["inv", req, reg, V(3600 + req), idet, rp, {"pre": pre, "fin": ["ret", ["plain", V(850 + req)]]}])
                if j == 3 and reg == 100:       # a pending endpoint trying progress later
                    req += 1
                    k = len([o for o in ops if o[0] == "inv"])          # call index of the invocation added next
                    ops += [["inv", req, reg, V(3600 + req), idet, rp, {"pre": [], "fin": ["pend"]}], ["turn"],
                            ["prog", k, V(800 + req)]]
    ops += [["turn"]]
    n = len([o for o in ops if o[0] == "inv"])
    for k in range(n): ops.append(["res", k, ["ok", ["plain", V(9000 + k)]]])
    ops += [["turn"], ["turn"]]
    return {"transport": transport, "ecls": [[1, 5]], "ops": ops}


def sig_case(transport, coro=False):
    """registration options (check_types on/off, details on/off) x endpoint signature kinds, plus arguments that
    do not bind / contradict a type hint; one invocation each, the endpoints report exactly what they received"""
    V = lambda i: ["val", i, False, False]
    ops, reg, req = [], 100, 0
    for check in (False, True):
        for kind in KINDS:
            for wants in (False, True):
                ops.append(["reg", reg, wants, coro and not check, check, "ok", kind])
                req += 1
                ops.append(["inv", req, reg, V(3400 + req), 3, wants and req % 2 == 0,
                            {"pre": [V(600 + req)] if wants and req % 2 == 0 else [], "fin": ["ret", ["plain", V(700 + req)]]}])
                reg += 1
        for sig, kind in (("short", "fixed"), ("ill", "fixed"), ("ill", "varkw")):
            ops.append(["reg", reg, False, coro and not check, check, sig, kind])
            req += 1
            ops.append(["inv", req, reg, V(3400 + req), 3, False, {"pre": [], "fin": ["ret", ["plain", V(700 + req)]]}])
            reg += 1
    ops += [["turn"], ["turn"]]
    return {"transport": transport, "ecls": [[1, 5]], "ops": ops}


# ---------------------------------------------------------------------------------------------------------------
# the property oracle (from the property text; knows nothing about the model)
# ---------------------------------------------------------------------------------------------------------------
def pid(p):
    """id of the application payload token inside a (possibly self-prefixed) payload"""
    if p and p[0] == "self": p = p[2]
    return p[1] if p and p[0] == "val" else None


def reg_entries(o):
    """the registrations an op creates, as ["reg", reg, wants, coro, check, sig, kind, prefix, obj id]:
    for an object each method with ITS effective options (own decorator options, else the call-level ones)"""
    if o[0] == "reg":
        return [list(o) + [False, "ok", "both", False, None][max(0, len(o) - 4):]]
    if o[0] == "regobj":
        return [["reg", r, (own if own is not None else bool(o[3])), co, False, "ok", "both", o[4], o[1]] for r, own, co in o[5]]
    return []


def transport_name(fw, tr):
    if tr["kind"] == "fake": return "fake"
    return {"ws": "websocket", "rs": "rawsocket"}[tr["kind"]] + "." + ("twisted" if fw == "tx" else "asyncio")


def oracle(fw, case, log):
    """-> list of (key, what) ; the log is what the REAL session did"""
    tr, ops = case["transport"], case["ops"]
    viol = []
    ok_transport = tr["kind"] != "fake" or tr["tbl"] == OK_TBL
    stayed_up = not any(o[0] == "lose" for o in ops)
    tname = transport_name(fw, tr)
    opidx, cur = {}, -1             # id(log entry) -> index of the history op that produced it
    for e in log:
        if e[0] == "op": cur = e[1]
        else: opidx[id(e)] = cur
    acc = [e for e in log if e[0] == "acc"]
    acc_by_req = {}
    for e in acc: acc_by_req.setdefault(e[2], []).append(e)
    term = {}
    for i, e in enumerate(log):
        if e[0] == "sent" and (e[1][0] == "error" or not e[1][4]):
            term.setdefault(e[1][1], []).append(i)
    inv_by_arg = {o[3][1]: o for o in ops if o[0] == "inv"}
    # which registration (options, signature) an INVOCATION op met: the reg op that created the registration that
    # is active at that point (a REGISTERED for an id that is still registered is refused and changes nothing)
    segs, cur = {}, None
    for e in log:
        if e[0] == "op": cur = e[1]; segs[cur] = []
        elif cur is not None: segs[cur].append(e)
    reg_of_inv, active_reg, j0, active_at = {}, {}, True, {}
    for i, o in enumerate(ops):
        active_at[i] = active_reg.copy() if o[0] == "inv" else None
        if o[0] in ("reg", "regobj") and j0:
            for r in reg_entries(o):
                if r[1] not in active_reg: active_reg[r[1]] = r
        elif o[0] == "unreg" and j0: active_reg.pop(o[1], None)
        elif o[0] == "lose": j0 = False
        elif o[0] == "inv": reg_of_inv[o[3][1]] = active_reg.get(o[2])
    active_reg_final = {r[1]: r for o in ops for r in reg_entries(o)}
    def unfit(o):
        """the caller's arguments do not fit the endpoint (no binding; or type hint violated under check_types)"""
        r = reg_of_inv.get(o[3][1])
        if r is None or len(r) < 7: return False
        return r[5] == "short" or (r[5] == "ill" and r[4])
    interrupted = {o[1] for o in ops if o[0] == "int"}
    # 0. an endpoint that received something else than the caller's args/kwargs: report that and nothing derived from it
    for e in log:
        if e[0] == "called" and e[4][0] == "bad":
            r = (active_at.get(opidx.get(id(e), -1)) or {}).get(e[3]) or active_reg_final.get(e[3])
            flav = next((o[2] for o in ops if o[0] == "regobj" and r is not None and len(r) > 8 and o[1] == r[8]), None)
            opts = (f"object/{flav}" if flav else f"check_types={bool(r[4])}/{r[6]}") if r is not None and len(r) >= 7 else "plain"
            return [(f"session.invocation/argument-fidelity/{opts}",
                     f"endpoint of registration {e[3]} ({opts}) received {e[4][1]} instead of the caller's args/kwargs", e[3])]
    # 1. exactly one terminal reply per accepted invocation (histories end with everything finished)
    for req in sorted(set(acc_by_req) | set(term)):
        na, nt = len(acc_by_req.get(req, [])), len(term.get(req, []))
        if nt > na:
            viol.append((f"session/duplicate-terminal-reply/{tname}", f"{nt} terminal replies for request {req}, {na} invocations", req))
        elif nt < na and stayed_up and ok_transport:
            # which result was to be delivered?  (for the key only)
            cands = []                      # (path, unser, big) of the first result each call's on_reply got
            for a in acc_by_req[req]:
                o = inv_by_arg.get(pid(a[4]))
                cand = None
                if o:
                    f = o[6]["fin"]
                    if f[0] == "ret": cand = ("return", f[1][1])
                    if f[0] == "raise": cand = ("raise", f[1][2])
                if cand is None:
                    at = opidx.get(id(a), -1)
                    for i, r in enumerate(ops):
                        if i > at and r[0] == "res" and r[1] == a[1]:
                            cand = ("return", r[2][1][1]) if r[2][0] == "ok" else ("raise", r[2][1][2])
                            break
                if cand and cand[1][0] == "val" and (cand[1][2] or cand[1][3]):
                    cands.append((cand[0], cand[1][2], cand[1][3]))
            raised = [e[2] for e in log if e[0] == "raised" and e[1] == "cb"]
            path, cls = (cands[0][0], "unserializable" if cands[0][1] else "oversized") if cands else ("?", "normal")
            odd = [x for x in raised if x not in ("KeyError", "PayloadExceededError", "SerializationError", "AttributeError")]
            if tname == "rawsocket.twisted" and any(u for _, u, _ in cands) and odd:
                key, path, cls = f"rawsocket.twisted.send/unserializable/{odd[0]}", "return/raise", "unserializable"
            elif tname == "rawsocket.asyncio" and any(g for _, _, g in cands) and "ValueError" in raised:
                key, path, cls = "rawsocket.asyncio.send/oversized/ValueError", "return/raise", "oversized"
            elif any(pth == "return" and g for pth, _, g in cands) and "PayloadExceededError" in raised + (["PayloadExceededError"] if fw == "aio" and "KeyError" in raised else []):
                key, path, cls = "session.success/oversized-result/fallback-ERROR-embeds-payload", "return", "oversized"
            else:
                key = f"session/no-terminal-reply/{tname}/{path}/{cls}"
            viol.append((key, f"no terminal reply for request {req} on {tname} ({path} {cls} payload); "
                              f"exceptions out of the reply callback: {sorted(set(raised))}", req))
    # 1b. an INVOCATION for an active registration whose request id is not being processed must be taken
    #     (bookkeeping from the history and the log only: #accepted - #terminal replies so far)
    regs_active, joined, n_acc, n_term = set(), True, {}, {}
    for i, o in enumerate(ops):
        seg = segs.get(i, [])
        rejected = any(e[0] == "raised" and e[1] == "msg" for e in seg)
        if o[0] == "reg" and joined and not rejected: regs_active.add(o[1])
        elif o[0] == "regobj" and joined:
            # per method: a REGISTERED for an id that is still registered is refused (one ProtocolError each, in order)
            for r in reg_entries(o): regs_active.add(r[1])
        elif o[0] == "unreg" and joined: regs_active.discard(o[1])
        elif o[0] == "lose": joined = False
        elif o[0] == "inv" and joined and ok_transport and o[2] in regs_active:
            req = o[1]
            if n_acc.get(req, 0) == n_term.get(req, 0) and not any(e[0] == "acc" for e in seg):
                viol.append(("session.invocation/rejected-although-not-in-progress",
                             f"INVOCATION request {req} for active registration {o[2]} refused ({[e[2] for e in seg if e[0] == 'raised']}) "
                             f"although every earlier invocation with that id had been answered", req))
        for e in seg:
            if e[0] == "acc": n_acc[e[2]] = n_acc.get(e[2], 0) + 1
            if e[0] == "sent" and (e[1][0] == "error" or not e[1][4]): n_term[e[1][1]] = n_term.get(e[1][1], 0) + 1
    # 1c. the terminal reply is a YIELD carrying the endpoint's return value when that value is serializable and within
    #     the size limit (and nothing else interfered: no INTERRUPT, no failing progress call, arguments fit)
    if stayed_up and ok_transport:
        for a in acc:
            o = inv_by_arg.get(pid(a[4]))
            if o is None or a[2] in interrupted or len(acc_by_req.get(a[2], [])) != 1: continue
            pre = o[6]["pre"]
            if pre and not (a[6] is True and a[7]): continue
            if any(pp[0] == "val" and (pp[2] or pp[3]) for pp in pre): continue
            f, val = o[6]["fin"], None
            if f[0] == "ret": val = f[1]
            elif f[0] == "pend":
                entered = next((e for e in log if e[0] == "called" and e[1] == a[1]), None)
                if entered is None: continue
                at = opidx.get(id(entered), -1)      # a result set before the body ran has no future to land in
                first = next((r for i, r in enumerate(ops) if i > at and r[0] == "res" and r[1] == a[1]), None)
                if first is not None and first[2][0] == "ok": val = first[2][1]
            terms = [log[i] for i in term.get(a[2], [])]
            if unfit(o):
                if len(terms) == 1 and terms[0][1][0] != "error":
                    viol.append(("session.invocation/unfit-arguments-not-rejected", f"arguments that do not fit the endpoint were answered by {terms[0]}", a[2]))
                continue
            if val is None or len(terms) != 1: continue
            p = val[1]
            if p[0] == "val" and (p[2] or p[3]): continue
            want = ["yield", a[2], val[0] == "plain", p[:4], False]
            if terms[0][1] != want:
                tgt = f"/size={p[4]}-of-limit-{tr.get('limit')}" if len(p) > 4 else ""
                viol.append((f"session.success/value-not-yielded/{tname}", f"endpoint returned {p}{tgt} (serializable, within the limit) "
                             f"but the terminal reply is {terms[0][1]} instead of the YIELD carrying it", a[2]))
    # 2. progressive results: only if requested, only before the terminal reply
    for i, e in enumerate(log):
        if e[0] == "sent" and e[1][0] == "yield" and e[1][4]:
            req = e[1][1]
            before = [a for a in acc if log.index(a) < i and a[2] == req]
            if not any(a[6] is True and a[7] for a in before):      # receive_progress must be TRUE (not merely present)
                why = ("no-details-argument" if before and not any(a[7] for a in before) else
                       "receive_progress=false" if any(a[6] is False for a in before) else
                       "receive_progress-absent" if before else "no-invocation")
                viol.append((f"session.progress/not-requested/{why}", f"progressive YIELD for request {req} although the caller did not ask ({why})", req))
            if len(acc_by_req.get(req, [])) == 1 and any(j < i for j in term.get(req, [])):
                viol.append(("session.progress/after-terminal-reply", f"progressive YIELD for request {req} sent after its terminal reply", req))
    # 3. the endpoint sees exactly the caller's arguments (+ details iff asked)
    calls = {}
    for e in log:
        if e[0] == "called":
            calls[e[1]] = calls.get(e[1], 0) + 1
            a = next((x for x in acc if x[1] == e[1]), None)
            o = inv_by_arg.get(pid(e[4]))
            r = reg_of_inv.get(pid(e[4]))
            oid = r[8] if r is not None and len(r) > 8 else None
            good = (a is not None and o is not None and e[2] == o[1] and e[3] == o[2]
                    and e[4] == (o[3] if oid is None else ["self", oid, o[3]]))      # the instance first, then the caller's arguments
            if good and r is not None and bool(a[7]) != bool(r[2]):
                good = False        # registered with / without a details argument against the options this endpoint asked for
            if good:
                wants = a[7]
                exp = [o[4][0], o[4][1], o[4][2] if o[4][2] is not None else o[2]]     # procedure defaults to the registration's
                good = (e[5] is None) == (not wants) and (e[5] is None or (e[5][0] == exp and e[5][1] == (o[5] is True and wants)))
            if not good:
                viol.append(("session.invocation/argument-fidelity", f"endpoint call {e} does not match the INVOCATION {o}", e[2]))
    for a in acc:
        o = inv_by_arg.get(pid(a[4]))
        if o is not None and unfit(o) and a[1] in calls:
            viol.append(("session.invocation/unfit-arguments-not-rejected", f"endpoint entered although the arguments do not fit: {a}", a[2]))
    for k, n in calls.items():
        if n != 1: viol.append(("session.invocation/called-twice", f"endpoint call {k} entered {n} times", k))
    if fw == "tx":
        for a in acc:
            o = inv_by_arg.get(pid(a[4]))
            if o is not None and unfit(o): continue
            if a[1] not in calls: viol.append(("session.invocation/not-called", f"accepted invocation {a} never reached the endpoint", a[2]))
    return viol


# ---------------------------------------------------------------------------------------------------------------
def shrink(ck, fw, case, key, rounds=12):
    """delta debugging, one driver process per round: all candidates of a round (halves, quarters, single ops
    removed) run together; keep the smallest history for which the oracle still reports the same key"""
    ops = list(case["ops"])
    for _ in range(rounds):
        n = len(ops)
        cands = []
        for sz in sorted({max(1, n // 2), max(1, n // 4), 1}, reverse=True):
            for i in range(0, n, sz):
                c = ops[:i] + ops[i + sz:]
                if c and c not in cands: cands.append(c)
        if not cands: break
        res = ck.run_impl(DRIVER, {"fw": fw, "cases": [dict(case, ops=c) for c in cands]}, timeout=600)["results"]
        failing = [c for c, r in zip(cands, res)
                   if not any(e[0] == "other" for e in r["log"])
                   and any(k == key for k, _, _ in oracle(fw, dict(case, ops=c), r["log"]))]
        if not failing: break
        ops = min(failing, key=len)
    return dict(case, ops=ops)


def load_corpus():
    out = []
    for f in sorted(glob.glob(os.path.join(vlib.ROOT, "corpus", "C10", "*.json"))):
        j = json.load(open(f))
        out.append((os.path.basename(f), j))
    return out


def run(ck):
    ck.rule.append(
        "op histories (register/unregister, INVOCATION with an endpoint behaviour {returns plain/None/CallResult, small/"
        "un-serializable/oversized; raises ApplicationError/registered/unregistered class; returns a pending result "
        "resolved or failed later; coroutine; emits 0-3 progressive results, also after finishing}, INTERRUPT, transport "
        "loss, loop turns; <= 3 concurrent; object registrations (decorated methods with / without own options in every order x "
        "call-level options x prefix x instances that are falsy / change truthiness / compare oddly); registrations with check_types on/off x endpoint signature kinds {fixed, defaults, "
        "*args, **kwargs, both, keyword-only} x arguments that fit / do not bind / contradict a type hint, the endpoints "
        "reporting exactly what they received) over (a) the wampdrv fake transport with a scripted send() classification "
        "table and (b) the real WampWebSocket{Server,Client}Protocol / WampRawSocket{Server,Client}Protocol (Twisted and "
        "asyncio, json/msgpack/cbor, limit 512) fed with octets, including results and error arguments whose SERIALIZED "
        "message is exactly limit-1, limit, limit+1 octets; non-trivial = at least one INVOCATION accepted; distinct "
        "= distinct (framework, transport, history)")
    ck.extra_tb += [
        "modelled, not verified: txaio future semantics (Twisted addCallbacks runs synchronously and does not route a "
        "failure of `success` to `error`; asyncio add_done_callback defers to the next loop iteration and routes it), "
        "asyncio Task start/cancel/wake-up order, Python's `del d[k]` / None.attr exceptions, maybeDeferred/ensureDeferred",
        "modelled, not verified: payload size and serializability are abstract flags of a payload token; the fallback "
        "ERROR texts of success()/error() are taken to be small and serializable (checked on the real transports: "
        "700-octet results against a 512-octet limit; a fallback text that embeds the payload again is reported)",
        "payload encryption (payload codec / enc_algo), traceback_app, CallDetails fields other than caller/progress, "
        "forward_for/callee options of CallResult are outside the model; a caller kwarg named like details_arg is "
        "overwritten by the CallDetails (not modelled)",
        "oracle assumptions: a failure left in on_reply after the session's (success, error) pair is observed by an "
        "errback appended behind it (Twisted) / the loop exception handler (asyncio); what reached the wire is decoded "
        "from the transport's output (real transports: from the octets, with a second serializer instance)",
    ]
    broken = ck.coq_props()
    ck.log(f"property file built: {len(ck.obligations)} obligations, broken: {broken}")
    ok, out = vlib.coq_make(["Model/SessionInvRun.vo"])
    if not ok:
        raise RuntimeError("SessionInvRun build failed: " + out[-1500:])

    quick = ck.quick()
    n_fake = 800 if quick else 6000
    n_real_rand = 4 if quick else 30
    batches = []          # (fw, [cases], [labels])
    for fw in ("tx", "aio"):
        cases, labels = [], []
        for name, j in load_corpus():
            if j.get("fw") in (None, fw):
                cases.append(norm_case(j["case"])); labels.append("corpus:" + name)
        for coro in (False, True):
            cases.append(norm_case(sig_case({"kind": "fake", "tbl": OK_TBL}, coro))); labels.append("fake-signatures")
            cases.append(tristate_case({"kind": "fake", "tbl": OK_TBL}, coro)); labels.append("fake-tristate")
            for fl_ in FLAVOURS:
                cases.append(object_case({"kind": "fake", "tbl": OK_TBL}, fl_, coro)); labels.append("fake-objects")
        rng = ck.rng("fake/" + fw)
        for i in range(n_fake):
            cases.append(gen_fake(rng, fw, rng.choice([4, 6, 8, 10, 12, 16] if quick else [4, 8, 12, 16, 24])))
            labels.append("fake")
        rng = ck.rng("real/" + fw)
        for kind in ("ws", "rs"):
            for role in ("server", "client"):
                for ser in ("json", "msgpack", "cbor"):
                    for c in fixed_real(fw, kind, role, ser):
                        cases.append(c); labels.append("real-fixed")
                    for i in range(n_real_rand):
                        cases.append(gen_real(rng, fw, kind, role, ser, rng.choice([6, 10, 14])))
                        labels.append("real-random")
        batches.append((fw, cases, labels))

    all_coq, all_meta = [], []
    found = {}            # key -> (what, fw, case, label)
    for fw, cases, labels in batches:
        nproc = 8
        chunks = [cases[i::nproc] for i in range(nproc)]
        from concurrent.futures import ThreadPoolExecutor
        with ThreadPoolExecutor(nproc) as ex:
            outs = list(ex.map(lambda ch: ck.run_impl(DRIVER, {"fw": fw, "cases": ch}, timeout=3000)["results"] if ch else [], chunks))
        results = [None] * len(cases)
        for pi, res in enumerate(outs):
            for j, r in enumerate(res): results[pi + j * nproc] = r
        classes = set()
        for case, label, r in zip(cases, labels, results):
            log = r["log"]
            ck.evaluations += 1
            ck.bump(f"{fw}/{label.split(':')[0]}")
            for c in r.get("classes", []): classes.add(c)
            for o in case["ops"]: ck.bump("op/" + o[0])
            for e in log:
                if e[0] == "sent": ck.bump("out/" + e[1][0] + ("/progress" if e[1][0] == "yield" and e[1][4] else "") +
                                           ("/" + e[1][2][0] if e[1][0] == "error" else ""))
                elif e[0] in ("raised", "prograised"): ck.bump(f"out/{e[0]}/{e[1] if e[0] == 'raised' else ''}{e[2]}")
            if any(e[0] == "acc" for e in log):
                ck.note_cases(0, [json.dumps([fw, case], sort_keys=True)])
            if any(e[0] == "other" for e in log):
                bad_e = next(e for e in log if e[0] == "other")
                found.setdefault("driver/undecodable-output", (f"driver could not decode the implementation's output: {bad_e}", fw, case, label, False))
                continue
            for key, what, _ in oracle(fw, case, log):
                ck.bump("oracle/" + key)
                if key not in found or len(case["ops"]) < len(found[key][2]["ops"]):
                    found[key] = (what, fw, case, label, True)
            try:
                all_coq.append(coq_case(fw, case, log)); all_meta.append((fw, case, label, log))
            except Undecodable as e:
                found.setdefault("driver/undecodable-output", (f"cannot express implementation output in the model's vocabulary: {e}", fw, case, label, False))
        ck.log(f"{fw}: {len(cases)} histories run on the real session; real protocol classes: {sorted(classes)}")
    for s in all_meta[:2] + [m for m in all_meta if m[2] == "real-fixed"][:2]:
        ck.sample({"fw": s[0], "transport": s[1]["transport"], "ops": s[1]["ops"][:12], "log": s[3][:12]})

    bad = ck.coq_cases("inv", IMPORTS, "inv_case_ok", all_coq, ty="inv_case", shard=180 if quick else 400)
    ck.bump("model_compared", len(all_coq))
    ck.log(f"model comparison: {len(all_coq)} histories, {len(bad)} disagreements; oracle keys: {sorted(found)}")

    # verdicts -- a property-oracle failure on the real code is a concrete failing input
    for key, (what, fw, case, label, real_input) in sorted(found.items()):
        if real_input:
            small = case
            is_known = any(k.get("property") == ck.pid and k.get("status") == "known" and k.get("key") == key for k in ck.known)
            try:
                if not is_known and not label.startswith("corpus:") and len(case["ops"]) > 3:
                    small = shrink(ck, fw, case, key)
            except Exception as e:
                ck.log(f"shrink failed for {key}: {e}")
            ck.violation(key, what, {"fw": fw, "case": small}, found_input=True)
        else:
            ck.violation(key, what, {"fw": fw, "case": case, "label": label}, found_input=False)
    if bad:
        i = min(bad, key=lambda i: len(all_meta[i][1]["ops"]))
        fw, case, label, log = all_meta[i]
        model = "?"
        try:
            model = ck.coq_eval(IMPORTS, ["inv_model " + coq_case(fw, case, log)])[0]
        except Exception as e:
            model = f"(coq_eval failed: {e})"
        explained = any(real for (_, _, _, _, real) in found.values())
        ck.violation(f"correspondence/model-disagrees/{transport_name(fw, case['transport'])}",
                     f"implementation and Gallina model disagree on {len(bad)} histories (smallest has {len(case['ops'])} ops; {label})",
                     {"fw": fw, "case": case, "implementation": log, "model": model, "correspondence": "inv_case_ok"},
                     found_input=False)
    if broken and not found:
        ck.log("proof obligations broken, no failing input found by the sweep")


def replay(path):
    j = json.load(open(path))
    r = j.get("replay", j)
    case = norm_case(r["case"])
    ck = vlib.Check("C10", "quick", 1)
    print("case:", json.dumps(case))
    rc = 0
    built = False
    for fw in ([r["fw"]] if r.get("fw") else ["tx", "aio"]):
        out = ck.run_impl(DRIVER, {"fw": fw, "cases": [case]}, timeout=300)["results"][0]
        print(f"implementation ({fw}):")
        for e in out["log"]:
            if e[0] != "op": print("   ", json.dumps(e))
        v = oracle(fw, case, out["log"])
        print("property oracle:", [(k, w) for k, w, _ in v] or "ok")
        if v: rc = 1
        try:
            if not built:
                vlib.coq_make(["Model/SessionInvRun.vo"]); built = True
            term = coq_case(fw, case, out["log"])
            vals = ck.coq_eval(IMPORTS, ["inv_model " + term, "inv_case_ok " + term])
            print("model:", vals[0]); print("model agrees with implementation:", vals[1])
        except Exception as e:
            print("model evaluation failed:", e)
    return rc
