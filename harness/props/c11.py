"""C11 — events reach exactly the handlers subscribed at that moment.

Proof side : coq/Props/C11.v over coq/Model/SessionSub.v (all operation histories, both txaio flavours).
Tie to code: correspondence run.  Random + corpus histories over the alphabet of Model/SessionSub.v `op` are executed on
             the REAL ApplicationSession (harness/impl/wamp_events.py, Twisted and asyncio in separate processes) and
             by the Gallina model inside coqc (sub_case_ok); every observable (messages sent, handler invocations
             with their arguments, onUserError, exceptions leaving the entry point, completions of the returned
             futures) is compared per operation.
Oracle     : `Oracle` below recomputes from the PROPERTY TEXT (not from the model) which handlers were attached at
             each EVENT and what each must have received, when UNSUBSCRIBE must be sent, which events must be
             dropped / rejected, and checks the implementation log against it.
"""
import copy, json, os, glob
import vlib

KEYS = ["a", "b", "c", "details", "info"]
IMPORTS = "From AV Require Import Model.SessionSub Model.SessionSubRun."
FLAVOURS = ("tx", "aio")
EXN = {"ProtocolError": "EProtocolError", "TransportLost": "ETransportLost", "AssertionError": "EAssertion",
       "Exception": "EException", "TypeError": "ETypeError", "Closed": "EClosed", "TypeCheck": "ETypeCheck"}
NEVER = "ORaised (EUser 424242)"      # stands for an observation the model has no constructor for: never equal


# ----------------------------------------------------------------------------------------- Coq terms
def zlit(z):
    return f"{z}%Z" if z >= 0 else f"({z})%Z"


def olist(xs):
    return "[" + "; ".join(xs) + "]"


def optn(v):
    return "None" if v is None else f"(Some {v})"


def optb(v):
    return "None" if v is None else f"(Some {'true' if v else 'false'})"


def normH(H):
    sg = H.get("sig")
    if sg is None: sg = {"fixed": 0, "va": True, "kwo": [], "vk": True}
    elif isinstance(sg, list): sg = {"fixed": 0, "va": True, "kwo": list(sg), "vk": False}
    opts = H.get("opts")
    if "opts" not in H and H.get("det") is not None: opts = {"details_arg": H["det"]}      # legacy form
    return {"opts": opts, "sig": sg, "check": bool(H.get("check")), "ann": H.get("ann"), "beh": H["beh"]}


MATCH = {None: "None", "exact": "(Some MExact)", "prefix": "(Some MPrefix)", "wildcard": "(Some MWildcard)"}


def coq_subopts(o):
    return (f"(Opts {optb(o.get('details'))} {optn(o.get('details_arg'))} {MATCH[o.get('match')]} "
            f"{optb(o.get('get_retained'))})")


def coq_opts(o):
    return "None" if o is None else f"(Some {coq_subopts(o)})"


def coq_hspec(H):
    H = normH(H)
    sg = H["sig"]
    sig = (f"(Sig {sg['fixed']} {'true' if sg['va'] else 'false'} {olist(str(k) for k in sg['kwo'])} "
           f"{'true' if sg['vk'] else 'false'})")
    ann = {None: "None", "int": "(Some TInt)", "str": "(Some TStr)"}[H["ann"]]
    chk = "true" if H["check"] else "false"
    b = H["beh"]
    beh = "BReturn" if b[0] == "ret" else f"(BRaise {b[1]})" if b[0] == "raise" else f"(BUnsub {olist(str(t) for t in b[1])})"
    return f"(HS {sig} {chk} {ann} {beh})"


def coq_kwargs_pub(kw):
    return olist(f"({int(k)}, KInt {zlit(v)})" for k, v in sorted(kw.items(), key=lambda p: int(p[0])))


AUTHIDS = [None, "alice"]
AUTHROLES = [None, "user"]
TXHASHES = [None, "h1"]
HOP_AUTH = {"session": 11, "authid": "bob", "authrole": "router"}
HOP_ANON = {"session": 12, "authid": None, "authrole": "anonymous"}
FORWARDS = [None, [], [HOP_AUTH], [HOP_ANON], [HOP_AUTH, HOP_ANON], [HOP_ANON, HOP_AUTH, HOP_AUTH]]


def extra_token(authid, authrole, txhash, ff):
    """the model keeps these EventDetails fields opaque: one number per combination (-1: not a generated value)"""
    try:
        return (AUTHIDS.index(authid) + 2 * AUTHROLES.index(authrole) + 4 * TXHASHES.index(txhash)
                + 8 * FORWARDS.index(ff))
    except ValueError:
        return -1


def event_token(e):
    return extra_token(e.get("authid"), e.get("authrole"), e.get("txhash"), e.get("ff"))


def coq_event(e):
    return (f"(Ev {e['sub']} {e['pub']} {olist(zlit(a) for a in e['args'])} {coq_kwargs_pub(e['kwargs'])} "
            f"{optn(e.get('publisher'))} {optn(e.get('topic'))} {optb(e.get('retained'))} {event_token(e)})")


def coq_msg(m):
    k = m[0]
    if k == "subscribed": return f"MsgSubscribed {m[1]} {m[2]}"
    if k == "unsubscribed": return f"MsgUnsubscribed {m[1]}"
    if k == "revoked": return f"MsgRevoked {m[1]}"
    if k == "error": return f"MsgError {m[1]} {m[2]} {m[3]}"
    if k == "event": return f"MsgEvent {coq_event(m[1])}"
    raise ValueError(k)


def inline_of(op):
    """messages delivered from inside transport.send(), flattened in delivery order"""
    k = op[0]
    if k == "sub": return list(op[3]) if len(op) > 3 and op[3] else []
    if k == "unsub": return list(op[2]) if len(op) > 2 and op[2] else []
    if k == "subobj": return [m for me in op[1] for m in (me[2] if len(me) > 2 and me[2] else [])]
    return []


def coq_op(op):
    k = op[0]
    if k == "sub":
        return (f"OpSubscribe {coq_hspec(op[1])} {coq_opts(normH(op[1])['opts'])} {op[2]} "
                f"{olist(coq_msg(m) for m in inline_of(op))}")
    if k == "subobj":
        ms = olist(f"({coq_hspec(me[0])}, {coq_opts(normH(me[0])['opts'])}, {me[1]}, "
                   f"{olist(coq_msg(m) for m in (me[2] if len(me) > 2 and me[2] else []))})" for me in op[1])
        return f"OpSubscribeObj {ms} {coq_opts(op[2] if len(op) > 2 else None)}"
    if k == "unsub": return f"OpUnsubscribe {op[1]} {olist(coq_msg(m) for m in inline_of(op))}"
    if k == "subscribed": return f"OpSubscribed {op[1]} {op[2]}"
    if k == "unsubscribed": return f"OpUnsubscribed {op[1]}"
    if k == "revoked": return f"OpRevoked {op[1]}"
    if k == "error": return f"OpError {op[1]} {op[2]} {op[3]}"
    if k == "lose": return "OpLose"
    if k == "event": return f"OpEvent {coq_event(op[1])}"
    raise ValueError(k)


def coq_exn(x):
    if x[0] in EXN: return EXN[x[0]]
    if x[0] == "User": return f"(EUser {x[1]})"
    if x[0] == "AppError": return f"(EAppError {x[1]})"
    return None


def coq_res(r):
    if r[0] == "sub": return f"(RSub {r[1]})"
    if r[0] == "num" and r[1] >= 0: return f"(RNum {r[1]})"
    if r[0] == "err":
        e = coq_exn(r[1])
        return f"(RErr {e})" if e else None
    return None


def coq_out(o):
    t = o[0]
    try:
        if t == "sent":
            if o[1] == "sub":
                if o[4] not in MATCH or o[5] not in (None, True, False): return NEVER
                return f"OSent (MSubscribe {o[2]} {o[3]} {MATCH[o[4]]} {optb(o[5])})"
            if o[1] == "unsub": return f"OSent (MUnsubscribe {o[2]} {o[3]})"
            return NEVER
        if t == "invoke":
            kws = []
            for name, v in sorted(o[4].items(), key=lambda p: KEYS.index(p[0])):
                k = KEYS.index(name)
                if isinstance(v, dict) and "$det" in v:
                    d = v["$det"]
                    tok = extra_token(d.get("authid"), d.get("authrole"), d.get("txhash"), d.get("ff"))
                    if not isinstance(d["topic"], int) or d["owner"] < 0 or tok < 0 or d.get("enc_algo") is not None: return NEVER
                    kws.append(f"({k}, Det {d['owner']} {d['sub']} {d['pub']} {optn(d['publisher'])} {d['topic']} {optb(d['retained'])} {tok})")
                elif isinstance(v, int) and not isinstance(v, bool):
                    kws.append(f"({k}, KInt {zlit(v)})")
                else:
                    return NEVER
            if o[1] < 0 or not all(isinstance(a, int) for a in o[3]): return NEVER
            return f"OInvoke {o[1]} {'true' if o[2] else 'false'} {olist(zlit(a) for a in o[3])} {olist(kws)} true"
        if t == "usererror":
            e = coq_exn(o[2])
            return f"OUserError {o[1]} {e}" if e and o[1] >= 0 else NEVER
        if t == "raised":
            e = coq_exn(o[1])
            return f"ORaised {e}" if e else NEVER
        if t == "done":
            if o[1] == "g":
                if o[3][0] != "list": return NEVER
                rs = [coq_res(r) for r in o[3][1]]
                return NEVER if None in rs else f"ODoneG {o[2]} {olist(rs)}"
            r = coq_res(o[3])
            if r is None: return NEVER
            return f"ODone {o[2]} {r}" if o[1] == "s" else f"ODoneU {o[2]} {r}"
    except (ValueError, KeyError, TypeError, IndexError):
        return NEVER
    return NEVER


def coq_case(fw, ops, outs):
    return (f"({0 if fw == 'tx' else 1}, {olist(coq_op(o) for o in ops)}, "
            f"{olist(olist(coq_out(x) for x in per if x[0] != 'mark') for per in outs)})")


# ----------------------------------------------------------------------------------------- generator
class GenSim:
    """Rough bookkeeping used ONLY to steer the generator towards interesting states (pending requests, several
    handlers per id, racing events).  Nothing here is used as a reference."""
    def __init__(self):
        self.next, self.pend, self.upend, self.objs, self.att, self.held, self.lost = 0, {}, {}, {}, {}, set(), False

    def sub(self, H, topic):
        self.next += 1
        self.pend[self.next] = (H, topic)
        return self.next

    def unsub(self, lab):
        o = self.objs.get(lab)
        if not o or not o[1] or self.lost: return
        sid = o[0]
        if lab in self.att.get(sid, []):
            self.att[sid].remove(lab); o[1] = False
            if not self.att[sid]:
                self.next += 1; self.upend[self.next] = sid

    def apply(self, op):
        k = op[0]
        if self.lost: return
        if k == "sub":
            if opts_invalid(normH(op[1])["opts"]): return
            self.sub(op[1], op[2])
            for m in inline_of(op): self.apply(m)
        elif k == "subobj":
            if opts_invalid(op[2] if len(op) > 2 else None) or any(opts_invalid(normH(me[0])["opts"]) for me in op[1]): return
            for me in op[1]:
                self.sub(me[0], me[1])
                for m in (me[2] if len(me) > 2 and me[2] else []): self.apply(m)
        elif k == "unsub":
            n0 = self.next
            self.unsub(op[1])
            if self.next > n0:
                for m in inline_of(op): self.apply(m)
        elif k == "subscribed" and op[1] in self.pend:
            H, t = self.pend.pop(op[1])
            self.att.setdefault(op[2], []).append(op[1]); self.objs[op[1]] = [op[2], True, H]; self.held.add(op[2])
        elif k == "unsubscribed" and op[1] in self.upend:
            sid = self.upend.pop(op[1])
            for l in self.att.pop(sid, []): self.objs[l][1] = False
        elif k == "error":
            (self.pend if op[1] == 32 else self.upend).pop(op[2], None)
        elif k == "event":
            for l in list(self.att.get(op[1]["sub"], [])):
                H = self.objs[l][2]
                if H["beh"][0] == "unsub":
                    for t in H["beh"][1]: self.unsub(t)
        elif k == "lose":
            self.lost = True; self.pend.clear(); self.upend.clear()


def opts_invalid(o):
    """SubscribeOptions asserts: a details flag excludes details_arg"""
    return o is not None and o.get("details") is not None and o.get("details_arg") is not None


def requested(o):
    """SPEC (documentation of SubscribeOptions): which keyword, if any, the application asked the details under"""
    if o is None: return None
    if o.get("details") is True: return KEYS.index("details")
    if o.get("details") is False: return None
    return o.get("details_arg")


def gen_opts(rng):
    """every way of (not) requesting details, alone or combined with match / get_retained"""
    r = rng.random()
    if r < 0.28: return None
    if r < 0.36: o = {}
    elif r < 0.50: o = {"details": False}
    elif r < 0.64: o = {"details": True}
    elif r < 0.97: o = {"details_arg": rng.choices([3, 4, 0], [60, 25, 15])[0]}
    else: o = {"details": rng.random() < 0.5, "details_arg": 3}                    # invalid: the constructor raises
    if rng.random() < 0.25: o["match"] = rng.choice(("exact", "prefix", "wildcard"))
    if rng.random() < 0.15: o["get_retained"] = rng.random() < 0.5
    return {"details": o.get("details"), "details_arg": o.get("details_arg"), "match": o.get("match"),
            "get_retained": o.get("get_retained")}


def gen_handler(rng, sim, self_label, eff_opts=None, own=True):
    opts = gen_opts(rng) if own else None
    det = requested(opts if opts is not None else eff_opts)
    r = rng.random()
    if r < 0.5:
        sig = {"fixed": 0, "va": True, "kwo": [], "vk": True}                     # *args, **kw
    else:
        kwo = sorted(k for k in (0, 1, 2) if rng.random() < 0.5)
        vk = rng.random() < 0.45
        if det is not None and not vk and rng.random() < 0.85: kwo = sorted(set(kwo) | {det})
        sig = {"fixed": rng.choice((0, 0, 1, 1, 2)), "va": rng.random() < 0.6, "kwo": kwo, "vk": vk}
        # kinds: fixed only / *args / **kwargs / both / keyword-only
    check = rng.random() < 0.35
    ann = None
    if sig["fixed"] >= 1:
        ann = rng.choices([None, "int", "str"], [30, 55, 15])[0]
    r = rng.random()
    if r < 0.62: beh = ["ret"]
    elif r < 0.78: beh = ["raise", rng.randrange(1, 4)]
    else:
        pool = [self_label] * 3 + list(sim.objs) + list(sim.pend)
        beh = ["unsub", sorted(set(rng.choice(pool) for _ in range(rng.choice((1, 1, 2)))))]
    return {"opts": opts, "sig": sig, "check": check, "ann": ann, "beh": beh}


def gen_event(rng, sim):
    live = [sid for sid, l in sim.att.items() if l]
    racing = [sid for sid, l in sim.att.items() if not l]
    gone = [sid for sid in sim.held if sid not in sim.att]
    r = rng.random()
    if live and r < 0.8: sub = rng.choice(live)
    elif racing and r < 0.9: sub = rng.choice(racing)
    elif gone and r < 0.95: sub = rng.choice(gone)
    else: sub = rng.choice(live + racing + gone + [999, 1, 75])
    shape = rng.choice(("none", "args", "kwargs", "both", "both"))
    args = [rng.randrange(-3, 9) for _ in range(rng.choice((1, 1, 2, 2, 3)))] if shape in ("args", "both") else []
    kw = {}
    if shape in ("kwargs", "both"):
        for k in rng.sample((0, 1, 2, 3), rng.choice((1, 1, 2))):
            if k == 3 and rng.random() < 0.7: k = 0
            kw[str(k)] = rng.randrange(-2, 9)
    return {"sub": sub, "pub": rng.randrange(900, 999), "args": args, "kwargs": kw, "shape": shape,
            "publisher": rng.choice((None, None, 5, 6)), "topic": rng.choice((None, None, None, 8)),
            "retained": rng.choice((None, None, True, False)),
            # the other fields that end up in EventDetails (a forwarded event: 0..n hops, anonymous hops have authid null)
            "authid": rng.choice((None, None, "alice")), "authrole": rng.choice((None, None, "user")),
            "txhash": rng.choice((None, None, None, "h1")),
            "ff": copy.deepcopy(rng.choice(FORWARDS)) if rng.random() < 0.35 else None}


def gen_inline_sub(rng, sim, rid, topic, may_event, p=0.25):
    """what a loopback transport delivers from inside the send() of this SUBSCRIBE (at most one EVENT per operation)"""
    if rng.random() >= p: return []
    r = rng.random()
    sid = 70 + topic if rng.random() < 0.9 else rng.choice((70, 71, 72))
    if r < 0.12: return [["error", 32, rid, rng.randrange(1, 4)]]
    ms = [["subscribed", rid, sid]]
    if may_event[0] and rng.random() < 0.6:
        e = gen_event(rng, sim); e["sub"] = sid if rng.random() < 0.9 else e["sub"]
        ms.append(["event", e]); may_event[0] = False
    if rng.random() < 0.1: ms.append(["subscribed", rid, sid])           # duplicate reply: protocol violation
    return ms


def gen_inline_unsub(rng, sim, lab):
    if rng.random() >= 0.3: return []
    o = sim.objs.get(lab)
    ms = []
    if o and rng.random() < 0.4:
        e = gen_event(rng, sim); e["sub"] = o[0]
        ms.append(["event", e])                                           # racing event, inside the send of UNSUBSCRIBE
    ms.append(["unsubscribed", sim.next + 1] if rng.random() < 0.85 else ["error", 34, sim.next + 1, rng.randrange(1, 4)])
    return ms


def gen_history(rng, maxlen):
    """State-dependent weights: build up several handlers per id, keep requests pending, then mix events with removals."""
    sim, ops = GenSim(), []
    n = rng.randrange(5, maxlen + 1)
    while len(ops) < n:
        live = [sid for sid, l in sim.att.items() if l]
        active = [l for l, o in sim.objs.items() if o[1]]
        w = {"sub": 3.0 if len(sim.objs) + len(sim.pend) < 5 else 0.8,
             "subobj": 0.5,
             "reply": 5.0 if sim.pend else 0.0,
             "event": 5.0 if live else (1.0 if sim.held else 0.15),
             "unsub": 2.2 if active else (0.3 if sim.objs else 0.05),
             "ureply": 3.0 if sim.upend else 0.0,
             "revoked": 0.12, "bogus": 0.25,
             "lose": 0.3 if len(ops) >= n - 3 else 0.02}
        if sim.lost:
            w = {"sub": 1, "event": 1, "unsub": 1 if sim.objs else 0, "bogus": 1, "lose": 0.3, "subobj": 0.3}
        k = rng.choices(list(w), list(w.values()))[0]
        if k == "sub":
            t = rng.choice((1, 1, 1, 2))
            op = ["sub", gen_handler(rng, sim, sim.next + 1), t, gen_inline_sub(rng, sim, sim.next + 1, t, [True])]
        elif k == "subobj":
            m = rng.choice((2, 2, 1, 3))
            call = gen_opts(rng) if rng.random() < 0.4 else None
            may_event = [True]
            ms = []
            for i in range(m):
                t = rng.choice((1, 1, 2))
                own = rng.random() < 0.6
                ms.append([gen_handler(rng, sim, sim.next + 1 + i, eff_opts=call, own=own), t,
                           gen_inline_sub(rng, sim, sim.next + 1 + i, t, may_event, p=0.15)])
            op = ["subobj", ms, call]
        elif k == "reply":
            req = rng.choice(list(sim.pend))
            if rng.random() < 0.1:
                op = ["error", 32, req, rng.randrange(1, 4)]
            else:
                t = sim.pend[req][1]
                op = ["subscribed", req, 70 + t if rng.random() < 0.9 else rng.choice((70, 71, 72, 75))]
        elif k == "event":
            op = ["event", gen_event(rng, sim)]
        elif k == "unsub":
            pool = list(sim.objs)
            op = ["unsub", rng.choice(active) if active and rng.random() < 0.85 else rng.choice(pool)] if pool else ["unsub", sim.next + 1]
            op.append(gen_inline_unsub(rng, sim, op[1]))
        elif k == "ureply":
            req = rng.choice(list(sim.upend))
            op = ["unsubscribed", req] if rng.random() < 0.85 else ["error", 34, req, rng.randrange(1, 4)]
        elif k == "revoked":
            op = ["revoked", rng.choice(list(sim.held) + [71])]
        elif k == "bogus":
            op = rng.choice((["subscribed", sim.next + 3, 71], ["subscribed", 1, 71], ["unsubscribed", sim.next + 2],
                             ["unsubscribed", 1], ["error", 34, 1, 1], ["error", 48, 1, 2], ["error", 32, sim.next + 1, 1],
                             ["unsub", sim.next + 1, []]))
        else:
            op = ["lose"]
        ops.append(op)
        sim.apply(op)
    return ops


# ----------------------------------------------------------------------------------------- property oracle
def expected_kwargs(H, label, sid, topic, ev):
    kw = {KEYS[int(k)]: v for k, v in ev["kwargs"].items()}
    if H["det"] is not None:          # H["det"] = requested(effective options), set by the oracle
        kw[KEYS[H["det"]]] = {"$det": {"owner": label, "sub": sid, "pub": ev["pub"], "publisher": ev.get("publisher"),
                                       "topic": ev["topic"] if ev.get("topic") is not None else topic,
                                       "retained": ev.get("retained"), "authid": ev.get("authid"),
                                       "authrole": ev.get("authrole"), "txhash": ev.get("txhash"), "ff": ev.get("ff"),
                                       "enc_algo": None}}
    return kw


def sig_accepts(H, nargs, kw):
    """would the handler's own signature / type hints take the call the property demands? (its business if not)"""
    sg = H["sig"]
    if nargs < sg["fixed"] or (nargs > sg["fixed"] and not sg["va"]): return False
    if not sg["vk"] and any(KEYS.index(k) not in sg["kwo"] for k in kw): return False
    if H["check"] and sg["fixed"] >= 1 and H["ann"] == "str": return False       # published values are ints
    return True


class Oracle:
    """Checks one implementation log against the text of C11.  Learns request ids only from the SUBSCRIBE /
    UNSUBSCRIBE messages the implementation sent (a handler is named by the id of the request that registered it)."""
    P = "session.onMessage/Event/"

    def __init__(self, fw="tx"):
        self.fw = fw
        self.pend = {}        # SUBSCRIBE request id -> (H, topic, withobj)
        self.upend = {}       # UNSUBSCRIBE request id -> sid
        self.info = {}        # label -> dict(H, topic, sid, obj)   once SUBSCRIBED was processed (the app holds the object)
        self.att = {}         # sid -> ordered labels attached; key present <=> the session holds the id (maybe racing)
        self.ever = set()
        self.dead = set()     # labels whose unsubscribe() returned
        self.lost = False
        self.bad = []         # (key, text)

    def flag(self, key, text):
        self.bad.append((key, text))

    def detach(self, lab, outs_unsub_expect):
        sid = self.info[lab]["sid"]
        self.att[sid].remove(lab)
        self.dead.add(lab)
        if not self.att[sid]:
            outs_unsub_expect.append(sid)

    def sub_specs(self, op):
        """[(H, topic, withobj, effective options)] of a subscribe call, or None if SubscribeOptions(...) must raise"""
        if op[0] == "sub":
            specs = [(normH(op[1]), op[2], False, normH(op[1])["opts"])]
            call = None
        else:
            call = op[2] if len(op) > 2 else None
            specs = []
            for me in op[1]:
                H = normH(me[0])
                eff = H["opts"] if H["opts"] is not None else (call if call is not None else {"match": "exact"})
                specs.append((H, me[1], True, eff))
        if any(opts_invalid(sp[3]) for sp in specs) or opts_invalid(call): return None
        return specs

    def register(self, where, o, sp):
        """a SUBSCRIBE went out for handler spec sp: from now on the request is pending"""
        H, t, wo, eff = sp
        if o[3] != t: self.flag("session.subscribe/topic", f"{where}: SUBSCRIBE for topic {o[3]}, asked {t}")
        want_m = None if eff is None or eff.get("match") in (None, "exact") else eff["match"]
        want_r = None if eff is None else eff.get("get_retained")
        if (o[4], o[5]) != (want_m, want_r):
            self.flag("session.subscribe/options-on-wire", f"{where}: SUBSCRIBE options match={o[4]} get_retained={o[5]}, "
                      f"asked match={want_m} get_retained={want_r}")
        H = dict(H, det=requested(eff))          # the details the application REQUESTED (specification, not the code)
        self.pend[o[2]] = (H, t, wo)

    def step(self, i, op, outs):
        """one operation; messages delivered from inside send() are judged, in the order things happened, as if they
        had arrived right after the call (that is what recording the request before sending is for)"""
        msgs = inline_of(op)
        k = op[0]
        op0 = op[:3] if k == "sub" else op[:2] if k == "unsub" else \
            (["subobj", [me[:2] for me in op[1]]] + ([op[2]] if len(op) > 2 else [])) if k == "subobj" else op
        if not any(o[0] == "mark" for o in outs):
            return self.step_one(i, op0, outs)
        chunks, cur = [["api", []]], "api"
        for o in outs:
            if o[0] == "mark":
                cur = "api" if o[1] == "end" else o[1]
                chunks.append([cur, []])
            else:
                chunks[-1][1].append(o)
        api_all = [o for c, os_ in chunks if c == "api" for o in os_]
        # asyncio: what the loop ran after the call - the Tasks of coroutine handlers (their call, what their bodies send)
        # and onUserError callbacks.  Everything the call itself sends precedes the first delivery mark.
        tail = [o for c, os_ in chunks[1:] if c == "api" for o in os_]
        late = [o for o in tail if o[0] in ("invoke", "usererror") or (o[0] == "sent" and o[1] == "unsub")]
        late_ids = set(id(o) for o in late)
        n_ev = sum(1 for m in msgs if m[0] == "event")
        specs = self.sub_specs(op0) if k in ("sub", "subobj") else None
        n_sent, first_api = 0, True
        for c, os_ in chunks:
            if c == "api":
                base = [o for o in os_ if id(o) not in late_ids and o[0] not in ("invoke", "usererror", "done")]
                if k == "unsub":
                    if first_api: self.step_one(i, op0, base)
                else:
                    for o in base:
                        if o[0] == "sent" and o[1] == "sub":
                            if specs is not None and n_sent < len(specs) and not self.lost:
                                self.register(f"op {i} {k}", o, specs[n_sent])
                            n_sent += 1
                first_api = False
            elif c < len(msgs):
                m = msgs[c]
                seg = os_ + (late if (m[0] == "event" and n_ev == 1) else [])
                self.step_one(f"{i}/inside-send[{c}]", m, seg, reentrant=True)
        if k in ("sub", "subobj") and not self.lost:
            if specs is None:
                if n_sent: self.flag("session.subscribe/sent-with-invalid-options", f"op {i} {k}: SUBSCRIBE sent although SubscribeOptions is invalid")
            elif n_sent != len(specs):
                self.flag("session.subscribe/SUBSCRIBE-count", f"op {i} {k}: {n_sent} SUBSCRIBE sent for {len(specs)} handlers")
        if late and n_ev != 1:
            self.flag("handler-invoked-outside-EVENT", f"op {i}: {late}")
        self.step_one(i, ["noop"], [o for o in api_all if o[0] == "done"])

    def step_one(self, i, op, outs, reentrant=False):
        k = op[0]
        R = "/reentrant" if reentrant else ""
        sent_sub = [o for o in outs if o[0] == "sent" and o[1] == "sub"]
        sent_unsub = [o for o in outs if o[0] == "sent" and o[1] == "unsub"]
        invokes = [o for o in outs if o[0] == "invoke"]
        raised = [o for o in outs if o[0] == "raised"]
        expect_unsub = []
        where = f"op {i} {k}"
        if k in ("sub", "subobj") and not self.lost:
            specs = self.sub_specs(op)
            if specs is None:
                if sent_sub: self.flag("session.subscribe/sent-with-invalid-options", f"{where}: SUBSCRIBE sent although SubscribeOptions is invalid")
                specs = []
            elif len(sent_sub) != len(specs):
                self.flag("session.subscribe/SUBSCRIBE-count", f"{where}: {len(sent_sub)} SUBSCRIBE sent for {len(specs)} handlers")
            for o, sp in zip(sent_sub, specs):
                self.register(where, o, sp)
        elif k == "subscribed" and not self.lost:
            if op[1] in self.pend:
                H, t, wo = self.pend.pop(op[1])
                self.info[op[1]] = dict(H=H, topic=t, sid=op[2], obj=wo, held=False)
                self.att.setdefault(op[2], []).append(op[1])
                self.ever.add(op[2])
                if raised: self.flag("session.onMessage/Subscribed/raised" + R, f"{where}: SUBSCRIBED for a pending request: {raised}")
        elif k == "error" and not self.lost:
            known = (op[1] == 32 and op[2] in self.pend) or (op[1] == 34 and op[2] in self.upend)
            if known and raised: self.flag("session.onMessage/Error/raised" + R, f"{where}: ERROR for a pending request: {raised}")
            if op[1] == 32: self.pend.pop(op[2], None)
            if op[1] == 34: self.upend.pop(op[2], None)
        elif k == "unsubscribed" and not self.lost:
            if op[1] in self.upend:
                sid = self.upend.pop(op[1])
                for l in self.att.pop(sid, []): self.dead.add(l)
                if raised: self.flag("session.onMessage/Unsubscribed/raised" + R, f"{where}: UNSUBSCRIBED for a pending request: {raised}")
        elif k == "unsub":
            lab = op[1]
            if lab in self.info and self.info[lab]["held"] and not self.lost:
                sid = self.info[lab]["sid"]
                if lab in self.att.get(sid, []) and lab not in self.dead:
                    if raised: self.flag("Subscription.unsubscribe/raised", f"{where}: unsubscribe of an attached handler raised {raised}")
                    else: self.detach(lab, expect_unsub)
                elif not raised:
                    self.flag("Subscription.unsubscribe/second-unsubscribe-accepted", f"{where}: unsubscribe() of a handler that is no longer subscribed returned normally")
        elif k == "lose":
            self.lost = True
            self.pend.clear(); self.upend.clear()
        elif k == "event":
            ev = op[1]
            sid = ev["sub"]
            other = [r for r in raised if r[1][0] != "ProtocolError"]
            if other:          # whatever the subscription state: only a protocol violation may leave onMessage for a well-formed EVENT
                self.flag(self.P + "exception-escaped", f"{where}: {other} left onMessage")
            if self.lost:
                if invokes: self.flag(self.P + "after-transport-loss", f"{where}: handlers invoked after the transport was lost")
            elif sid in self.att:
                self.event(where, ev, sid, outs, invokes, raised, expect_unsub)
            elif sid in self.ever:
                # removal acknowledged by the router: the text demands neither silence nor an error; no handler may run
                if invokes: self.flag(self.P + "after-unsubscribed", f"{where}: handler invoked for a removed subscription")
            else:
                if invokes: self.flag(self.P + "unknown-id/handler-invoked", f"{where}: handler invoked for id {sid} never held")
                if not any(r[1][0] == "ProtocolError" for r in raised):
                    self.flag(self.P + "unknown-id/no-ProtocolError", f"{where}: EVENT for id {sid} the session never held was not rejected")
        if k == "noop":
            pass
        elif k not in ("event",) and invokes:
            self.flag("handler-invoked-outside-EVENT", f"{where}: {invokes}")
        # UNSUBSCRIBE exactly when the last handler of an id is removed
        got = sorted(o[3] for o in sent_unsub)
        if got != sorted(expect_unsub):
            kind = "missing" if len(got) < len(expect_unsub) else "not-last"
            self.flag(f"Subscription.unsubscribe/UNSUBSCRIBE-{kind}", f"{where}: UNSUBSCRIBE sent for {got}, last handler removed for {sorted(expect_unsub)}")
        for o in sent_unsub:
            self.upend[o[2]] = o[3]
        # the application holds a Subscription object once the future that delivers it has completed
        for o in outs:
            if o[0] == "done" and o[1] == "s" and o[3][0] == "sub" and o[2] in self.info:
                self.info[o[2]]["held"] = True
            if o[0] == "done" and o[1] == "g" and o[3][0] == "list":
                for j, r in enumerate(o[3][1]):
                    if r[0] == "sub" and o[2] + j in self.info: self.info[o[2] + j]["held"] = True

    def event(self, where, ev, sid, outs, invokes, raised, expect_unsub):
        arrival = list(self.att[sid])
        if raised:
            self.flag(self.P + "exception-escaped", f"{where}: {raised} left onMessage")
        if not arrival:
            if invokes: self.flag(self.P + "race/handler-invoked", f"{where}: handler invoked while the subscription has no handlers")
            return
        got = {}
        for o in invokes:
            got.setdefault(o[1], []).append(o)
        order = [o[1] for o in invokes]
        typeerrs = {o[1] for o in outs if o[0] == "usererror" and o[2][0] == "TypeError"}
        earlier_details, earlier_unsub = False, False
        earlier_detail_keys = set()
        removed_midway = set()
        seen_positions, seen_later = [], []
        later = []            # asyncio: check_types handlers are coroutines; the loop only creates their Task

        def body_effects(H):
            nonlocal earlier_unsub
            if H["beh"][0] == "unsub":
                for t in H["beh"][1]:
                    if (t in self.info and self.info[t]["held"] and t not in self.dead
                            and t in self.att.get(self.info[t]["sid"], [])):
                        self.detach(t, expect_unsub)
                        earlier_unsub = True
                        if self.info[t]["sid"] == sid: removed_midway.add(t)

        for lab in arrival:
            inf = self.info[lab]
            H = inf["H"]
            K = self.P + ("check_types/" if H["check"] else "")
            is_later = self.fw == "aio" and H["check"]
            exp_kw = expected_kwargs(H, lab, sid, inf["topic"], ev)
            calls = got.get(lab, [])
            if lab in removed_midway:
                # unsubscribed by a handler called earlier for this very event: "after a handler has been unsubscribed
                # it is never invoked again" takes precedence over "attached when the event arrived"
                if calls: self.flag(self.P + "after-unsubscribe-call", f"{where}: handler {lab} invoked although an earlier "
                                    f"handler of the same dispatch had already unsubscribed it")
                continue
            if len(calls) > 1:
                self.flag(self.P + "duplicate-call", f"{where}: handler {lab} invoked {len(calls)} times")
            if not calls:
                if not sig_accepts(H, len(ev["args"]), exp_kw):
                    pass          # the handler's own signature / hints reject what was published: its error, not the library's
                elif lab in typeerrs and earlier_details and ev["kwargs"] and not H["check"]:
                    self.flag(self.P + "shared-kwargs", f"{where}: handler {lab} not invoked: it was passed another handler's "
                              f"details keyword (TypeError swallowed)")
                elif earlier_unsub and not H["check"]:
                    self.flag(self.P + "unsubscribe-during-dispatch-skips-handler", f"{where}: handler {lab} was attached when "
                              f"the event arrived but was skipped after an earlier handler unsubscribed during the dispatch")
                else:
                    self.flag(K + "missing-call", f"{where}: attached handler {lab} not invoked although its signature "
                              f"accepts the published arguments")
            else:
                c = calls[0]
                (seen_later if is_later else seen_positions).append(order.index(lab))
                if c[2] != inf["obj"]: self.flag(K + "wrong-self", f"{where}: handler {lab} obj argument {c[2]}")
                if c[3] != list(ev["args"]): self.flag(K + "wrong-args", f"{where}: handler {lab} got args {c[3]}, published {ev['args']}")
                if c[4] != exp_kw:
                    extra = set(c[4]) - set(exp_kw)
                    own_unrequested = [k for k in extra if isinstance(c[4][k], dict) and c[4][k].get("$det", {}).get("owner") == lab]
                    if own_unrequested and H["det"] is None:
                        self.flag("session.subscribe/unrequested-details", f"{where}: handler {lab} did not ask for event details "
                                  f"but received them as keyword {own_unrequested}")
                    elif extra and extra <= earlier_detail_keys and ev["kwargs"]:
                        self.flag(self.P + "shared-kwargs", f"{where}: handler {lab} received keyword(s) {sorted(extra)} "
                                  f"belonging to an earlier handler's details_arg")
                    elif (earlier_details and ev["kwargs"]
                          and any(v["$det"]["owner"] != lab for v in c[4].values() if isinstance(v, dict) and "$det" in v)):
                        self.flag(self.P + "shared-kwargs", f"{where}: handler {lab} received another handler's EventDetails")
                    else:
                        self.flag(K + "wrong-kwargs", f"{where}: handler {lab} got kwargs {c[4]}, expected {exp_kw}")
                # body effects (what the handler does is part of the history, not of the library)
                if is_later: later.append(H)
                else: body_effects(H)
            if H["det"] is not None:
                earlier_details = True
                earlier_detail_keys.add(KEYS[H["det"]])
        for H in later:
            body_effects(H)
        if seen_positions != sorted(seen_positions) or seen_later != sorted(seen_later):
            self.flag(self.P + "wrong-order", f"{where}: invocation order {order}, subscription order {arrival}")
        for lab in order:
            if lab not in arrival:
                key = "after-unsubscribe-call" if lab in self.dead else "extra-call"
                self.flag(self.P + key, f"{where}: handler {lab} invoked but not attached to {sid} (attached: {arrival})")

    @classmethod
    def check(cls, ops, per_op, fw="tx"):
        o = cls(fw)
        for i, (op, outs) in enumerate(zip(ops, per_op)):
            o.step(i, op, outs)
        return o.bad


# ----------------------------------------------------------------------------------------- running
def run_histories(ck, hists, timeout=3000, chunk=2500):
    """-> {fw: [per-op outs per history]}; one driver process per (framework, chunk of histories), run concurrently."""
    from concurrent.futures import ThreadPoolExecutor
    jobs = [(fw, i) for fw in FLAVOURS for i in range(0, max(1, len(hists)), chunk)]

    def one(job):
        fw, i = job
        return ck.run_impl("wamp_events.py", {"fw": fw, "cases": hists[i:i + chunk]}, timeout=timeout)["results"]
    with ThreadPoolExecutor(max_workers=8) as ex:
        parts = list(ex.map(one, jobs))
    res = {fw: [] for fw in FLAVOURS}
    for (fw, _), part in zip(jobs, parts):
        res[fw] += part
    return res


def shrink(ck, ops, fw, key):
    """Greedy one-op deletion keeping the same oracle key on framework fw."""
    cur = ops
    for _ in range(40):
        cands = [cur[:i] + cur[i + 1:] for i in range(len(cur))]
        if not cands: break
        r = ck.run_impl("wamp_events.py", {"fw": fw, "cases": cands}, timeout=600)["results"]
        nxt = next((c for c, out in zip(cands, r) if any(k == key for k, _ in Oracle.check(c, out, fw))), None)
        if nxt is None: break
        cur = nxt
    return cur


def check_options_grid(ck):
    """The modelled options normalisation (norm_details / opts_valid / wire_match / wire_retained) and the specification
    (requested) against the REAL SubscribeOptions + Subscribe.marshal over the whole argument grid."""
    grid = [{"details": d, "details_arg": da, "match": m, "get_retained": gr}
            for d in (None, False, True) for da in (None, 3, 4, 0)
            for m in (None, "exact", "prefix", "wildcard") for gr in (None, True, False)]
    real = ck.run_impl("wamp_events.py", {"fw": "tx", "cases": [], "opts_grid": grid})["opts"]
    cases = []
    for o, r in zip(grid, real):
        ck.evaluations += 1
        ck.bump("opts:" + ("raised" if r is None else "ok"))
        exp = "None" if r is None else f"(Some ({optn(r[0])}, {MATCH[r[1]]}, {optb(r[2])}))"
        cases.append(f"({coq_subopts(o)}, {exp})")
        # specification
        if (r is None) != opts_invalid(o):
            ck.violation("SubscribeOptions/argument-check", f"SubscribeOptions({o}) " + ("raised" if r is None else "was accepted"),
                         {"options": o, "real": r}, found_input=True)
        elif r is not None:
            want_m = None if o["match"] in (None, "exact") else o["match"]
            if r[0] != requested(o):
                ck.violation("SubscribeOptions/details-normalisation",
                             f"SubscribeOptions(details={o['details']}, details_arg={None if o['details_arg'] is None else KEYS[o['details_arg']]})"
                             f".details_arg is {None if r[0] is None else KEYS[r[0]] if r[0] >= 0 else '?'}, requested "
                             f"{None if requested(o) is None else KEYS[requested(o)]}", {"options": o, "real": r}, found_input=True)
            if (r[1], r[2]) != (want_m, o["get_retained"]):
                ck.violation("SubscribeOptions/options-on-wire", f"SUBSCRIBE options for {o}: match={r[1]} get_retained={r[2]}",
                             {"options": o, "real": r}, found_input=True)
    bad = ck.coq_cases("opts", IMPORTS, "opts_case_ok", cases, ty="opts_case")
    ck.log(f"options grid: {len(grid)} argument combinations, {len(bad)} model disagreements")
    for i in bad[:1]:
        ck.violation("correspondence/SubscribeOptions", "modelled options normalisation and real SubscribeOptions disagree",
                     {"options": grid[i], "real": real[i]}, found_input=False)


def load_corpus():
    out = []
    for p in sorted(glob.glob(os.path.join(vlib.ROOT, "corpus", "C11", "*.json"))):
        d = json.load(open(p))
        out.append((os.path.basename(p), d["ops"]))
    return out


def op_shape(ops):
    return ",".join(o[0] for o in ops)


def run(ck):
    ck.extra_tb += [
        "modelled, not verified: CPython dict/list semantics (list iterator positions into the live list, f(**d) copying d), "
        "txaio callback ordering (Twisted synchronous; asyncio one loop turn later, gather after its members)",
        "transport that answers from inside send(): the fake transport delivers the scripted router messages to "
        "session.onMessage before send() returns, catches what onMessage raises and goes on (as an in-process router link would)",
        "EventDetails fields publisher_authid / publisher_authrole / transaction_hash / forward_for are opaque in the model "
        "(one token per combination, copied from the EVENT into the details); the oracle compares them field by field",
        "not modelled (never generated): encrypted payloads (enc_algo / payload codec), x_acknowledged_delivery, "
        "check_types wrappers, coroutine handlers, cancelled on_reply futures, request id wrap-around at 2**53, "
        "re-joining a session object after transport loss, falsy handler objects (`if handler.obj`)",
        "the subscriber projection starts from a joined session; joining/GOODBYE and the other request tables belong to "
        "Model/Session*.v of other properties",
        "oracle assumptions: a handler is identified by the request id of the SUBSCRIBE the implementation sent for it; "
        "a handler unsubscribed by an earlier handler of the same dispatch must not receive that event any more "
        "(never-after-unsubscribe takes precedence over attached-at-arrival); on asyncio a check_types handler is a "
        "coroutine: 'invoked' is the call made by the dispatch loop at the handler's turn (the Task), its body starts in the "
        "following loop turn - after the plain handlers, in subscription order among coroutine handlers, and even if a later "
        "handler of the same event unsubscribed it meanwhile",
    ]
    ck.rule.append("random interleavings (seeded) over subscribe(callable)/subscribe(decorated object)/unsubscribe/"
                   "SUBSCRIBED/UNSUBSCRIBED/ERROR/revocation/EVENT(all payload shapes; every field that ends up in EventDetails: "
                   "publisher, publisher_authid/authrole, topic, retained, transaction_hash, forward_for with 0..3 hops incl. "
                   "anonymous ones)/transport loss; handlers are real "
                   "functions of every signature kind (fixed / *args / **kwargs / both / keyword-only, int or str type hints) "
                   "subscribed with check_types on or off and with every form of SubscribeOptions (none / details None,False,True / "
                   "details_arg / invalid combination; match, get_retained; per-method and call-level options of the object form); "
                   "about a quarter of the subscribe / unsubscribe calls get their reply (and possibly an EVENT) delivered from "
                   "INSIDE transport.send(); the options normalisation is compared on the whole argument grid; steered to keep "
                   "several handlers per subscription id and pending requests alive; each history runs on the real session "
                   "under Twisted and asyncio and in the Gallina model. non-trivial = at least one EVENT reached a "
                   "subscription with >= 1 handler; distinct = distinct (framework, history)")
    broken = ck.coq_props()
    ok, out = vlib.coq_make(["Model/SessionSubRun.vo"])
    if not ok:
        raise RuntimeError("SessionSubRun build failed: " + out[-1500:])

    check_options_grid(ck)
    n_hist, maxlen = (1500, 12) if ck.quick() else (8000, 20)
    n_hist = int(os.environ.get("AV_C11_N", n_hist))          # development aid only
    rng = ck.rng("hist")
    corpus = load_corpus()
    hists = [ops for _, ops in corpus] + [gen_history(rng, maxlen) for _ in range(n_hist)]
    ck.log(f"{len(corpus)} corpus + {n_hist} generated histories (<= {maxlen} ops) x {len(FLAVOURS)} frameworks")
    res = run_histories(ck, hists)

    cases, index = [], []
    oracle_hits = {}          # key -> (fw, ops, text)
    for fw in FLAVOURS:
        for hi, (ops, outs) in enumerate(zip(hists, res[fw])):
            cases.append(coq_case(fw, ops, outs))
            index.append((fw, hi))
            ck.evaluations += 1
            nontriv = False
            for op, o in zip(ops, outs):
                ck.bump("op:" + op[0])
                for x in o:
                    ck.bump("out:" + x[0] + (":" + x[1][0] if x[0] == "raised" else ""))
                if op[0] == "event" and any(x[0] in ("invoke", "usererror") for x in o): nontriv = True
            if nontriv:
                ck.note_cases(0, [json.dumps([fw, ops], sort_keys=True)])
            for key, text in Oracle.check(ops, outs, fw):
                ck.bump("oracle:" + key)
                if key not in oracle_hits or len(ops) < len(oracle_hits[key][1]):
                    oracle_hits[key] = (fw, ops, text)
    for s in (0, 1, len(corpus) + 1):
        if s < len(hists): ck.sample({"fw": "tx", "ops": hists[s], "observed": res["tx"][s]})

    bad = ck.coq_cases("sub", IMPORTS, "sub_case_ok", cases, ty="sub_case", shard=300)
    ck.log(f"model comparison: {len(cases)} (framework, history) cases, {len(bad)} disagreements; "
           f"oracle keys hit: {sorted(oracle_hits)}")
    ck.bump("model_compared", len(cases))

    # verdicts 1: the implementation contradicts the property text on a concrete history
    for key, (fw, ops, text) in sorted(oracle_hits.items()):
        if any(k.get("property") == ck.pid and k.get("status") == "known" and k.get("key") == key for k in ck.known):
            ck.violation(key, text, {"fw": fw, "ops": ops}, found_input=True)      # prints KNOWN-FINDING once
            continue
        small = shrink(ck, ops, fw, key)
        rr = run_histories(ck, [small])
        both = []
        for f in FLAVOURS:
            hit = [t for k, t in Oracle.check(small, rr[f][0], f) if k == key]
            if hit:
                both.append(f); text = hit[0]
        ck.violation(key, f"{text} [frameworks: {','.join(both) or fw}]",
                     {"fw": fw, "frameworks": both, "ops": small, "observed": rr[both[0] if both else fw][0]},
                     found_input=True)
    # verdicts 2: model and implementation disagree -> look for a property-level failure nearby, else report the tie broken
    reported = 0
    for i in bad:
        fw, hi = index[i]
        ops = hists[hi]
        if Oracle.check(ops, res[fw][hi], fw):
            continue                     # already reported with a concrete input above
        if reported >= 3: break
        reported += 1
        # first disagreeing prefix
        fails = ck.coq_cases("pfx", IMPORTS, "sub_case_ok",
                             [coq_case(fw, ops[:n], res[fw][hi][:n]) for n in range(1, len(ops) + 1)], ty="sub_case")
        lo = (fails[0] + 1) if fails else len(ops)
        pre = ops[:lo]
        near = [pre[:j] + pre[j + 1:] for j in range(len(pre))] + [pre]
        found = None
        rr = run_histories(ck, near)
        for f in FLAVOURS:
            for c, o in zip(near, rr[f]):
                b = Oracle.check(c, o, f)
                if b and not found: found = (f, c, b[0])
        if found:
            ck.violation(found[2][0], found[2][1], {"fw": found[0], "ops": found[1]}, found_input=True)
        else:
            model = ck.coq_eval(IMPORTS, [f"model_outputs {0 if fw == 'tx' else 1} {olist(coq_op(o) for o in pre)}"])
            ck.violation(f"correspondence/{pre[-1][0]}", f"Gallina model and real session disagree at operation {lo - 1} "
                         f"({pre[-1][0]}) on {fw}; the property oracle accepts the implementation's behaviour",
                         {"fw": fw, "ops": pre, "implementation": res[fw][hi][:lo], "model": model[0][:3000]}, found_input=False)
    if broken and not oracle_hits:
        ck.log("proof obligations broken, no failing input found by the oracle over this run's histories")


def replay(path):
    d = json.load(open(path))
    r = d.get("replay", d)
    ops = r["ops"]
    ck = vlib.Check("C11", "quick", 1)
    rc = 0
    print("history:")
    for i, o in enumerate(ops): print(f"  {i}: {json.dumps(o)}")
    for fw in (r.get("frameworks") or FLAVOURS):
        outs = ck.run_impl("wamp_events.py", {"fw": fw, "cases": [ops]})["results"][0]
        print(f"--- implementation ({fw})")
        for i, o in enumerate(outs): print(f"  {i}: {json.dumps(o)}")
        bad = Oracle.check(ops, outs, fw)
        for k, t in bad: print(f"  ORACLE {k}: {t}")
        agree = ck.coq_cases("replay", IMPORTS, "sub_case_ok", [coq_case(fw, ops, outs)], ty="sub_case") == []
        print(f"  Gallina model agrees with implementation: {agree}")
        if not agree:
            print("  model:", ck.coq_eval(IMPORTS, [f"model_outputs {0 if fw == 'tx' else 1} {olist(coq_op(o) for o in ops)}"])[0])
        if bad or not agree: rc = 1
    return rc
