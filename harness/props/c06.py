"""C06 — WAMP sessions end cleanly on every path and leave nothing pending.
Shares the Session model, renderers and driver plumbing with c04.py."""
import json

import vlib
from props import c04

FRAMEWORKS = c04.FRAMEWORKS


# ------------------------------------------------------------------------------------------------------------------
# generator: a router conversation the WAMP state machine permits, a population of the six pending tables, then
# faults: one illegal message / local leave / local disconnect / transport loss at a random position, API calls after
# the end; user callbacks raising or returning according to a random configuration
# ------------------------------------------------------------------------------------------------------------------
def gen_cfg(rng):
    adversarial = rng.random() < 0.5
    if not adversarial:
        return dict(c04.DEFAULT_CFG, challenge=rng.choice(["sig", "raise"]), lenient=rng.random() < 0.2)
    return {"connect": rng.choice(["join"] * 6 + ["raise"]),
            "welcome": rng.choice(["none"] * 4 + ["deny", "raise"]),
            "challenge": rng.choice(["sig", "sig", "none", "raise"]),
            "join_raises": rng.random() < 0.25,
            "leave_super": rng.random() < 0.75, "leave_raises": rng.random() < 0.3,
            "disc_super": rng.random() < 0.8, "disc_raises": rng.random() < 0.25,
            "lenient": rng.random() < 0.3}


def populate(rng, sh, how):
    """API calls that fill the pending tables: 'empty' | 'each' (one request of every kind) | 'mixed'"""
    ops = []
    if how == "empty":
        return ops
    if how == "each":
        # subscribe + register answered first so that unsubscribe/unregister requests can be pending as well
        ops.append(["subscribe", 1, None]); rid_s, js = sh.new("subscribe")
        ops.append(["register", 2, None]); rid_r, jr = sh.new("register")
        ops.append(["subscribed", rid_s, 77]); sh.take_id("subscribe", rid_s)
        ops.append(["registered", rid_r, 55]); sh.take_id("register", rid_r)
        ops.append(["turn"])
        if rng.random() < 0.6:
            # a second handler on the same subscription id, a second registration
            ops.append(["subscribe", 1, None]); rid_s2, _ = sh.new("subscribe")
            ops.append(["register", 7, None]); rid_r2, _ = sh.new("register")
            ops.append(["subscribed", rid_s2, 77]); sh.take_id("subscribe", rid_s2)
            ops.append(["registered", rid_r2, 56]); sh.take_id("register", rid_r2)
            ops.append(["turn"])
        ops.append(["unsubscribe", js]); sh.new("unsubscribe")
        ops.append(["unregister", jr]); sh.new("unregister")
        ops.append(["call", 3, [1], [], None]); sh.new("call")
        ops.append(["publish", 4, [], [], {"ack": True, "excl": None}]); sh.new("publish")
        ops.append(["subscribe", 5, None]); sh.new("subscribe")
        ops.append(["register", 6, None]); sh.new("register")
        return ops
    for _ in range(rng.randint(1, 5)):
        ops.append(c04.gen_api_op(rng, sh))
        if rng.random() < 0.3 and sh.next_id:
            ops.append(c04.gen_reply_op(rng, sh, sh.next_id))
    return ops


class Shadow(c04.Shadow):
    def take_id(self, kind, rid):
        for p in list(self.pending):
            if p[0] == kind and p[1] == rid:
                self.pending.remove(p)
                self.answered.append(p[:2])


ILLEGAL_PRE = [["goodbye", "normal"], ["published", 1, 5], ["result", 1, False, None, None], ["event", 77], ["other"],
               ["error", 48, 1, 1, None, None], ["subscribed", 1, 77], ["invocation", 1, 55], ["unregistered", 0, 55]]
ILLEGAL_POST = [["welcome", 99], ["abort", "noauth"], ["challenge"], ["other"]]


def gen_c06_case(rng, fw):
    cfg = gen_cfg(rng)
    cfg["bystander"] = rng.choice([0, 0, 0, 1, 2])      # a second session object in the process (see wamp_session.Bystander)
    sh = Shadow()
    ops = [["open"]]
    phase = []          # parallel list: phase tag of each op ('pre' | 'est' | 'post')
    for _ in range(rng.choice([0, 0, 0, 1, 2])):
        ops.append(["challenge"])
    outcome = rng.choice(["welcome"] * 6 + ["abort", "none"])
    if outcome == "abort":
        ops.append(["abort", rng.choice(["noauth", 7])])
    elif outcome == "welcome":
        ops.append(["welcome", rng.choice([1234, 1234, 1234, 1, 0])])
        ops += populate(rng, sh, rng.choice(["empty", "each", "mixed", "mixed"]))
        if rng.random() < 0.5:
            # the retry idiom: callbacks / errbacks of pending requests that issue a request again when they fire
            for _ in range(rng.randint(1, 3)):
                ops.append(c04.gen_react_op(rng, sh))
        ending = rng.choice(["router_goodbye", "leave_then_goodbye", "leave_only", "none", "disconnect"])
        if ending == "router_goodbye":
            ops.append(["goodbye", rng.choice(["normal", 3])])
        elif ending == "leave_then_goodbye":
            ops.append(["leave", rng.choice([None, 4])])
            if rng.random() < 0.3 and sh.next_id:
                ops.append(c04.gen_reply_op(rng, sh, sh.next_id))
            ops.append(["goodbye", "normal"])
        elif ending == "leave_only":
            ops.append(["leave", None])
        elif ending == "disconnect":
            ops.append(["disconnect"])
    # faults
    def insert(op, lo=1):
        pos = rng.randint(lo, len(ops))
        ops.insert(pos, op)
    r = rng.random()
    if r < 0.35:
        # one illegal message at a random position: pick from the set that is illegal where it lands
        pos = rng.randint(1, len(ops))
        established = any(o[0] == "welcome" for o in ops[:pos]) and not any(o[0] in ("goodbye", "abort") for o in ops[:pos])
        ops.insert(pos, list(rng.choice(ILLEGAL_POST if established else ILLEGAL_PRE)))
    if rng.random() < 0.3:
        insert(["leave", rng.choice([None, 5])])
    if rng.random() < 0.2:
        insert(["disconnect"])
    if rng.random() < 0.6:
        insert(["lost", rng.random() < 0.5])
    elif rng.random() < 0.7:
        ops.append(["lost", False])
    # API calls after the end: every API, against whatever local state the history built (several handlers on one
    # subscription, several registrations, pending requests)
    for _ in range(rng.choice([0, 1, 1, 2, 3])):
        ops.append(rng.choice([["call", 1, [], [], None], ["publish", 2, [], [], {"ack": True, "excl": None}],
                               ["subscribe", 3, None], ["register", 4, None], ["leave", None], ["disconnect"],
                               ["publish", 2, [], [], None],
                               ["unsubscribe", rng.choice(sh.sub_futs) if sh.sub_futs else 0],
                               ["unsubscribe", rng.choice(sh.sub_futs) if sh.sub_futs else 1],
                               ["unregister", rng.choice(sh.reg_futs) if sh.reg_futs else 0],
                               ["cancel", rng.randrange(0, max(1, sh.nret))]]))
    # a second life of the same session object (the factories re-use a session instance for every reconnect)
    if rng.random() < 0.3 and any(o[0] == "lost" for o in ops):
        ops.append(["open"])
        if rng.random() < 0.85:
            ops.append(["welcome", rng.choice([1235, 1235, 2])])
            for _ in range(rng.randint(0, 3)):
                ops.append(c04.gen_api_op(rng, sh))
            ops += rng.choice([[["goodbye", "normal"]], [["leave", None], ["goodbye", "normal"]], [["leave", None]], []])
        else:
            ops.append(["abort", "noauth"])
        if rng.random() < 0.8:
            ops.append(["lost", rng.random() < 0.5])
    # free text in the details of the router's GOODBYE / ABORT (plain, braces, format directives): it is data, nothing
    # depends on it (third element of the op, an index into wamp_session.MESSAGES; the model has no such field)
    for o in ops:
        if o[0] in ("goodbye", "abort") and len(o) == 2 and rng.random() < 0.5:
            o.append(rng.randrange(1, 9))
    # asyncio: loop iterations; mostly after every op (settled), sometimes sparse (two messages in one read)
    if fw == "aio":
        mode = rng.choice(["settled", "settled", "sparse", "none"])
        ops = aio_schedule(ops, lambda o: 3 if mode == "settled" else (rng.randint(1, 2) if mode == "sparse" and rng.random() < 0.5 else 0))
    return {"cfg": cfg, "ops": ops}


def aio_schedule(ops, turns_after):
    """insert loop iterations.  The router answers HELLO / AUTHENTICATE, which asyncio sends one iteration after
    onOpen / CHALLENGE: at least one turn follows those ops; everywhere else any number (including none: two messages
    in one read)."""
    out = []
    for o in ops:
        if o[0] == "open" and out:
            out += [["turn"]] * 3          # a reconnect takes many loop iterations: the previous life has settled
        out.append(o)
        k = turns_after(o)
        if o[0] in ("open", "challenge"):
            k = max(1, k)
        out += [["turn"]] * k
    return out + [["turn"], ["turn"], ["turn"]]


# ------------------------------------------------------------------------------------------------------------------
# property oracle for C06 (from the property text; reads only the implementation log)
# ------------------------------------------------------------------------------------------------------------------
HANDSHAKE = ("welcome", "abort", "challenge")


ROUTER_MSGS = ("welcome", "abort", "challenge", "goodbye", "published", "subscribed", "unsubscribed", "result",
               "registered", "unregistered", "error", "event", "invocation", "interrupt", "other")


def conversation(cfg, ops):
    """the phase of the ROUTER CONVERSATION at every op, as the WAMP state machine defines it (not the session's own
    view): 'pre' (HELLO sent, no WELCOME yet), 'est' (WELCOME received), 'post' (GOODBYE / ABORT exchanged, client
    aborted, or transport gone).  Returns (phases before each op, number of router messages illegal in their phase)."""
    phase, phases, illegal = "pre", [], 0
    for o in ops:
        n = o[0]
        phases.append(phase)
        if n == "lost":
            phase = "post"
        elif n == "challenge" and phase == "pre" and cfg["challenge"] != "sig":
            phase = "post"              # the client aborts the handshake itself
        elif n in ROUTER_MSGS:
            if phase == "pre":
                if n == "challenge": pass
                elif n == "welcome": phase = "est" if cfg["welcome"] == "none" else "post"
                elif n == "abort": phase = "post"
                else: illegal += 1
            elif phase == "est":
                if n in HANDSHAKE or n == "other": illegal += 1
                elif n == "goodbye": phase = "post"
            else:
                illegal += 1
    return phases, illegal


def oracle_c06(fw, cfg, ops, res):
    """A history is a sequence of LIVES of one session object (a new life starts with each onOpen after the previous
    transport was lost: the transport factories re-use a session instance for every reconnect).  Every clause about one
    session / one transport connection is judged in each life separately (_oracle_life); futures are followed across
    lives; the end-state clauses are judged at the end of the history."""
    trace = res["trace"]
    iso = [(f"isolation/other-session-object-disturbed/{what}", text) for what, text in res.get("bystander") or []]
    starts = [i for i, o in enumerate(ops) if o[0] == "open" and any(p[0] == "lost" for p in ops[:i])
              and not _attached_before(ops, i)]
    bounds = [0] + starts + [len(ops)]
    glob = {"created": {}, "how": {}, "reg_req": {}, "dupreg": set(), "completed_at": {}, "rid": {}, "stale": set(), "life": 0,
            "sid0": any(o[0] == "welcome" and o[1] == 0 for o in ops)}
    v = list(iso)
    zombie = None
    for k in range(len(bounds) - 1):
        a, b = bounds[k], bounds[k + 1]
        if a == b: continue
        glob["life"] = k
        vk = _oracle_life(fw, cfg, ops[a:b], trace[a:b], res, b == len(ops), glob, a)
        if zombie is not None:
            # an earlier life left a session id behind on the dead object (see _zombie_session_id): whatever goes wrong
            # in this life is that one defect
            if vk:
                v.append((ZOMBIE_KEY, f"[life {k + 1} of the session object] the WELCOME of life {zombie[0] + 1} (op "
                          f"{zombie[1]}) was still being processed (asyncio: one loop iteration later) when the transport "
                          f"was lost; its continuation then set the session id on the dead object, nothing clears it, "
                          f"the object does not join in its next life; first symptom: {vk[0][1]}"))
            continue
        for key, text in vk:
            v.append((key, text if k == 0 else f"[life {k + 1} of the session object] " + text))
        w = _zombie_session_id(fw, cfg, ops[a:b], trace[a:b])
        if w is not None:
            zombie = (k, a + w)
    return v


STALE_KEY = "pending/record-of-previous-life-overwritten-after-rejoin"
ZOMBIE_KEY = "asyncio-deferred-continuation/session-id-set-after-disconnect/next-life-cannot-join"


def _zombie_session_id(fw, cfg, ops, trace):
    """asyncio: index of a WELCOME that was accepted (onWelcome ran) but whose continuation -- the one that sets the
    session id, one loop iteration later -- had not run yet when the transport was lost"""
    if fw != "aio" or cfg["welcome"] != "none":
        return None
    w = None
    for i, (o, evs) in enumerate(zip(ops, trace)):
        if o[0] == "welcome" and any(e[0] == "called" and e[1][0] == "welcome" for e in evs): w = i
        elif o[0] == "turn": w = None
        elif o[0] == "lost" and w is not None: return w
    return None


def _attached_before(ops, i):
    """is a transport attached just before op i (an 'open' then is ignored by driver and model)"""
    att = False
    for o in ops[:i]:
        if o[0] == "open": att = True
        if o[0] == "lost": att = False
    return att


def _oracle_life(fw, cfg, ops, trace, res, last, glob, offset):
    """(key, text) list, from the property text, on the implementation log only.  Clauses about callback order and
    at-most-once are judged on histories whose router follows the WAMP state machine with at most one illegal message
    (the property's quantifier) and whose WELCOME carries a session id in 1..2^53.
       order/...        connect <= join <= leave <= disconnect, each at most once
       phase-gate/...   illegal message for the phase not rejected / legal message rejected
       leave/...        a joined session ended, or the router aborted, and onLeave did not fire
       goodbye/...      GOODBYE sent twice in a session; reply sent although initiated / missing although not
       pending/...      futures or table entries left after the end
       api-after-end/.. API call after the end returned a pending future
       .../ESCAPED/...  an exception other than ProtocolError left an entry point"""
    v = []
    phases, n_illegal = conversation(cfg, ops)
    sid0 = glob["sid0"]           # a session id 0 (outside 1..2^53) is never forgotten: it poisons later lives too
    in_scope = n_illegal <= 1 and not sid0 and cfg["connect"] == "join"     # no HELLO, no legal conversation
    default_user = cfg["leave_super"] and cfg["disc_super"] and cfg["connect"] == "join"
    last_router = None
    fired = []                     # (name) in order
    lost = False
    created = glob["created"]      # future j -> (global) op index of creation
    how = glob["how"]              # future j -> "call" | "reentrant-call" | ... (which API call created it, and whether
                                   #             from inside a callback)
    reg_req, dupreg = glob["reg_req"], glob["dupreg"]   # register request id -> future; futures hit by the duplicate-
                                                        # registration-id finding
    completed_at = glob["completed_at"]
    goodbye_out = 0
    initiated = False
    session_open = False           # onJoin fired, neither left nor lost yet
    turns_since_leave = 0
    post_accept = False            # a handshake message was processed after the end: later disorder is its consequence
    for i, (op, evs) in enumerate(zip(ops, trace)):
        n = op[0]
        if n in ROUTER_MSGS:
            last_router = n
        cause = n if n != "turn" else "turn(deferred-continuation)"
        raised_pe = any(e[0] == "raised" and e[1] == "ProtocolError" for e in evs)
        reent = False
        last_req = None
        for e in evs:
            if e[0] == "reenter":
                reent = True
            if e[0] in ("sent", "dropped") and e[1][0] in c04.REQUEST_MSGS:     # dropped: accepted by a closing transport
                last_req = e[1]
            if e[0] == "apiret" and e[1] is not None and last_req is None:
                how.setdefault(e[1], "no-request")
            if e[0] == "apiret" and e[1] is not None and last_req is not None:
                # join() starts the request ids of the new session at 1 again but keeps the request tables: a record that
                # survived the previous life (user's onDisconnect without the default sweep) is overwritten by the request
                # of the new session that gets the same id
                for j0, (k0, i0, l0) in glob["rid"].items():
                    if (k0, i0) == (last_req[0], last_req[1]) and l0 < glob["life"] and j0 not in completed_at:
                        glob["stale"].add(j0)
                glob["rid"][e[1]] = (last_req[0], last_req[1], glob["life"])
                how[e[1]] = ("reentrant-" if reent else "") + last_req[0]
                if last_req[0] == "register":
                    reg_req[last_req[1]] = e[1]
                last_req = None
        if n == "registered" and raised_pe and op[1] in reg_req:
            dupreg.add(reg_req[op[1]])        # REGISTERED for a pending register request rejected: duplicate registration id
        for e in evs:
            if e[0] == "apiret" and e[1] is not None:
                created[e[1]] = i + offset
            if e[0] == "completed":
                if e[1] in completed_at:
                    v.append(("future/completed-twice", f"future {e[1]} completed twice (ops {completed_at[e[1]]}, {i + offset})"))
                completed_at[e[1]] = i + offset
            if e[0] == "raised" and e[1] != "ProtocolError" and n != "result":
                if not (e[1] == "TransportLost" and n == "goodbye" and not cfg.get("lenient")):
                    v.append((f"{n}/ESCAPED/{e[1]}", f"{e[1]} escaped at op {i}: {op}"))
            if e[0] == "called" and e[1][0] == "leave" and n == "goodbye" and e[1][2] is not None:
                v.append(("leave/session-id-still-set-inside-onLeave", f"onLeave at op {i} sees session id {e[1][2]}"))
            if e[0] == "called" and e[1][0] in ("connect", "join", "leave", "disconnect"):
                c = e[1][0]
                if in_scope:
                    what = None
                    if c == "connect" and fired: what = "connect-not-first"
                    if c == "join":
                        if "join" in fired: what = "join-twice"
                        elif "disconnect" in fired: what = "join-after-disconnect"
                        elif "leave" in fired: what = "join-after-leave"
                    if c == "leave":
                        if "leave" in fired: what = "leave-twice"
                        elif "disconnect" in fired: what = "leave-after-disconnect"
                    if c == "disconnect" and "disconnect" in fired: what = "disconnect-twice"
                    if what and not (n in ROUTER_MSGS and phases[i] == "post") and not post_accept:
                        key = f"asyncio-deferred-continuation/order/{what}" if n == "turn" else f"order/{what}/by-{cause}"
                        v.append((key, f"callbacks so far {fired}, now {c} at op {i} ({op})"))
                fired.append(c)
                if c == "join": session_open = True
                if c == "leave": session_open = False; turns_since_leave = 0
            if e[0] == "sent" and e[1][0] == "goodbye":
                goodbye_out += 1
                if goodbye_out > 1 and in_scope:
                    v.append((f"goodbye/sent-twice/by-{cause}", f"second GOODBYE of the session at op {i}"))
                if n == "leave": initiated = True
            if e[0] == "dropped" and e[1][0] == "goodbye" and n == "leave":
                initiated = True
            if e[0] == "called" and e[1][0] == "welcome":
                goodbye_out, initiated = 0, False
        # --- phase gate, judged against the router conversation ---
        if n in ROUTER_MSGS and not lost and any(o2[0] == "open" for o2 in ops[:i]):
            ph = phases[i]
            accepted_cb = any(e[0] == "called" and e[1][0] in ("join", "leave", "welcome", "challenge") for e in evs)
            if ph == "pre" and n not in HANDSHAKE and not raised_pe:
                v.append((f"phase-gate/pre/{n}-accepted", f"{op} before WELCOME not rejected (op {i})"))
            if ph == "est" and cfg["welcome"] == "none":
                pfx = "asyncio-deferred-continuation/" if fw == "aio" else ""
                if (n in HANDSHAKE or n == "other") and not raised_pe:
                    v.append((f"{pfx}phase-gate/established/{n}-accepted", f"{op} on an established session not rejected (op {i})"))
                    post_accept = True
                if n == "goodbye" and raised_pe:
                    v.append((f"{pfx}phase-gate/established/goodbye-rejected",
                              f"router GOODBYE after WELCOME rejected as a protocol violation (op {i}); callbacks so far {fired}"))
            if ph == "post" and in_scope and n in HANDSHAKE and accepted_cb:
                v.append((f"phase-gate/closed/{n}-accepted", f"{op} after the end of the session was processed (op {i}): {evs}"))
                post_accept = True
        # --- GOODBYE reply ---
        if n == "goodbye" and phases[i] == "est" and in_scope and not raised_pe and not lost \
                and any(e[0] == "called" and e[1][0] == "leave" for e in evs):
            replied = any(e[0] in ("sent", "dropped", "sendfailed") and e[1][0] == "goodbye" for e in evs)
            if replied == initiated:
                v.append(("goodbye/reply-" + ("although-initiated" if replied else "missing"),
                          f"router GOODBYE at op {i}: reply handed to transport={replied}, this side initiated={initiated}"))
        # --- nothing pending once onLeave (default) has run: Twisted completes synchronously ---
        if fw == "tx" and cfg["leave_super"] and any(e[0] == "called" and e[1][0] == "leave" for e in evs):
            for j, at in created.items():
                if at < i + offset and j not in completed_at:
                    key = "pending/future-never-completed" if j in dupreg else STALE_KEY if j in glob["stale"] else \
                        f"pending/not-completed-by-onLeave/{how.get(j, '?')}"
                    v.append((key, f"future {j} (created at op {at}) not completed when onLeave ran at op {i}"))
        if n == "lost":
            lost = True
        if n == "turn":
            turns_since_leave += 1
        # --- API after the end ---
        if n in ("unsubscribe", "unregister") and lost:
            # whatever the local state (several handlers on the subscription, several registrations): it must fail
            if not any(e[0] == "apiraised" for e in evs):
                v.append((f"api-after-end/{n}-did-not-raise", f"{op} after transport loss: {evs}"))
        if n in ("call", "publish", "subscribe", "register"):
            ret = [e for e in evs if e[0] == "apiret" and e[1] is not None]
            if lost and not any(e[0] == "apiraised" and e[1] == "TransportLost" for e in evs):
                v.append((f"api-after-end/{n}-did-not-raise", f"{op} after transport loss: {evs}"))
            elif not lost and ret and "leave" in fired and not session_open and cfg["leave_super"] and in_scope \
                    and (fw == "tx" or turns_since_leave >= 2):
                v.append(("api-after-end/returned-pending/" + ("closing-transport" if cfg.get("lenient") else "open-transport"),
                          f"{op} after the session ended returned a pending future (op {i})"))
    # --- leave iff ---
    if in_scope and "join" in fired and lost:
        k = len(fired) - 1 - fired[::-1].index("join")
        if "leave" not in fired[k:] and "leave" not in fired[:k]:
            v.append(("leave/missing-after-session-end", f"joined session lost its transport, onLeave never fired: {fired}"))
    if in_scope:
        for i, (op, evs) in enumerate(zip(ops, trace)):
            if op[0] == "abort" and phases[i] == "pre" and not any(o2[0] == "lost" for o2 in ops[:i]) \
                    and any(o2[0] == "open" for o2 in ops[:i]) and "leave" not in fired:
                v.append(("leave/missing-after-abort", f"router ABORT at op {i}, onLeave never fired"))
    # --- nothing pending after the transport is gone (default onDisconnect) ---
    # once the transport is gone nothing is pending, whatever the user's onLeave / onDisconnect do (onClose sweeps in the
    # continuation of onDisconnect: on asyncio one loop iteration after the loss)
    swept = cfg["disc_super"] or fw == "tx" or \
        any(o[0] == "turn" for o in ops[max(i for i, o in enumerate(ops) if o[0] == "lost"):]) if lost else False
    if last and lost and swept:
        if any(res["tables"].values()):
            v.append(("pending/tables-not-empty-after-disconnect", f"tables {res['tables']} after transport loss"))
        for j, done in res["futures"].items():
            if not done:
                key = "pending/future-never-completed" if int(j) in dupreg else STALE_KEY if int(j) in glob["stale"] else \
                    f"pending/still-pending-after-disconnect/{how.get(int(j), '?')}"
                v.append((key, f"future {j} ({how.get(int(j), '?')}) still pending after the session and the transport are gone"))
    return v


def res_sid_truthy(ops):
    return not any(o[0] == "welcome" and o[1] == 0 for o in ops)


# ------------------------------------------------------------------------------------------------------------------
def systematic_cases(fw, cfgs=None, spacings=(0, 1, 3), trim=False):
    """exhaustive family: every single-fault variation (11 faults at every position) of 6 canonical conversations, under
    each configuration in `cfgs` (default: all 10); asyncio: with the given numbers of loop iterations between ops"""
    base = dict(c04.DEFAULT_CFG)
    convs = [
        [["open"], ["welcome", 1234], ["goodbye", "normal"], ["lost", True]],
        [["open"], ["welcome", 1234], ["leave", None], ["goodbye", "normal"], ["lost", True]],
        # (third element of goodbye / abort: free text in details["message"], here with braces / format directives)
        [["open"], ["challenge"], ["welcome", 1234], ["goodbye", 3, 2], ["lost", False]],
        [["open"], ["abort", "noauth", 5], ["lost", False]],
        [["open"], ["challenge"], ["abort", 7, 3], ["lost", False]],
        [["open"], ["welcome", 1234], ["subscribe", 1, None], ["register", 2, None], ["subscribed", 1, 77],
         ["registered", 2, 55], ["turn"], ["unsubscribe", 0], ["unregister", 1], ["call", 3, [1], [], None],
         ["publish", 4, [], [], {"ack": True, "excl": None}], ["subscribe", 5, None], ["register", 6, None],
         ["goodbye", "normal"], ["lost", True]],
    ]
    convs += [
        # two lives of one session object: the first left locally, the second closed by the router -- and vice versa
        [["open"], ["welcome", 1234], ["leave", None], ["goodbye", "normal"], ["lost", True],
         ["open"], ["welcome", 1235], ["goodbye", "normal"], ["lost", True]],
        [["open"], ["welcome", 1234], ["goodbye", "normal"], ["lost", True],
         ["open"], ["welcome", 1235], ["leave", None], ["goodbye", "normal"], ["lost", True]],
    ]
    faults = [["lost", False], ["leave", None], ["disconnect"], ["goodbye", "normal"], ["welcome", 99], ["abort", "noauth"],
              ["challenge"], ["other"], ["published", 9, 9], ["call", 1, [], [], None], ["subscribe", 1, None]]
    all_cfgs = [base, dict(base, challenge="sig"), dict(base, leave_raises=True), dict(base, leave_super=False),
                dict(base, join_raises=True), dict(base, welcome="deny"), dict(base, welcome="raise"),
                dict(base, disc_raises=True), dict(base, lenient=True), dict(base, challenge="none")]
    out = []
    for conv in convs:
        # trim (quick tier): in the two-life conversations the faults go into the second life only (the first life is
        # one of the single-life conversations above), asyncio with the widest spacing only
        second = next((i for i, o in enumerate(conv) if o[0] == "open" and i > 0), None)
        first_p = second + 1 if (trim and second is not None) else 1
        for cfg in (all_cfgs if cfgs is None else [all_cfgs[i] for i in cfgs]):
            variants = [conv] + [conv[:p] + [f] + conv[p:] for p in range(first_p, len(conv) + 1) for f in faults]
            for ops in variants:
                if fw == "aio":
                    for spacing in (spacings[-1:] if (trim and second is not None) else spacings):
                        out.append({"cfg": cfg, "ops": aio_schedule(ops, lambda o, k=spacing: k)})
                else:
                    out.append({"cfg": cfg, "ops": ops})
    return out


def api_after_end_cases(fw, trim=False):
    """every API call x every way the session can end, on a rich local state: two handlers on subscription 77, one on 78,
    two registrations, one pending request of each of call / publish / subscribe / register"""
    base = dict(c04.DEFAULT_CFG)
    build = [["open"], ["welcome", 1234],
             ["subscribe", 1, None], ["subscribe", 1, None], ["subscribe", 2, None], ["register", 3, None], ["register", 4, None],
             ["subscribed", 1, 77], ["subscribed", 2, 77], ["subscribed", 3, 78], ["registered", 4, 55], ["registered", 5, 56],
             ["turn"],
             ["call", 5, [1], [], None], ["publish", 6, [], [], {"ack": True, "excl": None}], ["subscribe", 7, None],
             ["register", 8, None]]
    ends = [[["goodbye", "normal"], ["lost", True]], [["lost", False]], [["leave", None], ["goodbye", "normal"], ["lost", True]],
            [["goodbye", "normal"]], [["disconnect"]]]
    apis = [["call", 1, [], [], None], ["publish", 2, [], [], {"ack": True, "excl": None}], ["publish", 2, [], [], None],
            ["subscribe", 3, None], ["register", 4, None], ["unsubscribe", 0], ["unsubscribe", 1], ["unsubscribe", 2],
            ["unregister", 3], ["unregister", 4], ["cancel", 5], ["leave", None], ["disconnect"]]
    out = []
    for cfg in (dict(base, bystander=1), dict(base, lenient=True)):
        # trim (quick tier): the transport that accepts send() after close() differs only for the endings without loss
        for end in (ends[3:] if (trim and cfg["lenient"]) else ends):
            for api in apis:
                ops = build + end + [api, ["unsubscribe", 1], ["call", 1, [], [], None]]
                out.append({"cfg": cfg, "ops": aio_schedule(ops, lambda o: 2) if fw == "aio" else ops})
    return out


def run(ck):
    ck.rule.append(
        "router conversations the WAMP session state machine permits (CHALLENGE*, WELCOME|ABORT, requests populating the "
        "six tables {empty, one of each kind, mixed}, GOODBYE from either side) with one illegal message / local leave / "
        "local disconnect / transport loss inserted at random positions, API calls after the end, user callbacks "
        "(onConnect/onWelcome/onChallenge/onJoin/onLeave/onDisconnect) returning or raising per a random configuration, two "
        "transport behaviours after close(); plus the systematic family: 6 canonical conversations x 10 configurations x "
        "every single fault (11) at every position (asyncio: with 0/1/3 loop iterations between ops; quick: the whole "
        "family under the default configuration, a sample under the other nine); histories of TWO lives of one session "
        "object (a new transport handed to the object after it lost the first one; random: 30%, systematic: two "
        "conversations); the matrix every API call (13: the six request kinds, unsubscribe of a non-last / last handler, "
        "unregister, cancel, leave, disconnect) x every ending (5) x transport behaviour (2) on a rich local state (two "
        "handlers on one subscription id, a second subscription, two registrations, a pending request of four kinds); free "
        "text (plain / braces / format directives) in the details of the router's GOODBYE / ABORT; a second session object "
        "alive in the same process with pending requests of its own, which must stay exactly as it was.  "
        "Each life is judged separately by the same per-life oracle.  Run on the real "
        "ApplicationSession under Twisted and asyncio and on the Gallina model; compared per op: callbacks (with the "
        "session id visible inside onLeave), messages sent, transport close, completion of every tracked future, API "
        "exceptions; end state (session id, transport, goodbye flag, id generator, table sizes).  non-trivial = a session "
        "was joined or aborted; distinct = distinct (framework, configuration, history)")
    ck.extra_tb += [
        "modelled, not verified: txaio continuation semantics per framework as written in Model/Session.v; a session object "
        "gets a new transport only after it lost the previous one; transports deliver no message after onClose; user "
        "callbacks are synchronous; life-cycle callbacks do not re-enter the API (request callbacks may: C04/C06 react "
        "ops); an explicit second join() from user code inside one life is not modelled",
        "oracle assumptions: fake ITransport (raise-after-close or RawSocket-like acceptance after close()); virtual clock / loop of "
        "harness/impl/wampdrv.py; asyncio loop iteration = callbacks queued before it (like BaseEventLoop._run_once)",
        "translator: translators/wamp_types.py regenerated from the tree under test",
    ]
    c04.regenerate(ck)
    broken = ck.coq_props()
    ck.log(f"coq: property file built, broken obligations: {broken}")
    ok, out = vlib.coq_make(["Model/SessionRun.vo"])
    if not ok:
        raise RuntimeError("SessionRun build failed: " + out[-1500:])
    n_hist = 250 if ck.quick() else 15000
    jobs = []
    shards = 4 if ck.quick() else 8
    for fw in FRAMEWORKS:
        rng = ck.rng(f"hist/{fw}")
        cases = [dict(c) for c in c04.load_corpus("C06") if c.get("fw", fw) == fw]
        for c in cases: c.pop("fw", None)
        if ck.quick():
            # the whole fault-at-every-position family under the default configuration (asyncio: no / three loop
            # iterations between ops), a sample of it under the nine other configurations
            r2 = ck.rng(f"sys/{fw}")
            rest = systematic_cases(fw, cfgs=range(1, 10))
            sysc = systematic_cases(fw, cfgs=[0], spacings=(0, 3), trim=True) + r2.sample(rest, min(len(rest), 200))
            sysc += api_after_end_cases(fw, trim=True)
        else:
            sysc = (systematic_cases(fw, cfgs=[0]) + systematic_cases(fw, cfgs=range(1, 10), trim=True)
                    + api_after_end_cases(fw))
        cases += sysc
        cases += [gen_c06_case(rng, fw) for _ in range(n_hist)]
        per = (len(cases) + shards - 1) // shards
        for k in range(0, len(cases), per):
            jobs.append((fw, cases[k:k + per]))
    results = c04.run_histories_parallel(ck, jobs)
    items = [(fw, c["cfg"], c["ops"], r) for (fw, cases), rs in zip(jobs, results) for c, r in zip(cases, rs)]
    ck.evaluations += len(items)
    nontriv = [it for it in items if any(e[0] == "called" and e[1][0] in ("join", "leave") for evs in it[3]["trace"] for e in evs)]
    ck.note_cases(0, (c04.canon_case(fw, cfg, ops) for fw, cfg, ops, _ in nontriv))
    for it in nontriv[:3]:
        ck.sample({"fw": it[0], "cfg": it[1], "ops": it[2], "trace": it[3]["trace"]})
    ck.log(f"implementation: {len(items)} histories ({len(nontriv)} non-trivial)")
    found = {}
    for it in items:
        for key, text in oracle_c06(*it):
            ck.bump("oracle:" + key)
            if key not in found or len(it[2]) < len(found[key][1][2]):
                found[key] = (text, it)
    c04.report_findings(ck, found, oracle_c06, lambda fw: 1)
    bad = c04.model_compare(ck, "c06", items)
    ck.bump("model_compared", len(items))
    ck.log(f"model comparison: {len(items)} histories, {len(bad)} disagreements; oracle findings: {sorted(found)}")
    reported = 0
    for i in bad:
        fw, cfg, ops, res = items[i]
        if reported >= 3:
            break
        reported += 1

        def still(cands, results, fw=fw, cfg=cfg):
            bad_idx = set(c04.model_compare(ck, "c06shrink", [(fw, cfg, c, r) for c, r in zip(cands, results)]))
            return [i in bad_idx for i in range(len(cands))]
        small = c04.shrink(ck, fw, cfg, ops, still, keep_prefix=0, rounds=6)
        r2 = c04.run_histories(ck, fw, [{"cfg": cfg, "ops": small}])[0]
        shape = "/".join(o[0] for o in small[-4:])
        ck.violation(f"{fw}/model-disagrees/{shape}", "implementation and Gallina session model disagree "
                     "(correspondence broken)", {"fw": fw, "cfg": cfg, "ops": small, "trace": r2["trace"],
                                                 "model": c04.model_answer(ck, fw, cfg, small, r2)}, found_input=False)
    if broken:
        # the sweep above is the search for a concrete failing input; whatever it found is reported with its replay,
        # the broken obligations themselves are reported here (no failing input attached)
        ck.violation("obligation/" + broken[0], f"proof obligation(s) no longer check: {broken[:12]}",
                     {"broken_obligations": broken, "note": "see coverage.broken_obligations in the evidence file for the "
                      "coqc error; the history sweep of this run is the search for a failing input"}, found_input=False)


def replay(path):
    return c04.replay(path, pid="C06", oracle=oracle_c06)
