"""Translator (fail-closed): WAMP transport constants of the tree under test  ->  coq/Gen/RawSocketConsts.v

Reads VALUES by importing the modules of $AV_REPO/src (AV_REPO defaults to /repo):
  * autobahn.wamp.serializer : for every installed transport serializer class its SERIALIZER_ID (plain and batched
    instance), RAWSOCKET_SERIALIZER_ID and the BINARY flag of its object serializer;
  * autobahn.twisted.rawsocket / autobahn.asyncio.rawsocket : default maximum message sizes, the asyncio frame type
    constants and MAGIC_BYTE, the serializer id sets of the default server factories and the id of the default client
    serializer;
  * autobahn.wamp.websocket / autobahn.{twisted,asyncio}.websocket : the subprotocol list of the default factories,
    STRICT_PROTOCOL_NEGOTIATION, the WebSocket close codes used by the error mapping.

Prints the Coq file on stdout (harness/props/c13.py stores it with vlib.write_if_changed).  Anything unexpected raises
TranslatorError, the check then counts the obligation "translator" as broken.
The UBJSON backend (bjdata) is broken in this sandbox (numpy ABI): it is silenced and reported as not installed.
"""
import os
import sys

sys.modules["bjdata"] = None          # must precede any import of autobahn.wamp.serializer


class TranslatorError(RuntimeError):
    pass


def need(cond, msg):
    if not cond:
        raise TranslatorError(msg)


def repo():
    return os.environ.get("AV_REPO", "/repo")


def coq_str(s):
    need(all(32 <= ord(c) < 127 and c != '"' for c in s), f"unexpected character in identifier {s!r}")
    return "[" + ";".join(str(ord(c)) for c in s) + "]"


def nlist(xs):
    return "[" + ";".join(str(int(x)) for x in xs) + "]"


def collect(fw):
    """values visible with one txaio framework selected (one framework per process)"""
    src = os.path.join(repo(), "src")
    if src not in sys.path:
        sys.path.insert(0, src)
    import txaio
    (txaio.use_twisted if fw == "tx" else txaio.use_asyncio)()
    import autobahn.wamp.serializer as S
    need(os.path.realpath(S.__file__).startswith(os.path.realpath(src) + os.sep),
         f"imported {S.__file__}, expected it under {src}")
    classes = []
    need(isinstance(getattr(S, "SERID_TO_SER", None), dict) and S.SERID_TO_SER, "serializer registry SERID_TO_SER missing")
    exported = sorted(n for n in S.__all__ if n.endswith("Serializer") and not n.endswith("ObjectSerializer") and n != "Serializer")
    need(sorted(c.__name__ for c in S.SERID_TO_SER.values()) == exported, "SERID_TO_SER and __all__ disagree")
    for name in exported:
        cls = getattr(S, name)
        need(isinstance(cls, type) and issubclass(cls, S.Serializer), f"{name} is not a Serializer subclass")
        classes.append((name, cls))
    need(len(classes) >= 1, "no serializer class found")
    rows = []
    for name, cls in classes:
        plain = cls()
        need(type(plain.SERIALIZER_ID) is str and type(plain.RAWSOCKET_SERIALIZER_ID) is int, f"{name}: id types")
        need(1 <= plain.RAWSOCKET_SERIALIZER_ID <= 15, f"{name}: RAWSOCKET_SERIALIZER_ID outside 1..15")
        need(type(plain._serializer.BINARY) is bool, f"{name}: BINARY not a bool")
        need(plain.serialize.__func__ is S.Serializer.serialize and plain.unserialize.__func__ is S.Serializer.unserialize,
             f"{name}: serialize/unserialize overridden")
        bid = None
        try:
            b = cls(batched=True)
        except AssertionError:
            b = None                       # FlatBuffers: batched mode not supported
        if b is not None:
            need(b.RAWSOCKET_SERIALIZER_ID == plain.RAWSOCKET_SERIALIZER_ID and b._serializer.BINARY == plain._serializer.BINARY,
                 f"{name}: batched variant differs in rawsocket id / BINARY")
            bid = b.SERIALIZER_ID
            need(bid == plain.SERIALIZER_ID + ".batched", f"{name}: unexpected batched id {bid!r}")
        rows.append([name, plain.SERIALIZER_ID, bid, plain.RAWSOCKET_SERIALIZER_ID, plain._serializer.BINARY])
    need(len({r[3] for r in rows}) == len(rows), "RAWSOCKET_SERIALIZER_ID not unique")
    need(len({r[1] for r in rows}) == len(rows), "SERIALIZER_ID not unique")
    for k in ("json", "msgpack", "cbor"):
        need(k in {r[1] for r in rows}, f"serializer {k} not installed")
    out = {"rows": rows}

    import autobahn.wamp.websocket as WW
    import autobahn.websocket.protocol as P
    if fw == "tx":
        import autobahn.twisted.rawsocket as R
        import autobahn.twisted.websocket as W
        sf = R.WampRawSocketServerFactory(lambda: None)
        sp = sf.buildProtocol(None)
        need(sf._max_message_size == sp._max_message_size == sp.MAX_LENGTH, "twisted default max sizes disagree")
        need(R.Int32StringReceiver.structFormat == "!I" and R.Int32StringReceiver.prefixLength == 4, "twisted prefix format")
        need(R.WampRawSocketProtocol.lengthLimitExceeded is not R.Int32StringReceiver.lengthLimitExceeded,
             "lengthLimitExceeded no longer overridden")
        out["max"] = sf._max_message_size
    else:
        import autobahn.asyncio.rawsocket as R
        import autobahn.asyncio.websocket as W
        sf = R.WampRawSocketServerFactory(lambda: None)
        sp = sf()
        need(R.PrefixProtocol.prefix_format == "!L" and R.PrefixProtocol.prefix_length == 4, "asyncio prefix format")
        need((R.FRAME_TYPE_DATA, R.FRAME_TYPE_PING, R.FRAME_TYPE_PONG) == (0, 1, 2), "asyncio frame type constants")
        out["max"] = sp.max_length
        out["lexp"] = sp._length_exp
        out["magic"] = R.MAGIC_BYTE
        need(sp.max_length == 2 ** (9 + sp._length_exp), "asyncio max_length / _length_exp disagree")
    cf = R.WampRawSocketClientFactory(lambda: None)
    out["server_ids"] = sorted(sf._serializers.keys())
    out["client_id"] = cf._serializer.RAWSOCKET_SERIALIZER_ID

    # ---- WebSocket ----
    need(issubclass(W.WampWebSocketServerProtocol, WW.WampWebSocketServerProtocol)
         and issubclass(W.WampWebSocketClientProtocol, WW.WampWebSocketClientProtocol), "Wamp* protocol class hierarchy")
    for k in ("onOpen", "onClose", "onMessage", "send", "isOpen", "close", "abort", "_bailout"):
        need(getattr(W.WampWebSocketServerProtocol, k) is getattr(WW.WampWebSocketProtocol, k)
             and getattr(W.WampWebSocketClientProtocol, k) is getattr(WW.WampWebSocketProtocol, k),
             f"{k} overridden in the {fw} Wamp* protocol classes")
    wf = WW.WampWebSocketFactory(lambda: None)
    need(wf._protocols == ["wamp.2." + k for k in wf._serializers.keys()], "factory protocol list is not wamp.2.<id> per serializer")
    need(WW.WampWebSocketServerProtocol.STRICT_PROTOCOL_NEGOTIATION is True
         and WW.WampWebSocketClientProtocol.STRICT_PROTOCOL_NEGOTIATION is True, "STRICT_PROTOCOL_NEGOTIATION changed")
    out["ws_protocols"] = wf._protocols
    out["ws_ids"] = list(wf._serializers.keys())
    out["codes"] = dict(proto=P.WebSocketProtocol.CLOSE_STATUS_CODE_PROTOCOL_ERROR,
                        internal=P.WebSocketProtocol.CLOSE_STATUS_CODE_INTERNAL_ERROR,
                        normal=P.WebSocketProtocol.CLOSE_STATUS_CODE_NORMAL,
                        going_away=P.WebSocketProtocol.CLOSE_STATUS_CODE_GOING_AWAY)
    tm = S.Serializer.MESSAGE_TYPE_MAP
    need(isinstance(tm, dict) and tm and all(type(k) is int and 0 < k < 2 ** 16 for k in tm), "MESSAGE_TYPE_MAP keys are not small positive ints")
    out["type_codes"] = sorted(tm)
    for v in out["codes"].values():
        need(type(v) is int, "close code type")
    return out


def part(fw):
    import json, subprocess
    env = dict(os.environ, PYTHONHASHSEED="0", PYTHONWARNINGS="ignore")
    env["PYTHONPATH"] = os.path.join(repo(), "src")
    p = subprocess.run([sys.executable, os.path.abspath(__file__), "--part", fw], env=env, stdout=subprocess.PIPE,
                       stderr=subprocess.PIPE, text=True, timeout=120)
    if p.returncode != 0:
        raise TranslatorError(f"reader for {fw} failed: {p.stderr[-1500:]}")
    return json.loads(p.stdout)



# ---- AST side: the expressions that ANNOUNCE and ENFORCE the receive limit, and the drain order of the asyncio adapter ----
import ast


def _func(tree, cls, fn):
    for n in tree.body:
        if isinstance(n, ast.ClassDef) and n.name == cls:
            for m in n.body:
                if isinstance(m, ast.FunctionDef) and m.name == fn:
                    return m
    raise TranslatorError(f"{cls}.{fn} not found")


def _is_self_attr(n, attr):
    return isinstance(n, ast.Attribute) and isinstance(n.value, ast.Name) and n.value.id == "self" and n.attr == attr


class _Expr:
    """tiny expression language over m = self._max_message_size; anything else -> TranslatorError (fail closed)"""
    def __init__(self, fn):
        self.assign = {}
        for n in ast.walk(fn):
            if isinstance(n, ast.Assign) and len(n.targets) == 1 and isinstance(n.targets[0], ast.Name):
                self.assign.setdefault(n.targets[0].id, []).append(n.value)

    def coq(self, e, depth=0):
        need(depth < 8, "expression too deep")
        if _is_self_attr(e, "_max_message_size"):
            return "m"
        if isinstance(e, ast.Constant) and type(e.value) is int and e.value >= 0:
            return str(e.value)
        if isinstance(e, ast.Name):
            vals = self.assign.get(e.id)
            need(vals is not None and len(vals) == 1, f"variable {e.id} is not assigned exactly once")
            return self.coq(vals[0], depth + 1)
        if isinstance(e, ast.BinOp) and isinstance(e.op, ast.Pow) and isinstance(e.left, ast.Constant) and e.left.value == 2:
            return "(2 ^ %s)" % self.coq(e.right, depth + 1)
        if isinstance(e, ast.BinOp) and isinstance(e.op, ast.Sub):
            return "(%s - %s)" % (self.coq(e.left, depth + 1), self.coq(e.right, depth + 1))
        if isinstance(e, ast.BinOp) and isinstance(e.op, ast.Add):
            return "(%s + %s)" % (self.coq(e.left, depth + 1), self.coq(e.right, depth + 1))
        # int(math.ceil(math.log(X, 2)))   (exact = N.log2_up on 512..2^24: re-checked against the interpreter on every run)
        if (isinstance(e, ast.Call) and isinstance(e.func, ast.Name) and e.func.id == "int" and len(e.args) == 1
                and isinstance(e.args[0], ast.Call) and ast.unparse(e.args[0].func) == "math.ceil" and len(e.args[0].args) == 1):
            lg = e.args[0].args[0]
            if (isinstance(lg, ast.Call) and ast.unparse(lg.func) == "math.log" and len(lg.args) == 2
                    and isinstance(lg.args[1], ast.Constant) and lg.args[1].value == 2):
                return "(N.log2_up %s)" % self.coq(lg.args[0], depth + 1)
        raise TranslatorError("unrecognised expression: " + ast.unparse(e))


def _limit_exprs(tree, cls, fn, octet_var):
    f = _func(tree, cls, fn)
    ex = _Expr(f)
    enforced = [n.value for n in ast.walk(f) if isinstance(n, ast.Assign) and len(n.targets) == 1 and _is_self_attr(n.targets[0], "MAX_LENGTH")]
    need(len(enforced) == 1, f"{cls}.{fn}: self.MAX_LENGTH assigned {len(enforced)} times")
    octs = ex.assign.get(octet_var)
    need(octs is not None and len(octs) == 1, f"{cls}.{fn}: {octet_var} not assigned exactly once")
    o = octs[0]      # bytes(bytearray([ ((E - 9) << 4) | self._serializer.RAWSOCKET_SERIALIZER_ID ]))
    need(isinstance(o, ast.Call) and ast.unparse(o.func) == "bytes" and len(o.args) == 1 and isinstance(o.args[0], ast.Call)
         and ast.unparse(o.args[0].func) == "bytearray" and len(o.args[0].args) == 1 and isinstance(o.args[0].args[0], ast.List)
         and len(o.args[0].args[0].elts) == 1, f"{cls}.{fn}: unexpected shape of {octet_var}: {ast.unparse(o)}")
    b = o.args[0].args[0].elts[0]
    need(isinstance(b, ast.BinOp) and isinstance(b.op, ast.BitOr) and isinstance(b.left, ast.BinOp) and isinstance(b.left.op, ast.LShift)
         and isinstance(b.left.right, ast.Constant) and b.left.right.value == 4
         and ast.unparse(b.right) == "self._serializer.RAWSOCKET_SERIALIZER_ID", f"{cls}.{fn}: unexpected octet expression {ast.unparse(b)}")
    return ex.coq(enforced[0]), ex.coq(b.left.left)


def ast_part():
    base = os.path.join(repo(), "src", "autobahn")
    tw = ast.parse(open(os.path.join(base, "twisted", "rawsocket.py")).read())
    out = {}
    out["tx_server"] = _limit_exprs(tw, "WampRawSocketServerProtocol", "dataReceived", "reply_octet2")
    out["tx_client"] = _limit_exprs(tw, "WampRawSocketClientProtocol", "connectionMade", "request_octet2")
    # asyncio WebSocket adapter: which end of the receive deque the drain loop takes
    aw = ast.parse(open(os.path.join(base, "asyncio", "websocket.py")).read())
    cons = _func(aw, "WebSocketAdapterProtocol", "_consume")
    calls = [n for n in ast.walk(cons) if isinstance(n, ast.Call) and isinstance(n.func, ast.Attribute)
             and _is_self_attr(n.func.value, "receive_queue")]
    need(len(calls) == 1 and not calls[0].args and not calls[0].keywords, "WebSocketAdapterProtocol._consume: receive_queue use not recognised")
    need(calls[0].func.attr in ("popleft", "pop"), f"receive_queue.{calls[0].func.attr}() not recognised")
    out["aio_pop_front"] = calls[0].func.attr == "popleft"
    dr = _func(aw, "WebSocketAdapterProtocol", "data_received")
    apps = [n for n in ast.walk(dr) if isinstance(n, ast.Call) and isinstance(n.func, ast.Attribute) and _is_self_attr(n.func.value, "receive_queue")]
    need(len(apps) == 1 and apps[0].func.attr in ("append", "appendleft") and len(apps[0].args) == 1, "data_received: receive_queue use not recognised")
    out["aio_push_back"] = apps[0].func.attr == "append"
    return out


def render():
    tx, aio = part("tx"), part("aio")
    for k in ("rows", "ws_protocols", "ws_ids", "codes", "type_codes"):
        need(tx[k] == aio[k], f"{k} differs between the Twisted and the asyncio process")
    rows, codes = tx["rows"], tx["codes"]
    out = []
    w = out.append
    w("(* GENERATED by translators/rawsocket_consts.py from the tree under test - do not edit, never committed. *)")
    w("From Coq Require Import NArith List Bool.")
    w("Import ListNotations.")
    w("Open Scope N_scope.")
    w("")
    w("(* one row per installed serializer class: (SERIALIZER_ID, batched SERIALIZER_ID (or [] if none), RAWSOCKET_SERIALIZER_ID, BINARY) *)")
    w("Definition gen_serializers : list (list N * list N * N * bool) := [")
    w(";\n".join("  (%s, %s, %d, %s)  (* %s *)" % (coq_str(r[1]), coq_str(r[2]) if r[2] else "[]", r[3],
                                                "true" if r[4] else "false", r[0]) for r in rows))
    w("].")
    w("Definition gen_rawsocket_ids : list N := %s." % nlist(sorted(r[3] for r in rows)))
    for r in rows:
        w("Definition gen_rs_id_%s : N := %d." % (r[1], r[3]))
        w("Definition gen_binary_%s : bool := %s." % (r[1], "true" if r[4] else "false"))
    w("Definition gen_ubjson_installed : bool := %s." % ("true" if any(r[1] == "ubjson" for r in rows) else "false"))
    w("")
    w("(* RawSocket defaults *)")
    w("Definition gen_tx_default_max_message_size : N := %d." % tx["max"])
    w("Definition gen_aio_default_max_length : N := %d." % aio["max"])
    w("Definition gen_aio_default_length_exp : N := %d." % aio["lexp"])
    w("Definition gen_aio_magic : N := %d." % aio["magic"])
    w("Definition gen_tx_server_default_ids : list N := %s." % nlist(tx["server_ids"]))
    w("Definition gen_aio_server_default_ids : list N := %s." % nlist(aio["server_ids"]))
    w("Definition gen_tx_client_default_id : N := %d." % tx["client_id"])
    w("Definition gen_aio_client_default_id : N := %d." % aio["client_id"])
    w("")
    w("(* WebSocket leg *)")
    w("Definition gen_ws_default_protocols : list (list N) := [%s]." % "; ".join(coq_str(p) for p in tx["ws_protocols"]))
    w("Definition gen_ws_default_serializer_ids : list (list N) := [%s]." % "; ".join(coq_str(k) for k in tx["ws_ids"]))
    w("Definition gen_close_protocol_error : N := %d." % codes["proto"])
    w("Definition gen_close_internal_error : N := %d." % codes["internal"])
    w("Definition gen_close_normal : N := %d." % codes["normal"])
    w("Definition gen_close_going_away : N := %d." % codes["going_away"])
    w("(* keys of Serializer.MESSAGE_TYPE_MAP: the message type codes a transport may hand to a session *)")
    w("Definition gen_wamp_type_codes : list N := %s." % nlist(tx["type_codes"]))
    a = ast_part()
    w("")
    w("(* Twisted RawSocket: the receive limit each role ENFORCES (self.MAX_LENGTH = ...) and the exponent nibble it ANNOUNCES")
    w("   (high nibble of handshake octet 2), as functions of m = factory maxMessagePayloadSize; translated from the source text *)")
    for role in ("server", "client"):
        enf, ann = a["tx_" + role]
        w("Definition gen_tx_%s_recv_limit (m : N) : N := %s." % (role, enf))
        w("Definition gen_tx_%s_announce_nibble (m : N) : N := %s." % (role, ann))
    w("(* asyncio WebSocket adapter: data_received pushes at the back / _consume drains from the front of receive_queue *)")
    w("Definition gen_aio_ws_push_back : bool := %s." % ("true" if a["aio_push_back"] else "false"))
    w("Definition gen_aio_ws_pop_front : bool := %s." % ("true" if a["aio_pop_front"] else "false"))
    return "\n".join(out) + "\n"


if __name__ == "__main__":
    if len(sys.argv) == 3 and sys.argv[1] == "--part":
        import json
        json.dump(collect(sys.argv[2]), sys.stdout)
    else:
        sys.stdout.write(render())
