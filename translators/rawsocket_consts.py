"""Translator (fail-closed): WAMP transport constants of the tree under test  ->  coq/Gen/RawSocketConsts.v

Reads VALUES by importing the modules of $AV_REPO/src (AV_REPO defaults to /repo):
  * autobahn.wamp.serializer : for every installed transport serializer class its SERIALIZER_ID (plain and batched
    instance), RAWSOCKET_SERIALIZER_ID and the BINARY flag of its object serializer;
  * autobahn.twisted.rawsocket / autobahn.asyncio.rawsocket : default maximum message sizes, the asyncio frame type
    constants and MAGIC_BYTE, the serializer id sets of the default server factories and the id of the default client
    serializer;
  * autobahn.wamp.websocket / autobahn.{twisted,asyncio}.websocket : the subprotocol list of the default factories,
    STRICT_PROTOCOL_NEGOTIATION, the WebSocket close codes used by the error mapping.

Prints the Coq file on stdout (harness/props/c13.py stores it with vlib.write_if_changed).  Anything unexpected raises
TranslatorError, the check then counts the obligation "translator" as broken.
The UBJSON backend (bjdata) is broken in this sandbox (numpy ABI): it is silenced and reported as not installed.
"""
import os
import sys

sys.modules["bjdata"] = None          # must precede any import of autobahn.wamp.serializer


class TranslatorError(RuntimeError):
    pass


def need(cond, msg):
    if not cond:
        raise TranslatorError(msg)


def repo():
    return os.environ.get("AV_REPO", "/repo")


def coq_str(s):
    need(all(32 <= ord(c) < 127 and c != '"' for c in s), f"unexpected character in identifier {s!r}")
    return "[" + ";".join(str(ord(c)) for c in s) + "]"


def nlist(xs):
    return "[" + ";".join(str(int(x)) for x in xs) + "]"


def collect(fw):
    """values visible with one txaio framework selected (one framework per process)"""
    src = os.path.join(repo(), "src")
    if src not in sys.path:
        sys.path.insert(0, src)
    import txaio
    (txaio.use_twisted if fw == "tx" else txaio.use_asyncio)()
    import autobahn.wamp.serializer as S
    need(os.path.realpath(S.__file__).startswith(os.path.realpath(src) + os.sep),
         f"imported {S.__file__}, expected it under {src}")
    classes = []
    need(isinstance(getattr(S, "SERID_TO_SER", None), dict) and S.SERID_TO_SER, "serializer registry SERID_TO_SER missing")
    exported = sorted(n for n in S.__all__ if n.endswith("Serializer") and not n.endswith("ObjectSerializer") and n != "Serializer")
    need(sorted(c.__name__ for c in S.SERID_TO_SER.values()) == exported, "SERID_TO_SER and __all__ disagree")
    for name in exported:
        cls = getattr(S, name)
        need(isinstance(cls, type) and issubclass(cls, S.Serializer), f"{name} is not a Serializer subclass")
        classes.append((name, cls))
    need(len(classes) >= 1, "no serializer class found")
    rows = []
    for name, cls in classes:
        plain = cls()
        need(type(plain.SERIALIZER_ID) is str and type(plain.RAWSOCKET_SERIALIZER_ID) is int, f"{name}: id types")
        need(1 <= plain.RAWSOCKET_SERIALIZER_ID <= 15, f"{name}: RAWSOCKET_SERIALIZER_ID outside 1..15")
        need(type(plain._serializer.BINARY) is bool, f"{name}: BINARY not a bool")
        need(plain.serialize.__func__ is S.Serializer.serialize and plain.unserialize.__func__ is S.Serializer.unserialize,
             f"{name}: serialize/unserialize overridden")
        bid = None
        try:
            b = cls(batched=True)
        except AssertionError:
            b = None                       # FlatBuffers: batched mode not supported
        if b is not None:
            need(b.RAWSOCKET_SERIALIZER_ID == plain.RAWSOCKET_SERIALIZER_ID and b._serializer.BINARY == plain._serializer.BINARY,
                 f"{name}: batched variant differs in rawsocket id / BINARY")
            bid = b.SERIALIZER_ID
            need(bid == plain.SERIALIZER_ID + ".batched", f"{name}: unexpected batched id {bid!r}")
        rows.append([name, plain.SERIALIZER_ID, bid, plain.RAWSOCKET_SERIALIZER_ID, plain._serializer.BINARY])
    need(len({r[3] for r in rows}) == len(rows), "RAWSOCKET_SERIALIZER_ID not unique")
    need(len({r[1] for r in rows}) == len(rows), "SERIALIZER_ID not unique")
    for k in ("json", "msgpack", "cbor"):
        need(k in {r[1] for r in rows}, f"serializer {k} not installed")
    out = {"rows": rows}

    import autobahn.wamp.websocket as WW
    import autobahn.websocket.protocol as P
    if fw == "tx":
        import autobahn.twisted.rawsocket as R
        import autobahn.twisted.websocket as W
        sf = R.WampRawSocketServerFactory(lambda: None)
        sp = sf.buildProtocol(None)
        need(sf._max_message_size == sp._max_message_size == sp.MAX_LENGTH, "twisted default max sizes disagree")
        need(R.Int32StringReceiver.structFormat == "!I" and R.Int32StringReceiver.prefixLength == 4, "twisted prefix format")
        need(R.WampRawSocketProtocol.lengthLimitExceeded is not R.Int32StringReceiver.lengthLimitExceeded,
             "lengthLimitExceeded no longer overridden")
        out["max"] = sf._max_message_size
    else:
        import autobahn.asyncio.rawsocket as R
        import autobahn.asyncio.websocket as W
        sf = R.WampRawSocketServerFactory(lambda: None)
        sp = sf()
        need(R.PrefixProtocol.prefix_format == "!L" and R.PrefixProtocol.prefix_length == 4, "asyncio prefix format")
        need((R.FRAME_TYPE_DATA, R.FRAME_TYPE_PING, R.FRAME_TYPE_PONG) == (0, 1, 2), "asyncio frame type constants")
        out["max"] = sp.max_length
        out["lexp"] = sp._length_exp
        out["magic"] = R.MAGIC_BYTE
        need(sp.max_length == 2 ** (9 + sp._length_exp), "asyncio max_length / _length_exp disagree")
    cf = R.WampRawSocketClientFactory(lambda: None)
    out["server_ids"] = sorted(sf._serializers.keys())
    out["client_id"] = cf._serializer.RAWSOCKET_SERIALIZER_ID

    # ---- WebSocket ----
    need(issubclass(W.WampWebSocketServerProtocol, WW.WampWebSocketServerProtocol)
         and issubclass(W.WampWebSocketClientProtocol, WW.WampWebSocketClientProtocol), "Wamp* protocol class hierarchy")
    for k in ("onOpen", "onClose", "onMessage", "send", "isOpen", "close", "abort", "_bailout"):
        need(getattr(W.WampWebSocketServerProtocol, k) is getattr(WW.WampWebSocketProtocol, k)
             and getattr(W.WampWebSocketClientProtocol, k) is getattr(WW.WampWebSocketProtocol, k),
             f"{k} overridden in the {fw} Wamp* protocol classes")
    wf = WW.WampWebSocketFactory(lambda: None)
    need(wf._protocols == ["wamp.2." + k for k in wf._serializers.keys()], "factory protocol list is not wamp.2.<id> per serializer")
    need(WW.WampWebSocketServerProtocol.STRICT_PROTOCOL_NEGOTIATION is True
         and WW.WampWebSocketClientProtocol.STRICT_PROTOCOL_NEGOTIATION is True, "STRICT_PROTOCOL_NEGOTIATION changed")
    out["ws_protocols"] = wf._protocols
    out["ws_ids"] = list(wf._serializers.keys())
    out["codes"] = dict(proto=P.WebSocketProtocol.CLOSE_STATUS_CODE_PROTOCOL_ERROR,
                        internal=P.WebSocketProtocol.CLOSE_STATUS_CODE_INTERNAL_ERROR,
                        normal=P.WebSocketProtocol.CLOSE_STATUS_CODE_NORMAL,
                        going_away=P.WebSocketProtocol.CLOSE_STATUS_CODE_GOING_AWAY)
    for v in out["codes"].values():
        need(type(v) is int, "close code type")
    return out


def part(fw):
    import json, subprocess
    env = dict(os.environ, PYTHONHASHSEED="0", PYTHONWARNINGS="ignore")
    env["PYTHONPATH"] = os.path.join(repo(), "src")
    p = subprocess.run([sys.executable, os.path.abspath(__file__), "--part", fw], env=env, stdout=subprocess.PIPE,
                       stderr=subprocess.PIPE, text=True, timeout=120)
    if p.returncode != 0:
        raise TranslatorError(f"reader for {fw} failed: {p.stderr[-1500:]}")
    return json.loads(p.stdout)


def render():
    tx, aio = part("tx"), part("aio")
    for k in ("rows", "ws_protocols", "ws_ids", "codes"):
        need(tx[k] == aio[k], f"{k} differs between the Twisted and the asyncio process")
    rows, codes = tx["rows"], tx["codes"]
    out = []
    w = out.append
    w("(* GENERATED by translators/rawsocket_consts.py from the tree under test - do not edit, never committed. *)")
    w("From Coq Require Import NArith List Bool.")
    w("Import ListNotations.")
    w("Open Scope N_scope.")
    w("")
    w("(* one row per installed serializer class: (SERIALIZER_ID, batched SERIALIZER_ID (or [] if none), RAWSOCKET_SERIALIZER_ID, BINARY) *)")
    w("Definition gen_serializers : list (list N * list N * N * bool) := [")
    w(";\n".join("  (%s, %s, %d, %s)  (* %s *)" % (coq_str(r[1]), coq_str(r[2]) if r[2] else "[]", r[3],
                                                "true" if r[4] else "false", r[0]) for r in rows))
    w("].")
    w("Definition gen_rawsocket_ids : list N := %s." % nlist(sorted(r[3] for r in rows)))
    for r in rows:
        w("Definition gen_rs_id_%s : N := %d." % (r[1], r[3]))
        w("Definition gen_binary_%s : bool := %s." % (r[1], "true" if r[4] else "false"))
    w("Definition gen_ubjson_installed : bool := %s." % ("true" if any(r[1] == "ubjson" for r in rows) else "false"))
    w("")
    w("(* RawSocket defaults *)")
    w("Definition gen_tx_default_max_message_size : N := %d." % tx["max"])
    w("Definition gen_aio_default_max_length : N := %d." % aio["max"])
    w("Definition gen_aio_default_length_exp : N := %d." % aio["lexp"])
    w("Definition gen_aio_magic : N := %d." % aio["magic"])
    w("Definition gen_tx_server_default_ids : list N := %s." % nlist(tx["server_ids"]))
    w("Definition gen_aio_server_default_ids : list N := %s." % nlist(aio["server_ids"]))
    w("Definition gen_tx_client_default_id : N := %d." % tx["client_id"])
    w("Definition gen_aio_client_default_id : N := %d." % aio["client_id"])
    w("")
    w("(* WebSocket leg *)")
    w("Definition gen_ws_default_protocols : list (list N) := [%s]." % "; ".join(coq_str(p) for p in tx["ws_protocols"]))
    w("Definition gen_ws_default_serializer_ids : list (list N) := [%s]." % "; ".join(coq_str(k) for k in tx["ws_ids"]))
    w("Definition gen_close_protocol_error : N := %d." % codes["proto"])
    w("Definition gen_close_internal_error : N := %d." % codes["internal"])
    w("Definition gen_close_normal : N := %d." % codes["normal"])
    w("Definition gen_close_going_away : N := %d." % codes["going_away"])
    return "\n".join(out) + "\n"


if __name__ == "__main__":
    if len(sys.argv) == 3 and sys.argv[1] == "--part":
        import json
        json.dump(collect(sys.argv[2]), sys.stdout)
    else:
        sys.stdout.write(render())
