"""Translator: constants of the WebSocket closing/timer machinery -> coq/Gen/WsConnConsts.v

Run by /venv/bin/python with PYTHONPATH=$AV_REPO/src (through vlib.Check.run_impl): argv[1] = input json (ignored),
argv[2] = output json {"coq": <text of the .v file>, "values": {...}}.

Values are read by IMPORTING the module (not by parsing its layout), so re-formatting the source is not an alarm.
Fails closed: anything that is not exactly of the expected shape raises, the caller then counts the proof
obligations of the property as broken.
"""
import json, os, sys

# The tree under test is whatever `import autobahn` resolves to: ck.run_impl puts $AV_REPO/src first on PYTHONPATH.
REPO = os.environ.get("AV_REPO", "/repo")
import autobahn
if not os.path.realpath(autobahn.__file__).startswith(os.path.realpath(REPO) + os.sep):
    raise RuntimeError(f"autobahn imported from {autobahn.__file__}, expected the tree under test {REPO}")

import txaio
txaio.use_asyncio()
import autobahn.websocket.protocol as P

WP = P.WebSocketProtocol


def need_int(name, v, lo=0, hi=1 << 32):
    if type(v) is not int or not (lo <= v < hi):
        raise ValueError(f"{name}: expected int in [{lo},{hi}), got {v!r}")
    return v


def ms(name, v):
    """a duration option given in seconds -> integer milliseconds (exactly representable or fail)"""
    if type(v) not in (int, float) or isinstance(v, bool) or v < 0:
        raise ValueError(f"{name}: expected non-negative number of seconds, got {v!r}")
    m = v * 1000
    if abs(m - round(m)) > 1e-9:
        raise ValueError(f"{name}: {v!r} s is not a whole number of milliseconds")
    return int(round(m))


vals = {}
allowed = WP.CLOSE_STATUS_CODES_ALLOWED
if type(allowed) not in (list, tuple) or not allowed:
    raise ValueError("CLOSE_STATUS_CODES_ALLOWED: expected non-empty list")
vals["close_codes_allowed"] = [need_int("CLOSE_STATUS_CODES_ALLOWED[i]", c, 0, 65536) for c in allowed]
if len(set(vals["close_codes_allowed"])) != len(allowed):
    raise ValueError("CLOSE_STATUS_CODES_ALLOWED: duplicate entries")
for nm in ("NORMAL", "GOING_AWAY", "PROTOCOL_ERROR", "INVALID_PAYLOAD", "ABNORMAL_CLOSE", "NULL", "TLS_HANDSHAKE_FAILED"):
    vals["code_" + nm.lower()] = need_int(nm, getattr(WP, "CLOSE_STATUS_CODE_" + nm), 0, 65536)
for nm in ("STATE_CLOSED", "STATE_CONNECTING", "STATE_CLOSING", "STATE_OPEN", "STATE_PROXY_CONNECTING"):
    vals[nm.lower()] = need_int(nm, getattr(WP, nm), 0, 16)
if len({vals[k] for k in vals if k.startswith("state_")}) != 5:
    raise ValueError("protocol state constants are not pairwise distinct")
q = WP._QUEUED_WRITE_DELAY
if type(q) not in (int, float) or not (0 < q < 1):
    raise ValueError(f"_QUEUED_WRITE_DELAY: unexpected {q!r}")
qus = q * 1e6
if abs(qus - round(qus)) > 1e-6:
    raise ValueError(f"_QUEUED_WRITE_DELAY {q!r} is not a whole number of microseconds")
vals["queued_write_delay_us"] = int(round(qus))

sf = P.WebSocketServerFactory("ws://localhost:9000")
cf = P.WebSocketClientFactory("ws://localhost:9000")
for tag, f in (("server", sf), ("client", cf)):
    bt = f._batched_timer
    if type(bt).__name__ != "_BatchedTimer":
        raise ValueError("factory._batched_timer is not a txaio _BatchedTimer")
    b = bt._bucket_milliseconds
    if abs(b - round(b)) > 1e-9 or b <= 0:
        raise ValueError(f"bucket size {b!r} ms not a positive integer")
    vals[f"bucket_ms_{tag}"] = int(round(b))
    vals[f"default_open_handshake_timeout_ms_{tag}"] = ms("openHandshakeTimeout", f.openHandshakeTimeout)
    vals[f"default_close_handshake_timeout_ms_{tag}"] = ms("closeHandshakeTimeout", f.closeHandshakeTimeout)
    vals[f"default_auto_ping_interval_ms_{tag}"] = ms("autoPingInterval", f.autoPingInterval)
    vals[f"default_auto_ping_timeout_ms_{tag}"] = ms("autoPingTimeout", f.autoPingTimeout)
    vals[f"default_auto_ping_size_{tag}"] = need_int("autoPingSize", f.autoPingSize, 12, 126)
    for nm in ("failByDrop", "echoCloseCodeReason", "autoPingRestartOnAnyTraffic"):
        v = getattr(f, nm)
        if type(v) is not bool:
            raise ValueError(f"{nm}: expected bool")
        vals[f"default_{nm}_{tag}"] = v
vals["default_server_connection_drop_timeout_ms_client"] = ms("serverConnectionDropTimeout", cf.serverConnectionDropTimeout)
if vals["bucket_ms_server"] != vals["bucket_ms_client"]:
    raise ValueError("server and client factories use different batched-timer buckets")

# the batched timer's quantisation formula is control flow in txaio (modelled by hand in Model/WsConn.v: quant);
# pin the version-sensitive facts it relies on by probing the real object on a fake clock
import txaio._common as C
probe = []
now = [0.0]
bt = C._BatchedTimer(float(vals["bucket_ms_server"]), 1000, seconds_provider=lambda: now[0],
                     delayed_call_creator=lambda d, f, *a: probe.append(d) or type("H", (), {"cancel": lambda s: None})())
for n, d, want in ((0.0, 1, 1.0), (0.375, 1, 0.625), (0.375, 2, 1.625), (1.0, 1, 1.0), (1.875, 5, 4.125), (0.5, 0.25, 0.0)):
    now[0] = n
    del probe[:]
    bt._buckets.clear()
    bt.call_later(d, lambda: None)
    if len(probe) != 1 or abs(probe[0] - want) > 1e-9:
        raise ValueError(f"txaio batched timer: call_later(now={n}, delay={d}) scheduled {probe!r}, model expects {want}")


def b(v):
    return "true" if v else "false"


L = ["(* GENERATED by translators/wsconn_consts.py from the imported autobahn.websocket.protocol -- do not edit. *)",
     "From Coq Require Import NArith List Bool.", "Import ListNotations.", "Open Scope N_scope.", ""]
L.append("Definition close_codes_allowed : list N := [%s]." % "; ".join(str(c) for c in vals["close_codes_allowed"]))
for k in sorted(vals):
    v = vals[k]
    if k == "close_codes_allowed":
        continue
    if type(v) is bool:
        L.append(f"Definition {k} : bool := {b(v)}.")
    else:
        L.append(f"Definition {k} : N := {v}.")
L.append("Definition bucket_ms : N := bucket_ms_server.")
L.append("")
out = {"coq": "\n".join(L) + "\n", "values": vals}
json.dump(out, open(sys.argv[2], "w") if len(sys.argv) > 2 else sys.stdout)
