"""Translator: constants of the WebSocket closing/timer machinery -> coq/Gen/WsConnConsts.v

Run by /venv/bin/python with PYTHONPATH=$AV_REPO/src (through vlib.Check.run_impl): argv[1] = input json (ignored),
argv[2] = output json {"coq": <text of the .v file>, "values": {...}}.

Values are read by IMPORTING the module (not by parsing its layout), so re-formatting the source is not an alarm.
Fails closed: anything that is not exactly of the expected shape raises, the caller then counts the proof
obligations of the property as broken.
"""
import json, os, sys

# The tree under test is whatever `import autobahn` resolves to: ck.run_impl puts $AV_REPO/src first on PYTHONPATH.
REPO = os.environ.get("AV_REPO", "/repo")
import autobahn
if not os.path.realpath(autobahn.__file__).startswith(os.path.realpath(REPO) + os.sep):
    raise RuntimeError(f"autobahn imported from {autobahn.__file__}, expected the tree under test {REPO}")

import txaio
txaio.use_asyncio()
import autobahn.websocket.protocol as P

WP = P.WebSocketProtocol


def need_int(name, v, lo=0, hi=1 << 32):
    if type(v) is not int or not (lo <= v < hi):
        raise ValueError(f"{name}: expected int in [{lo},{hi}), got {v!r}")
    return v


def ms(name, v):
    """a duration option given in seconds -> integer milliseconds (exactly representable or fail)"""
    if type(v) not in (int, float) or isinstance(v, bool) or v < 0:
        raise ValueError(f"{name}: expected non-negative number of seconds, got {v!r}")
    m = v * 1000
    if abs(m - round(m)) > 1e-9:
        raise ValueError(f"{name}: {v!r} s is not a whole number of milliseconds")
    return int(round(m))


vals = {}
allowed = WP.CLOSE_STATUS_CODES_ALLOWED
if type(allowed) not in (list, tuple) or not allowed:
    raise ValueError("CLOSE_STATUS_CODES_ALLOWED: expected non-empty list")
vals["close_codes_allowed"] = [need_int("CLOSE_STATUS_CODES_ALLOWED[i]", c, 0, 65536) for c in allowed]
if len(set(vals["close_codes_allowed"])) != len(allowed):
    raise ValueError("CLOSE_STATUS_CODES_ALLOWED: duplicate entries")
for nm in ("NORMAL", "GOING_AWAY", "PROTOCOL_ERROR", "INVALID_PAYLOAD", "ABNORMAL_CLOSE", "NULL", "TLS_HANDSHAKE_FAILED"):
    vals["code_" + nm.lower()] = need_int(nm, getattr(WP, "CLOSE_STATUS_CODE_" + nm), 0, 65536)
for nm in ("STATE_CLOSED", "STATE_CONNECTING", "STATE_CLOSING", "STATE_OPEN", "STATE_PROXY_CONNECTING"):
    vals[nm.lower()] = need_int(nm, getattr(WP, nm), 0, 16)
if len({vals[k] for k in vals if k.startswith("state_")}) != 5:
    raise ValueError("protocol state constants are not pairwise distinct")
q = WP._QUEUED_WRITE_DELAY
if type(q) not in (int, float) or not (0 < q < 1):
    raise ValueError(f"_QUEUED_WRITE_DELAY: unexpected {q!r}")
qus = q * 1e6
if abs(qus - round(qus)) > 1e-6:
    raise ValueError(f"_QUEUED_WRITE_DELAY {q!r} is not a whole number of microseconds")
vals["queued_write_delay_us"] = int(round(qus))

sf = P.WebSocketServerFactory("ws://localhost:9000")
cf = P.WebSocketClientFactory("ws://localhost:9000")
for tag, f in (("server", sf), ("client", cf)):
    bt = f._batched_timer
    if type(bt).__name__ != "_BatchedTimer":
        raise ValueError("factory._batched_timer is not a txaio _BatchedTimer")
    b = bt._bucket_milliseconds
    if abs(b - round(b)) > 1e-9 or b <= 0:
        raise ValueError(f"bucket size {b!r} ms not a positive integer")
    vals[f"bucket_ms_{tag}"] = int(round(b))
    vals[f"default_open_handshake_timeout_ms_{tag}"] = ms("openHandshakeTimeout", f.openHandshakeTimeout)
    vals[f"default_close_handshake_timeout_ms_{tag}"] = ms("closeHandshakeTimeout", f.closeHandshakeTimeout)
    vals[f"default_auto_ping_interval_ms_{tag}"] = ms("autoPingInterval", f.autoPingInterval)
    vals[f"default_auto_ping_timeout_ms_{tag}"] = ms("autoPingTimeout", f.autoPingTimeout)
    vals[f"default_auto_ping_size_{tag}"] = need_int("autoPingSize", f.autoPingSize, 12, 126)
    for nm in ("failByDrop", "echoCloseCodeReason", "autoPingRestartOnAnyTraffic"):
        v = getattr(f, nm)
        if type(v) is not bool:
            raise ValueError(f"{nm}: expected bool")
        vals[f"default_{nm}_{tag}"] = v
vals["default_server_connection_drop_timeout_ms_client"] = ms("serverConnectionDropTimeout", cf.serverConnectionDropTimeout)
if vals["bucket_ms_server"] != vals["bucket_ms_client"]:
    raise ValueError("server and client factories use different batched-timer buckets")

# --- which close codes onCloseFrame accepts from the peer -------------------------------------------------------
# The acceptance test is an expression in the source, not a table: take the test of the FIRST `if` of onCloseFrame with
# the interpreter's own parser, require the shape  `code is not None and (<predicate over code>)`, compile <predicate>
# unchanged and evaluate it for every 16-bit code (what fits into a close frame) and some larger values.  The model gets
# the maximal intervals on which the code is NOT rejected.  Anything of another shape: fail closed.
import ast, inspect, textwrap
_src = textwrap.dedent(inspect.getsource(WP.onCloseFrame))
_fn = ast.parse(_src).body[0]
if not isinstance(_fn, ast.FunctionDef) or _fn.name != "onCloseFrame" or [a.arg for a in _fn.args.args][:3] != ["self", "code", "reasonRaw"]:
    raise ValueError("onCloseFrame: unexpected signature")
_ifs = [n for n in _fn.body if isinstance(n, ast.If)]
if not _ifs:
    raise ValueError("onCloseFrame: no if statement")
_t = _ifs[0].test
if not (isinstance(_t, ast.BoolOp) and isinstance(_t.op, ast.And) and len(_t.values) == 2):
    raise ValueError("onCloseFrame: first test is not `code is not None and (...)`")
_g = _t.values[0]
if not (isinstance(_g, ast.Compare) and isinstance(_g.left, ast.Name) and _g.left.id == "code" and len(_g.ops) == 1
        and isinstance(_g.ops[0], ast.IsNot) and isinstance(_g.comparators[0], ast.Constant) and _g.comparators[0].value is None):
    raise ValueError("onCloseFrame: first test does not start with `code is not None`")
_names = {n.id for n in ast.walk(_t.values[1]) if isinstance(n, ast.Name)}
if not _names <= {"code", "WebSocketProtocol"}:
    raise ValueError(f"onCloseFrame: close-code predicate mentions {_names}")
for n in ast.walk(_t.values[1]):
    if isinstance(n, (ast.Call, ast.Lambda, ast.Await, ast.NamedExpr, ast.Subscript)):
        raise ValueError("onCloseFrame: close-code predicate is not a plain comparison expression")
_body = _ifs[0].body
if not (_body and isinstance(_body[0], ast.If) and "_protocol_violation" in ast.dump(_body[0].test)):
    raise ValueError("onCloseFrame: the rejected-code branch does not call _protocol_violation")
_code_obj = compile(ast.Expression(_t.values[1]), "<onCloseFrame close-code predicate>", "eval")


def _rejected(code):
    r = eval(_code_obj, {"__builtins__": {}, "WebSocketProtocol": WP, "code": code})
    if type(r) is not bool:
        raise ValueError("close-code predicate is not boolean")
    return r


ranges, start = [], None
for code in range(0, 65536):
    ok = not _rejected(code)
    if ok and start is None:
        start = code
    if not ok and start is not None:
        ranges.append((start, code - 1)); start = None
if start is not None:
    raise ValueError("close code 65535 is accepted: the accepted set is not bounded by the 16-bit range as the model assumes")
for big in (65536, 70000, 10 ** 6, 2 ** 31, 2 ** 63):
    if not _rejected(big):
        raise ValueError(f"close code {big} is accepted")
if not ranges:
    raise ValueError("no close code is accepted")
vals["close_code_valid_ranges"] = ranges

# --- which close codes the library itself puts into a close frame ------------------------------------------------
# Every call of _fail_connection / sendCloseFrame / sendClose anywhere in the library (tests excluded), found with the
# interpreter's own parser.  The code argument must be: absent (-> the callee's default), None, an integer literal,
# a CLOSE_STATUS_CODE_* constant (resolved on the imported class), the peer's accepted code (self.remoteCloseCode: the
# echo in onCloseFrame) or a parameter of the enclosing function -- that function is then swept as well (fixpoint),
# e.g. _bailout(code) of the WAMP transport.  Anything else: fail closed.
_pkg = os.path.dirname(os.path.realpath(autobahn.__file__))
_trees = {}
for _root, _dirs, _files in os.walk(_pkg):
    _dirs[:] = sorted(d for d in _dirs if d not in ("test", "__pycache__"))
    for _f in sorted(_files):
        if _f.endswith(".py") and not _f.startswith("test_"):
            _path = os.path.join(_root, _f)
            with open(_path, "rb") as _fh:
                _trees[os.path.relpath(_path, _pkg)] = ast.parse(_fh.read(), _path)


def _params(fn):
    a = fn.args
    names = [x.arg for x in a.posonlyargs + a.args]
    if names and names[0] in ("self", "cls"):
        names = names[1:]
    return names


def _defaults(fn):
    """parameter name -> default expression (self excluded)"""
    a = fn.args
    pos = a.posonlyargs + a.args
    d = dict(zip([x.arg for x in pos[len(pos) - len(a.defaults):]], a.defaults))
    d.update({x.arg: v for x, v in zip(a.kwonlyargs, a.kw_defaults) if v is not None})
    return d


def _const_code(e):
    """("none",) | ("code", int) | None if e is not a constant close code"""
    if isinstance(e, ast.Constant):
        if e.value is None:
            return ("none",)
        if type(e.value) is int:
            return ("code", need_int("close code literal", e.value, 0, 65536))
        return None
    nm = e.attr if isinstance(e, ast.Attribute) else e.id if isinstance(e, ast.Name) else None
    if nm and nm.startswith("CLOSE_STATUS_CODE_"):
        return ("code", need_int(nm, getattr(WP, nm), 0, 65536))
    return None


_sinks = {"_fail_connection": "code", "sendCloseFrame": "code", "sendClose": "code"}     # callee -> name of its code parameter
_sites = {}
for _round in range(10):
    _grew = False
    _defs = {}
    for _rel, _tree in _trees.items():
        for n in ast.walk(_tree):
            if isinstance(n, (ast.FunctionDef, ast.AsyncFunctionDef)) and n.name in _sinks:
                _defs.setdefault(n.name, []).append((_rel, n))
    for nm, pn in _sinks.items():
        if not _defs.get(nm):
            raise ValueError(f"close-code sweep: no definition of {nm} found")
        for _rel, fn in _defs[nm]:
            if pn not in _params(fn):
                raise ValueError(f"close-code sweep: {_rel}:{fn.lineno} {nm} has no parameter {pn!r}")

    def _visit(rel, node, stack):
        global _grew
        for ch in ast.iter_child_nodes(node):
            if isinstance(ch, (ast.FunctionDef, ast.AsyncFunctionDef, ast.Lambda)):
                _visit(rel, ch, stack + [ch])
                continue
            if isinstance(ch, ast.Call):
                f = ch.func
                callee = f.attr if isinstance(f, ast.Attribute) else f.id if isinstance(f, ast.Name) else None
                if callee in _sinks and callee in _defs:      # (a sink found in this round is swept in the next one)
                    pn = _sinks[callee]
                    if any(isinstance(a, ast.Starred) for a in ch.args) or any(k.arg is None for k in ch.keywords):
                        raise ValueError(f"close-code sweep: {rel}:{ch.lineno} {callee}(*args/**kw)")
                    vals_here = []
                    for drel, dfn in _defs[callee]:
                        idx = _params(dfn).index(pn)
                        kw = [k.value for k in ch.keywords if k.arg == pn]
                        e = kw[0] if kw else ch.args[idx] if idx < len(ch.args) else None
                        if e is None:
                            e = _defaults(dfn).get(pn)
                            if e is None:
                                raise ValueError(f"close-code sweep: {rel}:{ch.lineno} {callee}() without a code and {drel}:{dfn.lineno} has no default")
                            how = "default of " + callee
                        else:
                            how = "argument"
                        c = _const_code(e)
                        if c is None and isinstance(e, ast.Name):
                            encl = [fn for fn in stack if not isinstance(fn, ast.Lambda) and e.id in _params(fn)]
                            if encl:
                                fn = encl[-1]
                                if _sinks.get(fn.name, e.id) != e.id:
                                    raise ValueError(f"close-code sweep: {fn.name} passes on two different parameters")
                                if fn.name not in _sinks:
                                    _sinks[fn.name] = e.id
                                    _grew = True
                                c = ("param", fn.name)
                        if c is None and isinstance(e, ast.Attribute) and isinstance(e.value, ast.Name) and e.value.id == "self" and e.attr == "remoteCloseCode":
                            c = ("echo",)
                        if c is None:
                            raise ValueError(f"close-code sweep: {rel}:{ch.lineno} {callee}(... {ast.unparse(e)} ...): not a constant close code")
                        vals_here.append(c + (how,))
                    if len({v[:2] for v in vals_here}) != 1:
                        raise ValueError(f"close-code sweep: {rel}:{ch.lineno} {callee}: ambiguous {vals_here}")
                    names = [getattr(fn, "name", "<lambda>") for fn in stack]
                    _sites[(rel, ch.lineno, ch.col_offset)] = dict(file=rel, line=ch.lineno, callee=callee, within=".".join(names), value=list(vals_here[0]))
            _visit(rel, ch, stack)

    _sites.clear()
    for _rel, _tree in _trees.items():
        _visit(_rel, _tree, [])
    if not _grew:
        break
else:
    raise ValueError("close-code sweep: no fixpoint")
_site_list = [_sites[k] for k in sorted(_sites)]
for nm, pn in sorted(_sinks.items()):
    for _rel, fn in _defs[nm]:
        e = _defaults(fn).get(pn)
        c = _const_code(e) if e is not None else None
        if e is not None and c is None:
            raise ValueError(f"close-code sweep: {_rel}:{fn.lineno} default of {nm}({pn}) is not a constant close code")
        if c and c[0] == "code":
            _site_list.append(dict(file=_rel, line=fn.lineno, callee=nm, within=nm, value=[c[0], c[1], "declared default"]))
_lib_codes = sorted({s["value"][1] for s in _site_list if s["value"][0] == "code"})
if not _lib_codes:
    raise ValueError("close-code sweep: no constant close code found")
for must in ("_protocol_violation", "_invalid_payload", "_max_message_size_exceeded", "on_connect_failed", "onCloseFrame"):
    if not any(must in s["within"].split(".") for s in _site_list):
        raise ValueError(f"close-code sweep: no call site inside {must}")
_oc = [s for s in _site_list if "on_connect_failed" in s["within"].split(".") and s["file"] == os.path.join("websocket", "protocol.py")]
if len(_oc) != 1 or _oc[0]["value"][0] != "code" or _oc[0]["callee"] != "_fail_connection":
    raise ValueError(f"client on_connect_failed: expected exactly one _fail_connection(<constant>, ...), found {_oc}")
vals["code_onconnect_failed"] = _oc[0]["value"][1]
vals["library_close_codes"] = _lib_codes
vals["library_close_code_sites"] = _site_list

# --- the ping / pong payload limit and the configurable autoPingSize range ----------------------------------------
# probed on the real objects: sendPing / sendPong on an OPEN protocol whose sendFrame is a recorder; setProtocolOptions
# for every size 0..300.  Both accepted sets must be intervals; the model's auto ping never fails, which is sound iff
# every configurable size is sendable (theorem C17_auto_ping_size_sendable over these constants).
def _probe_ctl(method):
    okset = []
    for n in range(0, 300):
        p = P.WebSocketServerProtocol()
        p.factory = sf
        p.state = WP.STATE_OPEN
        sent = []
        p.sendFrame = lambda **kw: sent.append(kw)
        try:
            getattr(p, method)(b"x" * n)
        except Exception:
            if sent:
                raise ValueError(f"{method}({n} octets) raised after writing")
            continue
        if len(sent) != 1 or len(sent[0].get("payload") or b"") != n:
            raise ValueError(f"{method}({n} octets): unexpected frame {sent!r}")
        okset.append(n)
    if not okset or okset != list(range(0, okset[-1] + 1)):
        raise ValueError(f"{method}: accepted payload lengths are not an interval from 0: {okset[:5]}..{okset[-5:]}")
    return okset[-1]


vals["ping_payload_max"] = _probe_ctl("sendPing")
vals["pong_payload_max"] = _probe_ctl("sendPong")
_sizes = []
for n in range(0, 301):
    for tag, fac in (("server", P.WebSocketServerFactory), ("client", P.WebSocketClientFactory)):
        f = fac("ws://localhost:9000")
        try:
            f.setProtocolOptions(autoPingSize=n)
            ok = f.autoPingSize == n
        except AssertionError:
            ok = False
        _sizes.append((n, tag, ok))
_acc = sorted({n for n, t, ok in _sizes if ok})
if {n for n, t, ok in _sizes if ok and t == "server"} != {n for n, t, ok in _sizes if ok and t == "client"}:
    raise ValueError("autoPingSize: server and client factories accept different sizes")
if not _acc or _acc != list(range(_acc[0], _acc[-1] + 1)) or _acc[-1] >= 300:
    raise ValueError(f"autoPingSize: accepted sizes are not a bounded interval: {_acc[:3]}..{_acc[-3:]}")
vals["auto_ping_size_min"], vals["auto_ping_size_max"] = _acc[0], _acc[-1]

# the batched timer's quantisation formula is control flow in txaio (modelled by hand in Model/WsConn.v: quant);
# pin the version-sensitive facts it relies on by probing the real object on a fake clock
import txaio._common as C
probe = []
now = [0.0]
bt = C._BatchedTimer(float(vals["bucket_ms_server"]), 1000, seconds_provider=lambda: now[0],
                     delayed_call_creator=lambda d, f, *a: probe.append(d) or type("H", (), {"cancel": lambda s: None})())
for n, d, want in ((0.0, 1, 1.0), (0.375, 1, 0.625), (0.375, 2, 1.625), (1.0, 1, 1.0), (1.875, 5, 4.125), (0.5, 0.25, 0.0)):
    now[0] = n
    del probe[:]
    bt._buckets.clear()
    bt.call_later(d, lambda: None)
    if len(probe) != 1 or abs(probe[0] - want) > 1e-9:
        raise ValueError(f"txaio batched timer: call_later(now={n}, delay={d}) scheduled {probe!r}, model expects {want}")


def b(v):
    return "true" if v else "false"


L = ["(* GENERATED by translators/wsconn_consts.py from the imported autobahn.websocket.protocol -- do not edit. *)",
     "From Coq Require Import NArith List Bool.", "Import ListNotations.", "Open Scope N_scope.", ""]
L.append("Definition close_codes_allowed : list N := [%s]." % "; ".join(str(c) for c in vals["close_codes_allowed"]))
L.append("(* maximal intervals of close codes that onCloseFrame does not reject (its own predicate, evaluated for 0..65535; >= 65536 rejected) *)")
L.append("Definition close_code_valid_ranges : list (N * N) := [%s]." % "; ".join(f"({a}, {b})" for a, b in vals["close_code_valid_ranges"]))
L.append("(* every constant close code at a call site of _fail_connection / sendCloseFrame / sendClose (and of the functions passing a code on to them) in the library *)")
L.append("Definition library_close_codes : list N := [%s]." % "; ".join(str(c) for c in vals["library_close_codes"]))
for k in sorted(vals):
    v = vals[k]
    if k in ("close_codes_allowed", "close_code_valid_ranges", "library_close_codes", "library_close_code_sites"):
        continue
    if type(v) is bool:
        L.append(f"Definition {k} : bool := {b(v)}.")
    else:
        L.append(f"Definition {k} : N := {v}.")
L.append("Definition bucket_ms : N := bucket_ms_server.")
L.append("")
out = {"coq": "\n".join(L) + "\n", "values": vals}
json.dump(out, open(sys.argv[2], "w") if len(sys.argv) > 2 else sys.stdout)
