"""Translator: constants of the WebSocket closing/timer machinery -> coq/Gen/WsConnConsts.v

Run by /venv/bin/python with PYTHONPATH=$AV_REPO/src (through vlib.Check.run_impl): argv[1] = input json (ignored),
argv[2] = output json {"coq": <text of the .v file>, "values": {...}}.

Values are read by IMPORTING the module (not by parsing its layout), so re-formatting the source is not an alarm.
Fails closed: anything that is not exactly of the expected shape raises, the caller then counts the proof
obligations of the property as broken.
"""
import json, os, sys

# The tree under test is whatever `import autobahn` resolves to: ck.run_impl puts $AV_REPO/src first on PYTHONPATH.
REPO = os.environ.get("AV_REPO", "/repo")
import autobahn
if not os.path.realpath(autobahn.__file__).startswith(os.path.realpath(REPO) + os.sep):
    raise RuntimeError(f"autobahn imported from {autobahn.__file__}, expected the tree under test {REPO}")

import txaio
txaio.use_asyncio()
import autobahn.websocket.protocol as P

WP = P.WebSocketProtocol


def need_int(name, v, lo=0, hi=1 << 32):
    if type(v) is not int or not (lo <= v < hi):
        raise ValueError(f"{name}: expected int in [{lo},{hi}), got {v!r}")
    return v


def ms(name, v):
    """a duration option given in seconds -> integer milliseconds (exactly representable or fail)"""
    if type(v) not in (int, float) or isinstance(v, bool) or v < 0:
        raise ValueError(f"{name}: expected non-negative number of seconds, got {v!r}")
    m = v * 1000
    if abs(m - round(m)) > 1e-9:
        raise ValueError(f"{name}: {v!r} s is not a whole number of milliseconds")
    return int(round(m))


vals = {}
allowed = WP.CLOSE_STATUS_CODES_ALLOWED
if type(allowed) not in (list, tuple) or not allowed:
    raise ValueError("CLOSE_STATUS_CODES_ALLOWED: expected non-empty list")
vals["close_codes_allowed"] = [need_int("CLOSE_STATUS_CODES_ALLOWED[i]", c, 0, 65536) for c in allowed]
if len(set(vals["close_codes_allowed"])) != len(allowed):
    raise ValueError("CLOSE_STATUS_CODES_ALLOWED: duplicate entries")
for nm in ("NORMAL", "GOING_AWAY", "PROTOCOL_ERROR", "INVALID_PAYLOAD", "ABNORMAL_CLOSE", "NULL", "TLS_HANDSHAKE_FAILED"):
    vals["code_" + nm.lower()] = need_int(nm, getattr(WP, "CLOSE_STATUS_CODE_" + nm), 0, 65536)
for nm in ("STATE_CLOSED", "STATE_CONNECTING", "STATE_CLOSING", "STATE_OPEN", "STATE_PROXY_CONNECTING"):
    vals[nm.lower()] = need_int(nm, getattr(WP, nm), 0, 16)
if len({vals[k] for k in vals if k.startswith("state_")}) != 5:
    raise ValueError("protocol state constants are not pairwise distinct")
q = WP._QUEUED_WRITE_DELAY
if type(q) not in (int, float) or not (0 < q < 1):
    raise ValueError(f"_QUEUED_WRITE_DELAY: unexpected {q!r}")
qus = q * 1e6
if abs(qus - round(qus)) > 1e-6:
    raise ValueError(f"_QUEUED_WRITE_DELAY {q!r} is not a whole number of microseconds")
vals["queued_write_delay_us"] = int(round(qus))

sf = P.WebSocketServerFactory("ws://localhost:9000")
cf = P.WebSocketClientFactory("ws://localhost:9000")
for tag, f in (("server", sf), ("client", cf)):
    bt = f._batched_timer
    if type(bt).__name__ != "_BatchedTimer":
        raise ValueError("factory._batched_timer is not a txaio _BatchedTimer")
    b = bt._bucket_milliseconds
    if abs(b - round(b)) > 1e-9 or b <= 0:
        raise ValueError(f"bucket size {b!r} ms not a positive integer")
    vals[f"bucket_ms_{tag}"] = int(round(b))
    vals[f"default_open_handshake_timeout_ms_{tag}"] = ms("openHandshakeTimeout", f.openHandshakeTimeout)
    vals[f"default_close_handshake_timeout_ms_{tag}"] = ms("closeHandshakeTimeout", f.closeHandshakeTimeout)
    vals[f"default_auto_ping_interval_ms_{tag}"] = ms("autoPingInterval", f.autoPingInterval)
    vals[f"default_auto_ping_timeout_ms_{tag}"] = ms("autoPingTimeout", f.autoPingTimeout)
    vals[f"default_auto_ping_size_{tag}"] = need_int("autoPingSize", f.autoPingSize, 12, 126)
    for nm in ("failByDrop", "echoCloseCodeReason", "autoPingRestartOnAnyTraffic"):
        v = getattr(f, nm)
        if type(v) is not bool:
            raise ValueError(f"{nm}: expected bool")
        vals[f"default_{nm}_{tag}"] = v
vals["default_server_connection_drop_timeout_ms_client"] = ms("serverConnectionDropTimeout", cf.serverConnectionDropTimeout)
if vals["bucket_ms_server"] != vals["bucket_ms_client"]:
    raise ValueError("server and client factories use different batched-timer buckets")

# --- which close codes onCloseFrame accepts from the peer -------------------------------------------------------
# The acceptance test is an expression in the source, not a table: take the test of the FIRST `if` of onCloseFrame with
# the interpreter's own parser, require the shape  `code is not None and (<predicate over code>)`, compile <predicate>
# unchanged and evaluate it for every 16-bit code (what fits into a close frame) and some larger values.  The model gets
# the maximal intervals on which the code is NOT rejected.  Anything of another shape: fail closed.
import ast, inspect, textwrap
_src = textwrap.dedent(inspect.getsource(WP.onCloseFrame))
_fn = ast.parse(_src).body[0]
if not isinstance(_fn, ast.FunctionDef) or _fn.name != "onCloseFrame" or [a.arg for a in _fn.args.args][:3] != ["self", "code", "reasonRaw"]:
    raise ValueError("onCloseFrame: unexpected signature")
_ifs = [n for n in _fn.body if isinstance(n, ast.If)]
if not _ifs:
    raise ValueError("onCloseFrame: no if statement")
_t = _ifs[0].test
if not (isinstance(_t, ast.BoolOp) and isinstance(_t.op, ast.And) and len(_t.values) == 2):
    raise ValueError("onCloseFrame: first test is not `code is not None and (...)`")
_g = _t.values[0]
if not (isinstance(_g, ast.Compare) and isinstance(_g.left, ast.Name) and _g.left.id == "code" and len(_g.ops) == 1
        and isinstance(_g.ops[0], ast.IsNot) and isinstance(_g.comparators[0], ast.Constant) and _g.comparators[0].value is None):
    raise ValueError("onCloseFrame: first test does not start with `code is not None`")
_names = {n.id for n in ast.walk(_t.values[1]) if isinstance(n, ast.Name)}
if not _names <= {"code", "WebSocketProtocol"}:
    raise ValueError(f"onCloseFrame: close-code predicate mentions {_names}")
for n in ast.walk(_t.values[1]):
    if isinstance(n, (ast.Call, ast.Lambda, ast.Await, ast.NamedExpr, ast.Subscript)):
        raise ValueError("onCloseFrame: close-code predicate is not a plain comparison expression")
_body = _ifs[0].body
if not (_body and isinstance(_body[0], ast.If) and "_protocol_violation" in ast.dump(_body[0].test)):
    raise ValueError("onCloseFrame: the rejected-code branch does not call _protocol_violation")
_code_obj = compile(ast.Expression(_t.values[1]), "<onCloseFrame close-code predicate>", "eval")


def _rejected(code):
    r = eval(_code_obj, {"__builtins__": {}, "WebSocketProtocol": WP, "code": code})
    if type(r) is not bool:
        raise ValueError("close-code predicate is not boolean")
    return r


ranges, start = [], None
for code in range(0, 65536):
    ok = not _rejected(code)
    if ok and start is None:
        start = code
    if not ok and start is not None:
        ranges.append((start, code - 1)); start = None
if start is not None:
    raise ValueError("close code 65535 is accepted: the accepted set is not bounded by the 16-bit range as the model assumes")
for big in (65536, 70000, 10 ** 6, 2 ** 31, 2 ** 63):
    if not _rejected(big):
        raise ValueError(f"close code {big} is accepted")
if not ranges:
    raise ValueError("no close code is accepted")
vals["close_code_valid_ranges"] = ranges

# the batched timer's quantisation formula is control flow in txaio (modelled by hand in Model/WsConn.v: quant);
# pin the version-sensitive facts it relies on by probing the real object on a fake clock
import txaio._common as C
probe = []
now = [0.0]
bt = C._BatchedTimer(float(vals["bucket_ms_server"]), 1000, seconds_provider=lambda: now[0],
                     delayed_call_creator=lambda d, f, *a: probe.append(d) or type("H", (), {"cancel": lambda s: None})())
for n, d, want in ((0.0, 1, 1.0), (0.375, 1, 0.625), (0.375, 2, 1.625), (1.0, 1, 1.0), (1.875, 5, 4.125), (0.5, 0.25, 0.0)):
    now[0] = n
    del probe[:]
    bt._buckets.clear()
    bt.call_later(d, lambda: None)
    if len(probe) != 1 or abs(probe[0] - want) > 1e-9:
        raise ValueError(f"txaio batched timer: call_later(now={n}, delay={d}) scheduled {probe!r}, model expects {want}")


def b(v):
    return "true" if v else "false"


L = ["(* GENERATED by translators/wsconn_consts.py from the imported autobahn.websocket.protocol -- do not edit. *)",
     "From Coq Require Import NArith List Bool.", "Import ListNotations.", "Open Scope N_scope.", ""]
L.append("Definition close_codes_allowed : list N := [%s]." % "; ".join(str(c) for c in vals["close_codes_allowed"]))
L.append("(* maximal intervals of close codes that onCloseFrame does not reject (its own predicate, evaluated for 0..65535; >= 65536 rejected) *)")
L.append("Definition close_code_valid_ranges : list (N * N) := [%s]." % "; ".join(f"({a}, {b})" for a, b in vals["close_code_valid_ranges"]))
for k in sorted(vals):
    v = vals[k]
    if k in ("close_codes_allowed", "close_code_valid_ranges"):
        continue
    if type(v) is bool:
        L.append(f"Definition {k} : bool := {b(v)}.")
    else:
        L.append(f"Definition {k} : N := {v}.")
L.append("Definition bucket_ms : N := bucket_ms_server.")
L.append("")
out = {"coq": "\n".join(L) + "\n", "values": vals}
json.dump(out, open(sys.argv[2], "w") if len(sys.argv) > 2 else sys.stdout)
