"""C09 translator (fail-closed): regenerates coq/Gen/Utf8TablePy.v, Utf8TableC.v, Utf8Unrolled.v from the
CURRENT source tree.

  * UTF8VALIDATOR_DFA of websocket/utf8validator.py   - read by importing the module (AUTOBAHN_USE_NVX=0,
    /venv/bin/python), together with UTF8VALIDATOR_DFA_S (the bytes object the loop indexes) and the two
    constants UTF8_ACCEPT / UTF8_REJECT.
  * UTF8VALIDATOR_DFA of nvx/_utf8validator.c, the 9x256 results of the DFA_TRANSITION macro and one-octet
    observations of the compiled _nvx_utf8vld_validate_table / _nvx_utf8vld_validate_unrolled loops - by
    compiling translators/utf8_c_dump.c (which #includes the C file) with gcc and the tree's own
    get_compile_args().

Values are read, never the source layout.  Anything unexpected raises TranslatorError (the check then counts
the obligation as broken).  The tree under test is $AV_REPO (default /repo), see BUILDERS.md.
"""
import json
import os
import subprocess
import sys

ROOT = os.path.dirname(os.path.dirname(os.path.abspath(__file__)))
GEN = os.path.join(ROOT, "coq", "Gen")
BUILD = os.path.join(ROOT, "build", "c09")
VENV_PY = "/venv/bin/python"
N_STATES = 9          # DFA states 0..8 (Hoehrmann numbering: 0 accept, 1 reject)
TABLE_LEN = 400       # 256 character classes + 9 rows of 16


class TranslatorError(RuntimeError):
    pass


def src_root():
    return os.path.join(os.environ.get("AV_REPO", "/repo"), "src")


def _need(cond, msg):
    if not cond:
        raise TranslatorError(msg)


_PY_READER = r"""
import json, sys
import autobahn.websocket as aw
from autobahn.websocket import utf8validator as u
assert aw.USES_NVX is False, "pure-Python validator expected (AUTOBAHN_USE_NVX=0)"
out = {
  "file": u.__file__,
  "dfa": list(u.UTF8VALIDATOR_DFA),
  "dfa_s": list(u.UTF8VALIDATOR_DFA_S),
  "dfa_s_type": type(u.UTF8VALIDATOR_DFA_S).__name__,
  "accept": u.UTF8_ACCEPT, "reject": u.UTF8_REJECT,
  "cls": u.Utf8Validator.__module__ + "." + u.Utf8Validator.__qualname__,
}
json.dump(out, sys.stdout)
"""


def read_py(src):
    env = dict(os.environ, AUTOBAHN_USE_NVX="0", PYTHONPATH=src, PYTHONHASHSEED="0", PYTHONWARNINGS="ignore")
    p = subprocess.run([VENV_PY, "-c", _PY_READER], env=env, stdout=subprocess.PIPE, stderr=subprocess.PIPE,
                       text=True, timeout=120)
    _need(p.returncode == 0, "cannot import utf8validator.py: " + p.stderr[-1500:])
    d = json.loads(p.stdout)
    want = os.path.realpath(os.path.join(src, "autobahn", "websocket", "utf8validator.py"))
    _need(os.path.realpath(d["file"]) == want, f"imported {d['file']} instead of {want}")
    t = d["dfa"]
    _need(isinstance(t, list) and len(t) == TABLE_LEN, f"python table has {len(t)} entries, expected {TABLE_LEN}")
    _need(all(isinstance(x, int) and not isinstance(x, bool) and 0 <= x <= 255 for x in t), "python table entry not an octet")
    _need(d["dfa_s_type"] == "bytes" and d["dfa_s"] == t, "UTF8VALIDATOR_DFA_S is not bytes(UTF8VALIDATOR_DFA)")
    _need(d["accept"] == 0 and d["reject"] == 1, f"UTF8_ACCEPT/UTF8_REJECT = {d['accept']}/{d['reject']}, model assumes 0/1")
    _need(d["cls"] == "autobahn.websocket.utf8validator.Utf8Validator", "unexpected validator class " + d["cls"])
    return t


def compile_args(src):
    code = ("import json,sys; from autobahn.nvx._compile_args import get_compile_args; "
            "json.dump(get_compile_args(), sys.stdout)")
    env = dict(os.environ, PYTHONPATH=src, PYTHONWARNINGS="ignore")
    p = subprocess.run([VENV_PY, "-c", code], env=env, stdout=subprocess.PIPE, stderr=subprocess.PIPE, text=True, timeout=120)
    _need(p.returncode == 0, "cannot obtain get_compile_args(): " + p.stderr[-1000:])
    args = json.loads(p.stdout)
    _need(isinstance(args, list) and all(isinstance(a, str) for a in args), "get_compile_args() not a list of strings")
    return args


def read_c(src):
    cfile = os.path.join(src, "autobahn", "nvx", "_utf8validator.c")
    _need(os.path.isfile(cfile), "missing " + cfile)
    os.makedirs(BUILD, exist_ok=True)
    exe = os.path.join(BUILD, f"utf8_c_dump_{os.getpid()}")
    dumper = os.path.join(ROOT, "translators", "utf8_c_dump.c")
    args = [a for a in compile_args(src) if a != "-Wall"]
    cmd = ["gcc"] + args + ["-w", f'-DUTF8_C_FILE="{cfile}"', dumper, "-o", exe]
    try:
        p = subprocess.run(cmd, stdout=subprocess.PIPE, stderr=subprocess.STDOUT, text=True, timeout=300)
        _need(p.returncode == 0, "gcc failed on the C dumper: " + p.stdout[-2000:])
        p = subprocess.run(["timeout", "60", exe], stdout=subprocess.PIPE, stderr=subprocess.STDOUT, text=True, timeout=90)
        _need(p.returncode == 0, f"C dumper exited with {p.returncode}: " + p.stdout[-500:])
    finally:
        try:
            os.remove(exe)
        except FileNotFoundError:
            pass
    rec = {}
    for line in p.stdout.splitlines():
        f = line.split()
        if not f:
            continue
        _need(f[0] not in rec, "duplicate record " + f[0])
        try:
            rec[f[0]] = [int(x) for x in f[1:]]
        except ValueError:
            raise TranslatorError("non-numeric dumper output in record " + f[0])
    _need(set(rec) == {"CONST", "IMPL", "DFA", "MACRO", "TABLEFN", "UNROLLEDFN"}, f"dumper records {sorted(rec)}")
    acc, rej, n, esz = rec["CONST"]
    _need((acc, rej) == (0, 1), f"C UTF8_ACCEPT/UTF8_REJECT = {acc}/{rej}, model assumes 0/1")
    _need(n == TABLE_LEN and esz == 1, f"C table has {n} entries of {esz} octets, expected {TABLE_LEN} of 1")
    dfa = rec["DFA"]
    _need(len(dfa) == TABLE_LEN and all(0 <= x <= 255 for x in dfa), "C table malformed")
    macro = rec["MACRO"]
    _need(len(macro) == N_STATES * 256 and all(0 <= x < 2 ** 31 for x in macro), "macro sweep malformed")
    fns = {}
    for tag in ("TABLEFN", "UNROLLEDFN"):
        v = rec[tag]
        _need(len(v) == N_STATES * 256 * 4, tag + " sweep malformed")
        quads = [tuple(v[i:i + 4]) for i in range(0, len(v), 4)]
        _need(all(q[0] >= 0 and q[1] in (0, 1, 2) and q[2] >= 0 and q[3] >= 0 for q in quads), tag + " values out of range")
        fns[tag] = quads
    impl = rec["IMPL"]
    _need(len(impl) == 5 and all(0 <= x <= 4 for x in impl), "IMPL record malformed")
    return {"dfa": dfa, "macro": macro, "table_fn": fns["TABLEFN"], "unrolled_fn": fns["UNROLLEDFN"],
            "impl_default": impl[0], "set_impl": impl[1:], "cflags": args}


def _nlist(name, xs, per=32):
    rows = [";".join(str(x) for x in xs[i:i + per]) for i in range(0, len(xs), per)]
    return f"Definition {name} : list N := [\n  " + ";\n  ".join(rows) + "\n]%N.\n"


def _quads(name, qs, per=8):
    rows = [";".join("(%d,%d,%d,%d)" % q for q in qs[i:i + per]) for i in range(0, len(qs), per)]
    return f"Definition {name} : list (N * N * N * N) := [\n  " + ";\n  ".join(rows) + "\n]%N.\n"


HEAD = ("(* GENERATED by translators/utf8_table.py from {what} on every check run - do not edit, do not commit. *)\n"
        "From Coq Require Import NArith List.\nImport ListNotations.\n")


def render(py, c, src):
    f_py = HEAD.format(what=src + "/autobahn/websocket/utf8validator.py (UTF8VALIDATOR_DFA, by import)") + \
        "(* 256 character classes followed by 9 rows of 16 next-states *)\n" + _nlist("dfa_py", py)
    f_c = HEAD.format(what=src + "/autobahn/nvx/_utf8validator.c (compiled dumper)") + \
        "(* UTF8VALIDATOR_DFA as the C compiler sees it *)\n" + _nlist("dfa_c", c["dfa"]) + \
        "(* one call of _nvx_utf8vld_validate_table(vld,&b,1) with vld->state = s, current_index = 77,\n   total_index = 1000; entry s*256+b:\n" \
        "   (new state, return value + 1, current_index, total_index) *)\n" + _quads("c_table_fn_obs", c["table_fn"]) + \
        f"(* implementation selected by nvx_utf8vld_new() and accepted by set_impl(1..4) with the build flags\n" \
        f"   {' '.join(c['cflags'])} *)\n" \
        f"Definition c_impl_default : N := {c['impl_default']}%N.\n" + _nlist("c_set_impl_result", c["set_impl"])
    f_u = HEAD.format(what=src + "/autobahn/nvx/_utf8validator.c (DFA_TRANSITION, compiled sweep)") + \
        "(* state after DFA_TRANSITION(state, octet); entry s*256+b, s < 9 *)\n" + _nlist("unrolled_tbl", c["macro"]) + \
        "(* one call of _nvx_utf8vld_validate_unrolled(vld,&b,1) with vld->state = s *)\n" + \
        _quads("c_unrolled_fn_obs", c["unrolled_fn"])
    return {"Utf8TablePy.v": f_py, "Utf8TableC.v": f_c, "Utf8Unrolled.v": f_u}


def _write_if_changed(path, content):
    os.makedirs(os.path.dirname(path), exist_ok=True)
    if os.path.exists(path) and open(path).read() == content:
        return False
    tmp = path + f".tmp{os.getpid()}"
    with open(tmp, "w") as f:
        f.write(content)
    os.replace(tmp, path)
    return True


def generate(src=None, out_dir=GEN):
    """Regenerate the three Gen files; returns the values read (for the harness' own search)."""
    src = src or src_root()
    py = read_py(src)
    c = read_c(src)
    changed = [name for name, text in render(py, c, src).items() if _write_if_changed(os.path.join(out_dir, name), text)]
    return {"src": src, "py": py, "c": c, "changed": changed}


def main():
    r = generate()
    print("C09 translator: source", r["src"], "- rewritten:", r["changed"] or "nothing (unchanged)")
    return 0


if __name__ == "__main__":
    sys.exit(main())
