"""regex2coq.py -- regenerate coq/Gen/UriRegex.v from autobahn/wamp/message.py (run on every check; fail closed).

Reads, from the *imported* module (values, not layout):
  * the 11 compiled patterns  _URI_PAT_* / _CUSTOM_ATTRIBUTE : each `.pattern` string is parsed with the
    interpreter's own regex parser (re._parser.parse) and the parse tree is mapped 1:1 onto the Coq regex AST of
    Base/Regex.v.  Supported: LITERAL, IN (NEGATE / LITERAL / RANGE / CATEGORY), MAX_REPEAT / MIN_REPEAT,
    SUBPATTERN (no flag changes), BRANCH, and exactly one leading AT_BEGINNING and one trailing AT_END (`$`) or
    AT_END_STRING (`\\Z`).  Anything else raises.
  * character categories (\\d, \\s, ...) are turned into range lists by asking `re` about all 0x110000 code points
    under the flags of the pattern.
  * PAYLOAD_ENC_STANDARD_IDENTIFIERS / PAYLOAD_ENC_STANDARD_SERIALIZERS (string lists).
And, from the source text (ast), with an exact shape match:
  * the ID bounds in check_or_raise_id (`value < LO or value > HI`),
  * every use of a pattern object in message.py must be `<PAT>.match(<one arg>)` or `<PAT>.pattern`.

The module read is autobahn.wamp.message of the tree under test: $AV_REPO/src (default /repo/src) must be first on
PYTHONPATH (vlib.impl_env arranges that); the translator refuses a module imported from anywhere else.

usage: regex2coq.py <out.v> [<out.json>]
       regex2coq.py                      (no argument: write <verif>/coq/Gen/UriRegex.v, only if its content changes)
"""
import ast
import json
import os
import re
import sys

try:                                    # Python >= 3.11
    import re._parser as sre_parse
    import re._constants as sre_c
except ImportError:                     # pragma: no cover
    import sre_parse
    import sre_constants as sre_c

PATTERNS = [  # (python name, coq suffix)
    ("_URI_PAT_REALM_NAME", "realm_name"),
    ("_URI_PAT_REALM_NAME_ETH", "realm_name_eth"),
    ("_URI_PAT_REALM_NAME_ENS", "realm_name_ens"),
    ("_URI_PAT_REALM_NAME_ENS_REVERSE", "realm_name_ens_reverse"),
    ("_URI_PAT_STRICT_EMPTY", "strict_empty"),
    ("_URI_PAT_LOOSE_EMPTY", "loose_empty"),
    ("_URI_PAT_STRICT_NON_EMPTY", "strict_non_empty"),
    ("_URI_PAT_LOOSE_NON_EMPTY", "loose_non_empty"),
    ("_URI_PAT_STRICT_LAST_EMPTY", "strict_last_empty"),
    ("_URI_PAT_LOOSE_LAST_EMPTY", "loose_last_empty"),
    ("_CUSTOM_ATTRIBUTE", "custom_attribute"),
]


class Unrecognised(Exception):
    pass


def load_message():
    """autobahn.wamp.message of the tree under test ($AV_REPO/src is first on PYTHONPATH)"""
    sys.modules["bjdata"] = None
    repo = os.path.realpath(os.environ.get("AV_REPO", "/repo"))
    from autobahn.wamp import message
    path = os.path.realpath(message.__file__)
    if not path.startswith(repo + os.sep):
        raise Unrecognised(f"autobahn.wamp.message imported from {path}, not from the tree under test {repo}")
    return message, path


# ---------- categories ----------
_ALL = "".join(map(chr, range(0x110000)))
_CAT_SRC = {
    sre_c.CATEGORY_DIGIT: ("digit", r"\d"), sre_c.CATEGORY_NOT_DIGIT: ("not_digit", r"\D"),
    sre_c.CATEGORY_SPACE: ("space", r"\s"), sre_c.CATEGORY_NOT_SPACE: ("not_space", r"\S"),
    sre_c.CATEGORY_WORD: ("word", r"\w"), sre_c.CATEGORY_NOT_WORD: ("not_word", r"\W"),
}
_cat_cache = {}


def ranges_of(cps):
    out = []
    for c in cps:
        if out and out[-1][1] + 1 == c:
            out[-1][1] = c
        else:
            out.append([c, c])
    return [(a, b) for a, b in out]


def category(cat, flags):
    """(coq name, ranges) of a character category under the pattern's flags, by asking re about every code point"""
    if cat not in _CAT_SRC:
        raise Unrecognised(f"category {cat}")
    base, src = _CAT_SRC[cat]
    asc = bool(flags & re.ASCII)
    name = "cat_" + base + ("_ascii" if asc else "")
    if name not in _cat_cache:
        rx = re.compile(src, re.ASCII if asc else 0)
        cps = [m.start() for m in rx.finditer(_ALL)]
        # cross-check with single-character matching at the range borders
        rs = ranges_of(cps)
        for a, b in rs:
            assert rx.fullmatch(chr(a)) and rx.fullmatch(chr(b))
            assert a == 0 or not rx.fullmatch(chr(a - 1))
            assert b == 0x10FFFF or not rx.fullmatch(chr(b + 1))
        _cat_cache[name] = (rs, len(cps))
    return name


# ---------- parse tree -> Coq ----------
def coq_ranges(rs):
    return "[" + "; ".join(f"({a}, {b})" for a, b in rs) + "]"


def tr_in(items, flags):
    neg = False
    parts = []
    items = list(items)
    if items and items[0][0] is sre_c.NEGATE:
        neg = True
        items = items[1:]
    if not items:
        raise Unrecognised("empty class")
    for op, av in items:
        if op is sre_c.LITERAL:
            parts.append(coq_ranges([(av, av)]))
        elif op is sre_c.RANGE:
            lo, hi = av
            if not (0 <= lo <= hi):
                raise Unrecognised(f"range {av}")
            parts.append(coq_ranges([(lo, hi)]))
        elif op is sre_c.CATEGORY:
            parts.append(category(av, flags))
        else:
            raise Unrecognised(f"class item {op}")
    return f"Chr {'true' if neg else 'false'} ({' ++ '.join(parts)})"


def tr_seq(items, flags):
    xs = [tr_item(op, av, flags) for op, av in items]
    if len(xs) == 1:
        return xs[0]
    return "seq_re [" + "; ".join(xs) + "]"


def tr_item(op, av, flags):
    if op is sre_c.LITERAL:
        return f"lit {av}"
    if op is sre_c.IN:
        return tr_in(av, flags)
    if op in (sre_c.MAX_REPEAT, sre_c.MIN_REPEAT):
        lo, hi, sub = av
        if hi is sre_c.MAXREPEAT or hi == sre_c.MAXREPEAT:
            mx = "None"
        else:
            if not (0 <= lo <= hi <= 4000):
                raise Unrecognised(f"repeat bounds {lo},{hi}")
            mx = f"(Some {hi}%nat)"
        if not (0 <= lo <= 4000):
            raise Unrecognised(f"repeat bound {lo}")
        return f"rep {lo}%nat {mx} ({tr_seq(sub, flags)})"
    if op is sre_c.SUBPATTERN:
        group, add_flags, del_flags, sub = av
        if add_flags or del_flags:
            raise Unrecognised("group-local flags")
        return tr_seq(sub, flags)
    if op is sre_c.BRANCH:
        none, alts = av
        if none is not None:
            raise Unrecognised("branch")
        return "alt_re [" + "; ".join(tr_seq(a, flags) for a in alts) + "]"
    raise Unrecognised(f"regex construct {op} (not one of LITERAL/IN/MAX_REPEAT/MIN_REPEAT/SUBPATTERN/BRANCH)")


def tr_pattern(p):
    if not isinstance(p, re.Pattern) or type(p.pattern) is not str:
        raise Unrecognised("not a compiled str pattern")
    if p.flags not in (re.UNICODE, re.UNICODE | re.ASCII, re.ASCII):
        # IGNORECASE / MULTILINE / DOTALL / VERBOSE / LOCALE change the meaning of what is translated here
        raise Unrecognised(f"flags {p.flags}")
    tree = sre_parse.parse(p.pattern, p.flags)
    if tree.state.flags != p.flags and (tree.state.flags | re.UNICODE) != (p.flags | re.UNICODE):
        raise Unrecognised("inline flags")
    items = list(tree)
    if len(items) < 2 or items[0] != (sre_c.AT, sre_c.AT_BEGINNING):
        raise Unrecognised("pattern does not start with exactly one ^")
    last = items[-1]
    if last == (sre_c.AT, sre_c.AT_END):
        end = "EndDollar"
    elif last == (sre_c.AT, sre_c.AT_END_STRING):
        end = "EndZ"
    else:
        raise Unrecognised("pattern does not end with $ or \\Z")
    body = items[1:-1]
    # any other anchor inside raises in tr_item (AT is not translated)
    return tr_seq(body, p.flags) if body else "Eps", end


# ---------- source-level facts ----------
def check_uses(tree, names):
    """every Name reference to a pattern must be  NAME.match(x)  /  NAME.pattern  /  module-level assignment"""
    parents = {}
    for n in ast.walk(tree):
        for c in ast.iter_child_nodes(n):
            parents[c] = n
    uses = 0
    for n in ast.walk(tree):
        if isinstance(n, ast.Name) and n.id in names:
            par = parents[n]
            if isinstance(n.ctx, ast.Store):
                if not (isinstance(par, ast.Assign) and parents[par] is tree):
                    raise Unrecognised(f"{n.id} assigned at line {n.lineno}")
                continue
            if isinstance(par, ast.Attribute) and par.attr == "pattern":
                continue
            if isinstance(par, ast.Attribute) and par.attr == "match":
                call = parents[par]
                if isinstance(call, ast.Call) and call.func is par and len(call.args) == 1 and not call.keywords:
                    uses += 1
                    continue
            if isinstance(par, ast.Assign) and len(par.targets) == 1 and isinstance(par.targets[0], ast.Name) \
                    and par.targets[0].id == "pat":
                continue                        # `pat = _URI_PAT_...` in check_or_raise_uri; `pat` itself is checked below
            raise Unrecognised(f"unexpected use of {n.id} at line {n.lineno}")
    # the local alias `pat` of check_or_raise_uri: only  pat.match(value)  and  pat.pattern
    for fn in tree.body:
        if isinstance(fn, ast.FunctionDef) and fn.name == "check_or_raise_uri":
            for n in ast.walk(fn):
                if isinstance(n, ast.Name) and n.id == "pat" and isinstance(n.ctx, ast.Load):
                    par = parents[n]
                    ok = isinstance(par, ast.Attribute) and (
                        par.attr == "pattern" or (par.attr == "match" and isinstance(parents[par], ast.Call)
                                                  and len(parents[par].args) == 1 and not parents[par].keywords))
                    if not ok:
                        raise Unrecognised(f"unexpected use of pat at line {n.lineno}")
    return uses


def id_bounds(tree):
    """check_or_raise_id must contain exactly:  if value < LO or value > HI: raise ProtocolError(...)"""
    fns = [f for f in tree.body if isinstance(f, ast.FunctionDef) and f.name == "check_or_raise_id"]
    if len(fns) != 1:
        raise Unrecognised("check_or_raise_id not found")
    found = []
    for n in ast.walk(fns[0]):
        if isinstance(n, ast.Compare) and any(isinstance(o, (ast.Lt, ast.Gt, ast.LtE, ast.GtE)) for o in n.ops):
            found.append(n)
    if len(found) != 2:
        raise Unrecognised("check_or_raise_id: expected two order comparisons")
    lo, hi = found

    def shape(c, op):
        return (len(c.ops) == 1 and isinstance(c.ops[0], op) and isinstance(c.left, ast.Name) and c.left.id == "value"
                and isinstance(c.comparators[0], ast.Constant) and type(c.comparators[0].value) is int)
    if not (shape(lo, ast.Lt) and shape(hi, ast.Gt)):
        raise Unrecognised("check_or_raise_id: comparisons are not `value < LO` and `value > HI`")
    return lo.comparators[0].value, hi.comparators[0].value


def cmt(t):
    """text made safe for a Coq comment"""
    return t.replace("(*", "( *").replace("*)", "* )").replace('"', "''")


def coq_str(s):
    return "[" + "; ".join(str(ord(ch)) for ch in s) + "]"


def generate():
    mod, path = load_message()
    src = open(path, encoding="utf8").read()
    tree = ast.parse(src)
    names = [n for n, _ in PATTERNS]
    # no other compiled pattern may live in the module unnoticed
    for k, v in vars(mod).items():
        if isinstance(v, re.Pattern) and k not in names:
            raise Unrecognised(f"compiled pattern {k} is not known to the translator")
    uses = check_uses(tree, set(names))
    out = []
    meta = {"source": path, "patterns": {}, "match_uses": uses}
    defs = []
    for pyname, suffix in PATTERNS:
        if not hasattr(mod, pyname):
            raise Unrecognised(f"{pyname} missing")
        p = getattr(mod, pyname)
        body, end = tr_pattern(p)
        defs.append(f"(* {pyname} = re.compile({cmt(repr(p.pattern))})  flags={p.flags} *)\n"
                    f"Definition pat_{suffix} : regex :=\n  {body}.\n"
                    f"Definition end_{suffix} : end_anchor := {end}.\n")
        meta["patterns"][suffix] = {"py": pyname, "pattern": p.pattern, "flags": p.flags, "end": end}
    # categories: the Unicode \d and \s are always emitted (the proofs name them)
    category(sre_c.CATEGORY_DIGIT, re.UNICODE)
    category(sre_c.CATEGORY_SPACE, re.UNICODE)
    for name in sorted(_cat_cache):
        rs, n = _cat_cache[name]
        out.append(f"(* {n} code points, {len(rs)} ranges *)\nDefinition {name} : list crange :=\n  {coq_ranges(rs)}.\n")
        meta.setdefault("categories", {})[name] = {"code_points": n, "ranges": len(rs)}
    out += defs
    lo, hi = id_bounds(tree)
    out.append(f"(* check_or_raise_id:  value < {lo} or value > {hi}  -> ProtocolError *)\n"
               f"Definition id_lo : Z := ({lo})%Z.\nDefinition id_hi : Z := ({hi})%Z.\n")
    meta["id_lo"], meta["id_hi"] = lo, hi
    for attr, cname in (("PAYLOAD_ENC_STANDARD_IDENTIFIERS", "enc_standard_identifiers"),
                        ("PAYLOAD_ENC_STANDARD_SERIALIZERS", "enc_standard_serializers")):
        v = getattr(mod, attr)
        if type(v) is not list or not all(type(x) is str for x in v):
            raise Unrecognised(f"{attr} is not a list of str")
        out.append(f"(* {attr} = {cmt(repr(v))} *)\nDefinition {cname} : list (list N) :=\n  [" +
                   "; ".join(coq_str(x) for x in v) + "].\n")
        meta[cname] = v
    head = ("(* GENERATED by translators/regex2coq.py from " + path + " -- do not edit, never committed. *)\n"
            "From Coq Require Import List NArith ZArith.\nFrom AV Require Import Base.Regex.\n"
            "Import ListNotations.\nOpen Scope N_scope.\n\n")
    return head + "\n".join(out), meta


if __name__ == "__main__":
    text, meta = generate()
    if len(sys.argv) > 1:
        with open(sys.argv[1], "w") as f:
            f.write(text)
        if len(sys.argv) > 2:
            json.dump(meta, open(sys.argv[2], "w"), indent=1)
    else:
        out = os.path.join(os.path.dirname(os.path.dirname(os.path.abspath(__file__))), "coq", "Gen", "UriRegex.v")
        os.makedirs(os.path.dirname(out), exist_ok=True)
        if not (os.path.exists(out) and open(out).read() == text):
            with open(out, "w") as f:
                f.write(text)
            print("wrote", out)
        else:
            print("unchanged", out)
