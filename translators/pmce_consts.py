"""C12 translator (fail-closed): regenerates coq/Gen/PmceConsts.v from the CURRENT source tree.

Read by IMPORTING the modules in /venv/bin/python (values, never source layout):
  compress_deflate.PerMessageDeflateMixin.EXTENSION_NAME / WINDOW_SIZE_PERMISSIBLE_VALUES /
      MEM_LEVEL_PERMISSIBLE_VALUES,  PerMessageDeflate.DEFAULT_WINDOW_BITS / DEFAULT_MEM_LEVEL
  compress_bzip2.PerMessageBzip2Mixin.EXTENSION_NAME / COMPRESS_LEVEL_PERMISSIBLE_VALUES,
      PerMessageBzip2.DEFAULT_COMPRESS_LEVEL
  compress_brotli.PerMessageBrotliMixin.EXTENSION_NAME
  compress_snappy : not importable here (python-snappy is not installed) -> EXTENSION_NAME is read from the
      module's AST (a single string-literal assignment in class PerMessageSnappyMixin); anything else -> error
  compress.PERMESSAGE_COMPRESSION_EXTENSION : the registry keys and, per key, the five class names
  the parameter-name literals each parse()/get_extension_string() uses are NOT read here: they are tied by the
      correspondence run (token-by-token comparison of the real header strings).

Anything unexpected raises TranslatorError (the check then counts the obligations as broken).
The tree under test is $AV_REPO (default /repo), source root $AV_REPO/src, so the check can be tried on a
mutated scratch worktree.
"""
import ast
import json
import os
import subprocess
import sys

ROOT = os.path.dirname(os.path.dirname(os.path.abspath(__file__)))
GEN = os.path.join(ROOT, "coq", "Gen")
VENV_PY = "/venv/bin/python"


class TranslatorError(RuntimeError):
    pass


def src_root():
    return os.path.join(os.environ.get("AV_REPO", "/repo"), "src")


def _need(cond, msg):
    if not cond:
        raise TranslatorError(msg)


_READER = r"""
import json, sys, os
from autobahn.websocket import compress as C
from autobahn.websocket import compress_deflate as D
from autobahn.websocket import compress_bzip2 as B
try:
    from autobahn.websocket import compress_brotli as R
    brotli = {"file": R.__file__, "name": R.PerMessageBrotliMixin.EXTENSION_NAME}
except ImportError as e:
    brotli = None
try:
    import snappy
    have_snappy = True
except ImportError:
    have_snappy = False
reg = {}
for k, v in C.PERMESSAGE_COMPRESSION_EXTENSION.items():
    reg[k] = {r: v[r].__module__ + "." + v[r].__qualname__ for r in sorted(v)}
out = {
  "files": {"compress": C.__file__, "deflate": D.__file__, "bzip2": B.__file__},
  "deflate": {"name": D.PerMessageDeflateMixin.EXTENSION_NAME,
              "window": D.PerMessageDeflateMixin.WINDOW_SIZE_PERMISSIBLE_VALUES,
              "mem": D.PerMessageDeflateMixin.MEM_LEVEL_PERMISSIBLE_VALUES,
              "cls_window": [getattr(c, "WINDOW_SIZE_PERMISSIBLE_VALUES") for c in
                             (D.PerMessageDeflateOffer, D.PerMessageDeflateOfferAccept, D.PerMessageDeflateResponse,
                              D.PerMessageDeflateResponseAccept, D.PerMessageDeflate)],
              "cls_mem": [getattr(c, "MEM_LEVEL_PERMISSIBLE_VALUES") for c in
                          (D.PerMessageDeflateOfferAccept, D.PerMessageDeflateResponseAccept)],
              "cls_name": [c.EXTENSION_NAME for c in
                           (D.PerMessageDeflateOffer, D.PerMessageDeflateOfferAccept, D.PerMessageDeflateResponse,
                            D.PerMessageDeflateResponseAccept, D.PerMessageDeflate)],
              "default_window": D.PerMessageDeflate.DEFAULT_WINDOW_BITS,
              "default_mem": D.PerMessageDeflate.DEFAULT_MEM_LEVEL},
  "bzip2": {"name": B.PerMessageBzip2Mixin.EXTENSION_NAME,
            "levels": B.PerMessageBzip2Mixin.COMPRESS_LEVEL_PERMISSIBLE_VALUES,
            "cls_levels": [getattr(c, "COMPRESS_LEVEL_PERMISSIBLE_VALUES") for c in
                           (B.PerMessageBzip2Offer, B.PerMessageBzip2OfferAccept, B.PerMessageBzip2Response,
                            B.PerMessageBzip2ResponseAccept, B.PerMessageBzip2)],
            "cls_name": [c.EXTENSION_NAME for c in
                         (B.PerMessageBzip2Offer, B.PerMessageBzip2OfferAccept, B.PerMessageBzip2Response,
                          B.PerMessageBzip2ResponseAccept, B.PerMessageBzip2)],
            "default_level": B.PerMessageBzip2.DEFAULT_COMPRESS_LEVEL},
  "brotli": brotli,
  "have_snappy": have_snappy,
  "registry": reg,
}
json.dump(out, sys.stdout)
"""


def _is_int_list(v):
    return isinstance(v, list) and all(isinstance(x, int) and not isinstance(x, bool) for x in v)


def read_values(src):
    env = dict(os.environ, PYTHONPATH=src, PYTHONHASHSEED="0", PYTHONWARNINGS="ignore")
    p = subprocess.run([VENV_PY, "-c", _READER], env=env, stdout=subprocess.PIPE, stderr=subprocess.PIPE,
                       text=True, timeout=120, cwd="/")
    _need(p.returncode == 0, "cannot import the compress modules: " + p.stderr[-1500:])
    d = json.loads(p.stdout)
    for k, rel in (("compress", "compress.py"), ("deflate", "compress_deflate.py"), ("bzip2", "compress_bzip2.py")):
        want = os.path.realpath(os.path.join(src, "autobahn", "websocket", rel))
        _need(os.path.realpath(d["files"][k]) == want, f"imported {d['files'][k]} instead of {want}")
    de, bz = d["deflate"], d["bzip2"]
    _need(_is_int_list(de["window"]) and de["window"], "WINDOW_SIZE_PERMISSIBLE_VALUES is not a non-empty int list")
    _need(_is_int_list(de["mem"]) and de["mem"], "MEM_LEVEL_PERMISSIBLE_VALUES is not a non-empty int list")
    _need(all(w == de["window"] for w in de["cls_window"]), "a deflate class overrides WINDOW_SIZE_PERMISSIBLE_VALUES")
    _need(all(w == de["mem"] for w in de["cls_mem"]), "a deflate class overrides MEM_LEVEL_PERMISSIBLE_VALUES")
    _need(all(n == de["name"] for n in de["cls_name"]), "a deflate class overrides EXTENSION_NAME")
    # 0 is the in-band "not requested" marker in every record: it must not be a permissible value
    _need(all(0 < x < 1000 for x in de["window"] + de["mem"]), "permissible value out of the modelled range (0 is the 'absent' marker)")
    _need(len(set(de["window"])) == len(de["window"]) and len(set(de["mem"])) == len(de["mem"]), "duplicate permissible value")
    _need(isinstance(de["default_window"], int) and isinstance(de["default_mem"], int), "deflate defaults are not ints")
    _need(_is_int_list(bz["levels"]) and bz["levels"] and all(0 < x < 1000 for x in bz["levels"]), "COMPRESS_LEVEL_PERMISSIBLE_VALUES unexpected")
    _need(all(w == bz["levels"] for w in bz["cls_levels"]), "a bzip2 class overrides COMPRESS_LEVEL_PERMISSIBLE_VALUES")
    _need(all(n == bz["name"] for n in bz["cls_name"]), "a bzip2 class overrides EXTENSION_NAME")
    _need(isinstance(bz["default_level"], int), "bzip2 default level is not an int")
    _need(d["brotli"] is not None, "compress_brotli not importable (brotli is expected to be installed here)")
    for nm in (de["name"], bz["name"], d["brotli"]["name"]):
        _need(isinstance(nm, str) and nm and all(32 < ord(c) < 127 and c not in ',;="' for c in nm) and nm == nm.lower(),
              f"extension name {nm!r} is not a lower-case token")
    return d


def snappy_name(src):
    """python-snappy is not installed: the module cannot be imported; read the one literal from its AST."""
    path = os.path.join(src, "autobahn", "websocket", "compress_snappy.py")
    tree = ast.parse(open(path).read(), path)
    found = []
    for node in tree.body:
        if isinstance(node, ast.ClassDef) and node.name == "PerMessageSnappyMixin":
            for st in node.body:
                if isinstance(st, ast.Assign) and len(st.targets) == 1 and isinstance(st.targets[0], ast.Name) \
                        and st.targets[0].id == "EXTENSION_NAME":
                    _need(isinstance(st.value, ast.Constant) and isinstance(st.value.value, str),
                          "PerMessageSnappyMixin.EXTENSION_NAME is not a string literal")
                    found.append(st.value.value)
    _need(len(found) == 1, f"expected exactly one EXTENSION_NAME literal in PerMessageSnappyMixin, found {len(found)}")
    # no class of the module may rebind it
    for node in ast.walk(tree):
        if isinstance(node, ast.Assign):
            for t in node.targets:
                if isinstance(t, (ast.Name, ast.Attribute)) and getattr(t, "id", getattr(t, "attr", "")) == "EXTENSION_NAME":
                    _need(isinstance(node.value, ast.Constant) and node.value.value == found[0],
                          "EXTENSION_NAME rebound in compress_snappy.py")
    return found[0]


def zlist(xs):
    return "[" + "; ".join(str(x) for x in xs) + "]%Z"


def coq_str(s):
    _need('"' not in s, "quote in string literal")
    return '"' + s + '"%string'


EXPECTED_ROLES = ["Offer", "OfferAccept", "PMCE", "Response", "ResponseAccept"]


def render(src=None):
    src = src or src_root()
    d = read_values(src)
    sn = snappy_name(src)
    de, bz = d["deflate"], d["bzip2"]
    reg = d["registry"]
    names = {"deflate": de["name"], "bzip2": bz["name"], "brotli": d["brotli"]["name"], "snappy": sn}
    _need(len(set(names.values())) == 4, "extension names are not pairwise distinct")
    stem = {"deflate": "Deflate", "bzip2": "Bzip2", "brotli": "Brotli", "snappy": "Snappy"}
    installed = []
    for short, nm in names.items():
        if nm in reg:
            _need(sorted(reg[nm]) == EXPECTED_ROLES, f"registry entry {nm} has roles {sorted(reg[nm])}")
            for role, cls in reg[nm].items():
                suffix = "" if role == "PMCE" else role
                want = f"autobahn.websocket.compress_{short}.PerMessage{stem[short]}{suffix}"
                _need(cls == want, f"registry[{nm}][{role}] = {cls}, expected {want}")
            installed.append(short)
    _need(set(reg) <= set(names.values()), f"registry has an extension the model does not know: {sorted(set(reg) - set(names.values()))}")
    _need("deflate" in installed, "permessage-deflate missing from the registry")
    _need(("snappy" in installed) == d["have_snappy"], "registry/snappy availability mismatch")
    code = {"deflate": "XDeflate", "bzip2": "XBzip2", "brotli": "XBrotli", "snappy": "XSnappy"}
    out = []
    out.append("(* GENERATED by translators/pmce_consts.py from the tree under test ($AV_REPO/src) -- do not edit, never committed. *)")
    out.append("From Coq Require Import ZArith List String.")
    out.append("Import ListNotations.")
    out.append("Inductive ext := XDeflate | XBzip2 | XBrotli | XSnappy.")
    out.append("(* compress_deflate.py: PerMessageDeflateMixin *)")
    out.append("Definition deflate_name : string := %s." % coq_str(de["name"]))
    out.append("Definition window_permissible : list Z := %s." % zlist(de["window"]))
    out.append("Definition mem_permissible : list Z := %s." % zlist(de["mem"]))
    out.append("(* compress_deflate.py: PerMessageDeflate.DEFAULT_WINDOW_BITS (= zlib.MAX_WBITS) / DEFAULT_MEM_LEVEL *)")
    out.append("Definition default_window_bits : Z := (%d)%%Z." % de["default_window"])
    out.append("Definition default_mem_level : Z := (%d)%%Z." % de["default_mem"])
    out.append("(* compress_bzip2.py *)")
    out.append("Definition bzip2_name : string := %s." % coq_str(bz["name"]))
    out.append("Definition level_permissible : list Z := %s." % zlist(bz["levels"]))
    out.append("Definition default_compress_level : Z := (%d)%%Z." % bz["default_level"])
    out.append("(* compress_brotli.py / compress_snappy.py (snappy: literal read from the AST, module not importable) *)")
    out.append("Definition brotli_name : string := %s." % coq_str(names["brotli"]))
    out.append("Definition snappy_name : string := %s." % coq_str(sn))
    out.append("(* compress.py: PERMESSAGE_COMPRESSION_EXTENSION keys present in this interpreter, registry order *)")
    order = [k for k in reg]
    inv = {v: k for k, v in names.items()}
    out.append("Definition installed : list ext := [%s]." % "; ".join(code[inv[k]] for k in order))
    out.append("Definition ext_name (x : ext) : string :=")
    out.append("  match x with XDeflate => deflate_name | XBzip2 => bzip2_name | XBrotli => brotli_name | XSnappy => snappy_name end.")
    return "\n".join(out) + "\n", d


def main():
    sys.path.insert(0, os.path.join(ROOT, "harness"))
    import vlib
    text, d = render()
    changed = vlib.write_if_changed(os.path.join(GEN, "PmceConsts.v"), text)
    print(("wrote" if changed else "unchanged"), os.path.join(GEN, "PmceConsts.v"))


if __name__ == "__main__":
    main()
