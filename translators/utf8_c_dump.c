/* C09 translator helper: prints the VALUES the C compiler sees in _utf8validator.c.
 *
 * Compiled by translators/utf8_table.py as
 *     gcc <get_compile_args()> -DUTF8_C_FILE='"<src>/autobahn/nvx/_utf8validator.c"' utf8_c_dump.c
 * The C file under study is #included textually, so the table, the DFA_TRANSITION macro and the two
 * validator loops below are exactly the ones the NVX extension is built from (no layout regexes).
 *
 * Output (one record per line, decimal):
 *   CONST <UTF8_ACCEPT> <UTF8_REJECT> <sizeof(DFA)/sizeof(DFA[0])> <sizeof(DFA[0])>
 *   IMPL <default impl after nvx_utf8vld_new> <set_impl(1)> <set_impl(2)> <set_impl(3)> <set_impl(4)>
 *   DFA <v0> ... <vN-1>
 *   MACRO <9*256 values>          state after DFA_TRANSITION(state, octet), state-major
 *   TABLEFN <9*256*4 values>      one call of _nvx_utf8vld_validate_table on the single octet from vld->state = s,
 *                                 current_index = 77, total_index = 1000: new state, return value + 1, current_index, total_index
 *   UNROLLEDFN <9*256*4 values>   same for _nvx_utf8vld_validate_unrolled
 */
#include UTF8_C_FILE
#include <stdio.h>

typedef int (*vfun)(void*, const uint8_t*, size_t);

static void sweep_fn(const char* tag, vfun f) {
   printf("%s", tag);
   for (int s = 0; s < 9; ++s) {
      for (int b = 0; b < 256; ++b) {
         utf8_validator_t* v = (utf8_validator_t*) nvx_utf8vld_new();
         uint8_t buf[16];
         buf[0] = (uint8_t) b;
         v->state = s;
         v->current_index = 77;      /* prior values, to see what a call leaves untouched */
         v->total_index = 1000;
         int r = f(v, buf, 1);
         printf(" %d %d %lu %lu", v->state, r + 1, (unsigned long) v->current_index, (unsigned long) v->total_index);
         nvx_utf8vld_free(v);
      }
   }
   printf("\n");
}

int main(void) {
   printf("CONST %d %d %lu %lu\n", (int) UTF8_ACCEPT, (int) UTF8_REJECT,
          (unsigned long) (sizeof(UTF8VALIDATOR_DFA) / sizeof(UTF8VALIDATOR_DFA[0])),
          (unsigned long) sizeof(UTF8VALIDATOR_DFA[0]));

   void* v = nvx_utf8vld_new();
   printf("IMPL %d", nvx_utf8vld_get_impl(v));
   for (int i = 1; i <= 4; ++i) {
      void* w = nvx_utf8vld_new();
      printf(" %d", nvx_utf8vld_set_impl(w, i));
      nvx_utf8vld_free(w);
   }
   printf("\n");
   nvx_utf8vld_free(v);

   printf("DFA");
   for (size_t i = 0; i < sizeof(UTF8VALIDATOR_DFA) / sizeof(UTF8VALIDATOR_DFA[0]); ++i) {
      printf(" %u", (unsigned) UTF8VALIDATOR_DFA[i]);
   }
   printf("\n");

   printf("MACRO");
   for (int s = 0; s < 9; ++s) {
      for (int b = 0; b < 256; ++b) {
         int state = s;
         int octet = b;
         DFA_TRANSITION(state, octet);
         printf(" %d", state);
      }
   }
   printf("\n");

   sweep_fn("TABLEFN", _nvx_utf8vld_validate_table);
   sweep_fn("UNROLLEDFN", _nvx_utf8vld_validate_unrolled);
   return 0;
}
