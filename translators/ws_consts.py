"""Translator: decision constants of the WebSocket receive path  ->  coq/Gen/WsConsts.v

Reads $AV_REPO/src/autobahn/websocket/protocol.py (AV_REPO defaults to /repo) in two ways:
  * by IMPORT: CLOSE_STATUS_CODES_ALLOWED, the CLOSE_STATUS_CODE_* values used by the failure paths, the STATE_* and
    MESSAGE_TYPE_* constants;
  * by AST: every integer comparison of the functions on the receive path (processData, onCloseFrame,
    processControlFrame, onMessageFrameBegin, sendMessage, sendPreparedMessage, sendPong, onFrameBegin/Data/End).  For each function the
    sequence of comparisons (operands with literals abstracted) must be exactly the expected one; operator and
    literals are emitted as a Coq boolean function.  Anything unrecognised -> TranslatorError (fail closed).

The generated file is what the Gallina model (coq/Model/WsRecv.v) uses for *every* threshold decision, so a changed
operator / literal / opcode list / close-code set changes the model and breaks the theorems that pin the RFC values.
"""
import ast
import os
import sys

def repo():
    return os.environ.get("AV_REPO", "/repo")      # tree under test (BUILDERS.md convention)


def source_path():
    return os.path.join(repo(), "src", "autobahn", "websocket", "protocol.py")


class TranslatorError(Exception):
    pass


def load_module():
    """import the protocol module of the tree under test ($AV_REPO/src is first on PYTHONPATH under ck.run_impl)"""
    src = os.path.join(repo(), "src")
    if src not in sys.path:
        sys.path.insert(0, src)
    import autobahn.websocket.protocol as P
    if os.path.realpath(P.__file__) != os.path.realpath(source_path()):
        raise TranslatorError(f"imported {P.__file__}, expected {source_path()}")
    return P


# ---- AST side -------------------------------------------------------------------------------------------------

def _operand(n):
    """render an operand: ('name', id) | ('int', v) | ('ints', [..]) | ('allowed',) | None (= not an integer comparison)"""
    if isinstance(n, ast.Name):
        return ("name", n.id)
    if isinstance(n, ast.Attribute) and isinstance(n.value, ast.Name) and n.value.id == "self":
        return ("name", "self_" + n.attr)
    if isinstance(n, ast.Attribute) and isinstance(n.value, ast.Attribute) and isinstance(n.value.value, ast.Name) \
            and n.value.value.id == "self" and n.value.attr == "current_frame":
        return ("name", "cur_" + n.attr)
    if isinstance(n, ast.Constant) and type(n.value) is int:
        return ("int", n.value)
    if isinstance(n, ast.List) and all(isinstance(e, ast.Constant) and type(e.value) is int for e in n.elts):
        return ("ints", [e.value for e in n.elts])
    if isinstance(n, ast.Attribute) and n.attr == "CLOSE_STATUS_CODES_ALLOWED":
        return ("allowed",)
    if isinstance(n, ast.Attribute) and isinstance(n.value, ast.Name) and n.value.id == "WebSocketProtocol" \
            and n.attr.startswith("MESSAGE_TYPE_"):
        return ("const", n.attr)
    return None


def _operand_state(n):
    """as _operand, and WebSocketProtocol.STATE_* as ('state', name): used for _send only (the write queue)"""
    if isinstance(n, ast.Attribute) and isinstance(n.value, ast.Name) and n.value.id == "WebSocketProtocol" \
            and n.attr.startswith("STATE_"):
        return ("state", n.attr)
    return _operand(n)


def compares(fn, operand=None):
    out = []
    _op = operand or _operand

    class V(ast.NodeVisitor):
        def visit_Compare(self, n):
            ops = [_op(x) for x in [n.left] + n.comparators]
            if all(o is not None for o in ops) and not any(isinstance(op, (ast.Is, ast.IsNot)) for op in n.ops):
                out.append((n.lineno, ops, [type(op).__name__ for op in n.ops], ast.unparse(n)))
            self.generic_visit(n)
    V().visit(fn)
    return out


def skeleton(ops):
    return tuple(o[1] if o[0] == "name" else ("S:" + o[1] if o[0] == "state" else
                                              {"int": "#", "ints": "[#]", "allowed": "ALLOWED", "const": "K"}[o[0]]) for o in ops)


# expected comparison skeletons, in source order, with the Coq name each one gets
EXPECTED = {
    "processData": [
        (("buffered_len", "#"), "pd_have2"),
        (("frame_rsv", "#"), "pd_rsv_nonzero"),
        (("frame_rsv", "#"), "pd_rsv_is4"),
        (("frame_opcode", "#"), "pd_is_ctl"),
        (("frame_payload_len1", "#"), "pd_ctl_len_bad"),
        (("frame_opcode", "[#]"), "pd_ctl_op_bad"),
        (("frame_opcode", "#"), "pd_is_close"),
        (("frame_payload_len1", "#"), "pd_len1_is1"),
        (("frame_rsv", "#"), "pd_rsv_is4_ctl"),
        (("frame_opcode", "[#]"), "pd_data_op_bad"),
        (("frame_opcode", "#"), "pd_op_is_cont"),
        (("frame_opcode", "#"), "pd_op_not_cont"),
        (("frame_rsv", "#"), "pd_rsv_is4_cont"),
        (("frame_payload_len1", "#"), "pd_len1_small"),
        (("frame_payload_len1", "#"), "pd_len1_is16"),
        (("frame_payload_len1", "#"), "pd_len1_is64"),
        (("buffered_len", "frame_header_len"), "pd_have_header"),
        (("frame_payload_len1", "#"), "pd_len1_is16_x"),
        (("frame_payload_len", "#"), "pd_len16_nonmin"),
        (("frame_payload_len1", "#"), "pd_len1_is64_x"),
        (("frame_payload_len", "#"), "pd_len64_huge"),
        (("frame_payload_len", "#"), "pd_len64_nonmin"),
        (("frame_payload_len", "#"), "pd_len_pos"),
        (("frame_payload_len", "#"), "pd_len_zero"),
        (("buffered_len", "rest"), "pd_have_rest"),
        (("length", "#"), "pd_chunk_nonempty"),
    ],
    "onCloseFrame": [
        (("code", "#"), "cf_code_low"),
        (("#", "code", "#"), "cf_code_mid"),
        (("code", "ALLOWED"), "cf_code_not_allowed"),
        (("code", "#"), "cf_code_high"),
        (("self_serverConnectionDropTimeout", "#"), None),
        (("self_websocket_version", "#"), None),
        (("self_serverConnectionDropTimeout", "#"), None),
    ],
    "processControlFrame": [
        (("cur_opcode", "#"), "pc_is_close"),
        (("ll", "#"), "pc_has_code"),
        (("ll", "#"), "pc_has_reason"),
        (("cur_opcode", "#"), "pc_is_ping"),
        (("cur_opcode", "#"), "pc_is_pong"),
        (("payload", "self_autoPingPending"), None),
    ],
    "onMessageFrameBegin": [
        (("#", "self_maxMessagePayloadSize", "self_message_data_total_length"), "mf_msg_limit"),
        (("#", "self_maxFramePayloadSize", "length"), "mf_frame_limit"),
    ],
    "onFrameBegin": [
        (("cur_opcode", "#"), "fb_is_ctl"),
        (("cur_rsv", "#"), "fb_rsv_is4"),
        (("cur_opcode", "K"), "fb_is_text"),
        (("cur_opcode", "K"), "fb_is_binary"),
    ],
    "onFrameData": [(("cur_opcode", "#"), "fd_is_ctl")],
    "onFrameEnd": [(("cur_opcode", "#"), "fe_is_ctl")],
    "sendPong": [(("l", "#"), "sp_too_long")],
    # the drain of the write queue (synchronous / chopped writes): a queued entry is written unless the connection is CLOSED
    "_send": [
        (("self_state", "S:STATE_CLOSED"), "sq_write"),
        (("self_state", "S:STATE_OPEN"), None),
        (("self_state", "S:STATE_CONNECTING"), None),
        (("self_state", "S:STATE_PROXY_CONNECTING"), None),
    ],
    "sendPreparedMessage": [(("#", "self_maxMessagePayloadSize", "payload_len"), "spm_limit")],
    "sendMessage": [
        (("#", "self_maxMessagePayloadSize", "payload_len"), "sm_limit"),
        (("self_autoFragmentSize", "#"), None),
        (("pfs", "#"), None),
        (("j", "n"), None),
    ],
}

OPS = {"Lt": "N.ltb {a} {b}", "LtE": "N.leb {a} {b}", "Gt": "N.ltb {b} {a}", "GtE": "N.leb {b} {a}",
       "Eq": "N.eqb {a} {b}", "NotEq": "negb (N.eqb {a} {b})"}


def coq_operand(o, consts):
    if o[0] == "name":
        return o[1]
    if o[0] == "int":
        if o[1] < 0:
            raise TranslatorError(f"negative literal {o[1]}")
        return str(o[1])
    if o[0] == "const":
        return str(consts[o[1]])
    if o[0] == "state":
        return "state_" + o[1][len("STATE_"):].lower()
    raise TranslatorError(f"operand {o}")


def coq_compare(ops, opnames, consts):
    params = []
    for o in ops:
        if o[0] == "name" and o[1] not in params:
            params.append(o[1])
    terms = []
    for i, op in enumerate(opnames):
        a, b = ops[i], ops[i + 1]
        if op in ("NotIn", "In"):
            if b[0] == "ints":
                lst = "[" + "; ".join(str(v) for v in b[1]) + "]"
            elif b[0] == "allowed":
                lst = "close_codes_allowed"
            else:
                raise TranslatorError(f"membership in {b}")
            t = f"existsb (N.eqb {coq_operand(a, consts)}) {lst}"
            terms.append(f"negb ({t})" if op == "NotIn" else t)
        elif op in OPS:
            terms.append("(" + OPS[op].format(a=coq_operand(a, consts), b=coq_operand(b, consts)) + ")")
        else:
            raise TranslatorError(f"operator {op}")
    return params, " && ".join(terms)


def generate(path=None):
    path = path or source_path()
    src = open(path).read()
    tree = ast.parse(src)
    cls = [c for c in tree.body if isinstance(c, ast.ClassDef) and c.name == "WebSocketProtocol"]
    if len(cls) != 1:
        raise TranslatorError("class WebSocketProtocol not found exactly once")
    fns = {f.name: f for f in cls[0].body if isinstance(f, ast.FunctionDef)}
    P = load_module()
    W = P.WebSocketProtocol
    consts = {"MESSAGE_TYPE_TEXT": W.MESSAGE_TYPE_TEXT, "MESSAGE_TYPE_BINARY": W.MESSAGE_TYPE_BINARY}
    allowed = list(W.CLOSE_STATUS_CODES_ALLOWED)
    if not allowed or not all(type(c) is int and 0 <= c < 65536 for c in allowed):
        raise TranslatorError(f"CLOSE_STATUS_CODES_ALLOWED unrecognised: {allowed!r}")
    states = dict(CLOSED=W.STATE_CLOSED, CONNECTING=W.STATE_CONNECTING, CLOSING=W.STATE_CLOSING, OPEN=W.STATE_OPEN,
                  PROXY_CONNECTING=W.STATE_PROXY_CONNECTING)
    if len(set(states.values())) != 5:
        raise TranslatorError(f"protocol states not distinct: {states}")
    out = ["(* GENERATED by translators/ws_consts.py from " + path + " -- do not edit, never committed *)",
           "From Coq Require Import NArith List Bool.", "Import ListNotations.", "Open Scope N_scope.", "",
           "(* WebSocketProtocol.CLOSE_STATUS_CODES_ALLOWED (by import) *)",
           "Definition close_codes_allowed : list N := [" + "; ".join(str(c) for c in allowed) + "].", "",
           "(* close status codes used by the failure paths (by import) *)",
           f"Definition code_protocol_error : N := {W.CLOSE_STATUS_CODE_PROTOCOL_ERROR}.",
           f"Definition code_invalid_payload : N := {W.CLOSE_STATUS_CODE_INVALID_PAYLOAD}.",
           f"Definition code_message_too_big : N := {W.CLOSE_STATUS_CODE_MESSAGE_TOO_BIG}.",
           f"Definition code_normal : N := {W.CLOSE_STATUS_CODE_NORMAL}.",
           f"Definition code_abnormal : N := {W.CLOSE_STATUS_CODE_ABNORMAL_CLOSE}.", "",
           "(* WebSocketProtocol.STATE_* (by import; pairwise distinct) *)"] + \
          [f"Definition state_{k.lower()} : N := {v}." for k, v in states.items()] + [""]
    if not all(type(v) is int and v >= 0 for v in states.values()):
        raise TranslatorError(f"protocol states are not naturals: {states}")
    for fname, expected in EXPECTED.items():
        if fname not in fns:
            raise TranslatorError(f"function {fname} not found")
        got = compares(fns[fname], _operand_state if fname == "_send" else None)
        if [skeleton(g[1]) for g in got] != [e[0] for e in expected]:
            raise TranslatorError(f"{fname}: comparison structure changed:\n  got      {[skeleton(g[1]) for g in got]}\n  expected {[e[0] for e in expected]}")
        out.append(f"(* ---- {fname} ---- *)")
        for (lineno, ops, opnames, text), (_, name) in zip(got, expected):
            if name is None:
                continue
            params, body = coq_compare(ops, opnames, consts)
            ps = " ".join(f"({p} : N)" for p in params)
            out.append(f"Definition {name} {ps} : bool := {body}.   (* {text} *)")
        out.append("")
    # _max_message_size_exceeded -> _fail_connection(CLOSE_STATUS_CODE_MESSAGE_TOO_BIG ...), _protocol_violation -> PROTOCOL_ERROR,
    # _invalid_payload -> INVALID_PAYLOAD: check the attribute names used
    for fname, attr in (("_max_message_size_exceeded", "CLOSE_STATUS_CODE_MESSAGE_TOO_BIG"),
                        ("_protocol_violation", "CLOSE_STATUS_CODE_PROTOCOL_ERROR"),
                        ("_invalid_payload", "CLOSE_STATUS_CODE_INVALID_PAYLOAD")):
        if fname not in fns:
            raise TranslatorError(f"function {fname} not found")
        used = [n.attr for n in ast.walk(fns[fname]) if isinstance(n, ast.Attribute) and n.attr.startswith("CLOSE_STATUS_CODE_")]
        if used != [attr]:
            raise TranslatorError(f"{fname}: expected to use {attr} only, found {used}")
    return "\n".join(out) + "\n"


if __name__ == "__main__":
    if len(sys.argv) >= 3:           # run through vlib.Check.run_impl: JSON in (ignored) / JSON out
        import json
        try:
            res = {"text": generate(), "source": source_path()}
        except TranslatorError as e:
            res = {"error": str(e), "source": source_path()}
        json.dump(res, open(sys.argv[2], "w"))
    else:
        sys.stdout.write(generate())
