"""Translator: WAMP message type codes  ->  coq/Gen/WampTypeCodes.v

Reads by IMPORT (values, not layout) from $AV_REPO/src/autobahn/wamp (AV_REPO = tree under test, default /repo):
  * message.py : MESSAGE_TYPE of every Message subclass that declares one,
  * serializer.py : Serializer.MESSAGE_TYPE_MAP (code -> class), which is what the receive path dispatches on,
  * util.py : the wrap-around bound of IdGenerator (read from its source with ast: the single integer literal
    compared against self._next in IdGenerator.next).
Run with /venv/bin/python and PYTHONPATH=$AV_REPO/src (vlib.impl_env() arranges that); prints the .v text on stdout.

Fail closed (TranslatorError) when: a class named below is missing, a MESSAGE_TYPE is not an int, two classes share a
code, MESSAGE_TYPE_MAP disagrees with the classes' own MESSAGE_TYPE, or IdGenerator.next no longer has the shape
"self._next += 1; if self._next > <int>: self._next = <int>; return self._next".

The Gallina session model (coq/Model/Session.v) uses these constants for the ERROR dispatch (request_type ==
message.Call.MESSAGE_TYPE ...) and for the id generator, so a changed code / bound changes the model; the lemma
[kind_code_inj] and the C04_ids theorems are then re-checked against what the code says now.
"""
import ast
import inspect
import os
import re
import sys

sys.modules.setdefault("bjdata", None)   # broken UBJSON backend in this sandbox: treat as not installed


class TranslatorError(Exception):
    pass


# classes the session model refers to by name (T_<UPPER>); every other class with a MESSAGE_TYPE is emitted too
REQUIRED = ["Hello", "Welcome", "Abort", "Challenge", "Authenticate", "Goodbye", "Error", "Publish", "Published",
            "Subscribe", "Subscribed", "Unsubscribe", "Unsubscribed", "Event", "Call", "Cancel", "Result", "Register",
            "Registered", "Unregister", "Unregistered", "Invocation", "Interrupt", "Yield"]


def upper(name):
    return re.sub(r"(?<!^)(?=[A-Z])", "_", name).upper()


def tree_check():
    """the autobahn package that gets imported must be the tree under test"""
    import autobahn
    want = os.path.realpath(os.path.join(os.environ.get("AV_REPO", "/repo"), "src", "autobahn"))
    got = os.path.realpath(os.path.dirname(autobahn.__file__))
    if got != want:
        raise TranslatorError(f"autobahn imported from {got}, expected the tree under test {want}")


def message_codes():
    from autobahn.wamp import message
    from autobahn.wamp.serializer import Serializer
    found = {}
    for name, cls in sorted(vars(message).items()):
        if inspect.isclass(cls) and issubclass(cls, message.Message) and cls is not message.Message \
                and "MESSAGE_TYPE" in vars(cls):
            code = vars(cls)["MESSAGE_TYPE"]
            if type(code) is not int or code < 0:
                raise TranslatorError(f"{name}.MESSAGE_TYPE is {code!r}, expected a non-negative int")
            found[name] = code
    for r in REQUIRED:
        if r not in found:
            raise TranslatorError(f"message class {r} with a MESSAGE_TYPE not found")
    inv = {}
    for n, c in found.items():
        if c in inv:
            raise TranslatorError(f"classes {inv[c]} and {n} share MESSAGE_TYPE {c}")
        inv[c] = n
    mp = Serializer.MESSAGE_TYPE_MAP
    for code, cls in mp.items():
        if found.get(cls.__name__) != code:
            raise TranslatorError(f"Serializer.MESSAGE_TYPE_MAP[{code}] = {cls.__name__} disagrees with its MESSAGE_TYPE")
    for n, c in found.items():
        if c not in mp:
            raise TranslatorError(f"{n} (code {c}) missing from Serializer.MESSAGE_TYPE_MAP")
    return found


def idgen_bounds():
    """(initial value of _next, wrap bound, value after wrap) read from util.IdGenerator's source"""
    from autobahn import util
    src = inspect.getsource(util.IdGenerator)
    tree = ast.parse(src)
    cls = tree.body[0]
    fns = {f.name: f for f in cls.body if isinstance(f, ast.FunctionDef)}
    if "__init__" not in fns or "next" not in fns:
        raise TranslatorError("IdGenerator: __init__/next not found")

    def strip_doc(body):
        return [s for s in body if not (isinstance(s, ast.Expr) and isinstance(s.value, ast.Constant)
                                        and isinstance(s.value.value, str))]
    init = strip_doc(fns["__init__"].body)
    if not (len(init) == 1 and ast.unparse(init[0]).startswith("self._next = ") and isinstance(init[0].value, ast.Constant)
            and type(init[0].value.value) is int):
        raise TranslatorError("IdGenerator.__init__: expected 'self._next = <int>'")
    start = init[0].value.value
    body = strip_doc(fns["next"].body)
    if len(body) != 3:
        raise TranslatorError("IdGenerator.next: expected three statements")
    if ast.unparse(body[0]) != "self._next += 1":
        raise TranslatorError("IdGenerator.next: first statement is not 'self._next += 1'")
    m = re.fullmatch(r"if self\._next > (\d+):\n\s+self\._next = (\d+)", ast.unparse(body[1]))
    if not m:
        raise TranslatorError("IdGenerator.next: unrecognised wrap statement: " + ast.unparse(body[1]))
    if ast.unparse(body[2]) != "return self._next":
        raise TranslatorError("IdGenerator.next: unrecognised return")
    return start, int(m.group(1)), int(m.group(2))


def render():
    tree_check()
    codes = message_codes()
    start, bound, wrap = idgen_bounds()
    out = ["(* GENERATED by translators/wamp_types.py from <tree under test>/src/autobahn/wamp/message.py, serializer.py,",
           "   ../util.py (by import).",
           "   Never edit; never commit. *)",
           "From Coq Require Import NArith List.", "Import ListNotations.", "Open Scope N_scope.", ""]
    for n, c in sorted(codes.items(), key=lambda kv: kv[1]):
        out.append(f"Definition T_{upper(n)} : N := {c}.")
    out.append("")
    out.append("Definition all_type_codes : list N := [" + "; ".join(
        f"T_{upper(n)}" for n, c in sorted(codes.items(), key=lambda kv: kv[1])) + "].")
    out.append("")
    out.append("(* util.IdGenerator: self._next = IDGEN_START; next(): _next += 1; if _next > IDGEN_BOUND: _next = IDGEN_WRAP *)")
    out.append(f"Definition IDGEN_START : N := {start}.")
    out.append(f"Definition IDGEN_BOUND : N := {bound}.")
    out.append(f"Definition IDGEN_WRAP : N := {wrap}.")
    return "\n".join(out) + "\n"


if __name__ == "__main__":
    try:
        sys.stdout.write(render())
    except TranslatorError as e:
        sys.stderr.write(f"TranslatorError: {e}\n")
        sys.exit(3)
