"""translators/schema_shape.py  ->  coq/Gen/WampShape.v   (regenerated on every run; never committed)

Reads (never imports) $AV_REPO/src/autobahn/wamp/{message,serializer,role}.py with `ast` and emits, per
message class of Serializer.MESSAGE_TYPE_MAP:
  MESSAGE_TYPE, the admissible len(wmsg), the keys parse() looks up in options/details (first-use order),
  the keys marshal() writes into options/details with the attribute they take the value from and the
  chain of `if` guards around the write, and whether marshal() merges self.custom.
Plus the constants the model depends on: the id bound of check_or_raise_id, the standard enc_algo /
enc_serializer identifiers, ERROR's admissible request types, role names and feature lists, the
MESSAGE_TYPE_MAP itself and the BINARY flags of the object serializers.

Fail closed: any statement / expression shape not listed here raises ShapeError (the caller turns that
into a broken proof obligation).
"""
import ast
import os
import sys

DICTS = ("options", "details")


class ShapeError(Exception):
    pass


def fail(cls, node, what):
    raise ShapeError(f"{cls}: line {getattr(node, 'lineno', '?')}: unrecognised shape: {what}: "
                     f"{ast.unparse(node)[:120] if isinstance(node, ast.AST) else node}")


def is_self_attr(n):
    return isinstance(n, ast.Attribute) and isinstance(n.value, ast.Name) and n.value.id == "self"


def const_str(n):
    return isinstance(n, ast.Constant) and isinstance(n.value, str)


# ---------------------------------------------------------------- guards
def atom(cls, t):
    if is_self_attr(t):
        return ("GTruthy", t.attr)
    if (isinstance(t, ast.Compare) and len(t.ops) == 1 and isinstance(t.ops[0], ast.IsNot)
            and is_self_attr(t.left) and isinstance(t.comparators[0], ast.Constant) and t.comparators[0].value is None):
        return ("GNotNone", t.left.attr)
    if isinstance(t, ast.BoolOp) and isinstance(t.op, ast.And) and len(t.values) == 2:
        a, b = t.values
        if (is_self_attr(a) and isinstance(b, ast.Compare) and len(b.ops) == 1 and isinstance(b.ops[0], ast.NotEq)
                and is_self_attr(b.left) and b.left.attr == a.attr and isinstance(b.comparators[0], ast.Attribute)
                and isinstance(b.comparators[0].value, ast.Name) and b.comparators[0].value.id == cls):
            return ("GNeqDef", a.attr)
    if isinstance(t, ast.BoolOp) and isinstance(t.op, ast.Or):
        return ("GOr", [atom(cls, v) for v in t.values])
    fail(cls, t, "guard expression")


# ---------------------------------------------------------------- marshal
class Marshal:
    def __init__(self, cls, cdef):
        self.cls, self.cdef = cls, cdef
        self.entries = []          # (key, attr, guards)
        self.custom = False
        self.ret_lens = set()

    def value_attr(self, v):
        if is_self_attr(v):
            return v.attr
        if isinstance(v, ast.Dict) and not v.keys:
            return ""
        fail(self.cls, v, "value written into options/details")

    def method(self, name):
        for m in self.cdef.body:
            if isinstance(m, ast.FunctionDef) and m.name == name:
                return m
        fail(self.cls, self.cdef, f"no method {name}")

    def body_of(self, fn):
        b = fn.body
        if b and isinstance(b[0], ast.Expr) and isinstance(b[0].value, ast.Constant) and isinstance(b[0].value.value, str):
            b = b[1:]
        return b

    def stmts(self, body, guards, in_options_method=False):
        for st in body:
            if isinstance(st, ast.Assign) and len(st.targets) == 1:
                t, v = st.targets[0], st.value
                if isinstance(t, ast.Name) and t.id in DICTS:
                    if isinstance(v, ast.Dict):
                        for k, kv in zip(v.keys, v.values):
                            if not const_str(k):
                                fail(self.cls, st, "dict literal key")
                            self.add(k.value, self.value_attr(kv), guards, st)
                    elif (isinstance(v, ast.Call) and is_self_attr(v.func) and v.func.attr == "marshal_options"
                          and not v.args and not v.keywords):
                        fn = self.method("marshal_options")
                        self.stmts(self.body_of(fn), guards, in_options_method=True)
                    else:
                        fail(self.cls, st, "assignment to options/details")
                elif isinstance(t, ast.Subscript) and isinstance(t.value, ast.Name) and t.value.id in DICTS:
                    if not const_str(t.slice):
                        fail(self.cls, st, "non-constant key")
                    self.add(t.slice.value, self.value_attr(v), guards, st)
                elif isinstance(t, ast.Name) and t.id == "payload":
                    # payload = bytes(self.payload) if isinstance(self.payload, memoryview) else self.payload
                    if not (isinstance(v, ast.IfExp) and is_self_attr(v.orelse) and v.orelse.attr == "payload"):
                        fail(self.cls, st, "payload assignment")
                else:
                    fail(self.cls, st, "assignment")
            elif isinstance(st, ast.If):
                a = atom(self.cls, st.test)
                self.stmts(st.body, None if guards is None else guards + [a], in_options_method)
                self.stmts(st.orelse, None, in_options_method)       # no key may be written in an else/elif branch
            elif isinstance(st, ast.Return):
                if in_options_method:
                    if not (isinstance(st.value, ast.Name) and st.value.id == "options"):
                        fail(self.cls, st, "return of marshal_options")
                    continue
                if not isinstance(st.value, ast.List) or not st.value.elts:
                    fail(self.cls, st, "return value")
                h = st.value.elts[0]
                if not (isinstance(h, ast.Attribute) and h.attr == "MESSAGE_TYPE" and isinstance(h.value, ast.Name)
                        and h.value.id in (self.cls, "self")):
                    fail(self.cls, st, "first element of the marshalled list")
                self.ret_lens.add(len(st.value.elts))
                for e in st.value.elts[1:]:
                    if isinstance(e, ast.Call):
                        # return [T, self.request, self.marshal_options(), self.topic]   (Subscribe, Register)
                        if not (is_self_attr(e.func) and e.func.attr == "marshal_options" and not e.args and not e.keywords):
                            fail(self.cls, e, "call inside the marshalled list")
                        if guards is None:
                            fail(self.cls, e, "marshal_options() in an else branch")
                        self.stmts(self.body_of(self.method("marshal_options")), guards, in_options_method=True)
                    elif not (is_self_attr(e) or (isinstance(e, ast.Name) and e.id in DICTS + ("payload",))):
                        fail(self.cls, e, "element of the marshalled list")
            elif isinstance(st, ast.For):
                # for role in self.roles.values(): details["roles"][role.ROLE] = ...   (Hello / Welcome)
                it = st.iter
                ok = (isinstance(it, ast.Call) and isinstance(it.func, ast.Attribute) and it.func.attr == "values"
                      and is_self_attr(it.func.value) and it.func.value.attr == "roles")
                if not ok or guards is None:
                    fail(self.cls, st, "for loop")
                for n in ast.walk(st):
                    if isinstance(n, ast.Assign):
                        tt = n.targets[0]
                        # only details["roles"][...] (= ...) may be written inside the loop
                        base = tt
                        depth = 0
                        while isinstance(base, ast.Subscript):
                            base, depth = base.value, depth + 1
                        if not (isinstance(base, ast.Name) and base.id == "details" and depth >= 2
                                and "details['roles']" in ast.unparse(tt)):
                            fail(self.cls, n, "assignment inside the roles loop")
            elif (isinstance(st, ast.Expr) and isinstance(st.value, ast.Call)
                  and ast.unparse(st.value) == "details.update(self.custom)"):
                if guards != []:
                    fail(self.cls, st, "guarded details.update(self.custom)")
                self.custom = True
            else:
                fail(self.cls, st, "statement in marshal")

    def add(self, key, attr, guards, node):
        if guards is None:
            fail(self.cls, node, "key written in an else/elif branch")
        if any(e[0] == key for e in self.entries):
            fail(self.cls, node, f"key {key!r} written twice")
        self.entries.append((key, attr, list(guards)))

    def run(self):
        fn = self.method("marshal")
        self.stmts(self.body_of(fn), [])
        return self


# ---------------------------------------------------------------- parse
def parse_shape(cls, fn):
    parents = {}
    for p in ast.walk(fn):
        for c in ast.iter_child_nodes(p):
            parents[c] = p
    lens = None
    keys = []          # (pos, key)
    subs = []
    for n in ast.walk(fn):
        # the length check
        if isinstance(n, ast.If) and isinstance(n.test, ast.Compare) and ast.unparse(n.test.left) == "len(wmsg)" \
                and isinstance(n.test.ops[0], (ast.NotEq, ast.NotIn)) and len(n.body) == 1 and isinstance(n.body[0], ast.Raise):
            c = n.test.comparators[0]
            if isinstance(n.test.ops[0], ast.NotEq) and isinstance(c, ast.Constant) and isinstance(c.value, int):
                got = [c.value]
            elif isinstance(n.test.ops[0], ast.NotIn) and isinstance(c, (ast.Tuple, ast.List)) and all(
                    isinstance(e, ast.Constant) and isinstance(e.value, int) for e in c.elts):
                got = [e.value for e in c.elts]
            else:
                fail(cls, n, "length check")
            if "ProtocolError" not in ast.unparse(n.body[0]):
                fail(cls, n, "length check does not raise ProtocolError")
            if lens is not None:
                fail(cls, n, "second length check")
            lens = got
        if isinstance(n, ast.Name) and n.id in DICTS:
            p = parents[n]
            pos = (n.lineno, n.col_offset)
            if isinstance(p, ast.Compare) and len(p.ops) == 1 and isinstance(p.ops[0], (ast.In, ast.NotIn)) \
                    and p.comparators[0] is n and const_str(p.left):
                keys.append(((p.left.lineno, p.left.col_offset), p.left.value))
            elif isinstance(p, ast.Attribute) and p.attr == "get" and isinstance(parents[p], ast.Call):
                call = parents[p]
                if not (len(call.args) == 2 and const_str(call.args[0]) and isinstance(call.args[1], ast.Constant)
                        and call.args[1].value is None and not call.keywords):
                    fail(cls, call, ".get() form")
                keys.append((pos, call.args[0].value))
            elif isinstance(p, ast.Subscript) and p.value is n and isinstance(p.ctx, ast.Load):
                if const_str(p.slice):
                    subs.append(p.slice.value)
                elif isinstance(p.slice, ast.Name) and p.slice.id == "k":
                    pass                                   # Welcome: custom[k] = details[k]
                else:
                    fail(cls, p, "subscript of options/details")
            elif isinstance(p, ast.For) and p.iter is n:
                pass                                       # Welcome: for k in details
            elif isinstance(p, ast.Assign) and n in p.targets:
                v = p.value
                if not ((isinstance(v, ast.Call) and isinstance(v.func, ast.Name) and v.func.id == "check_or_raise_extra")
                        or (isinstance(v, ast.Constant) and v.value is None)):
                    fail(cls, p, "assignment to options/details in parse")
            elif isinstance(p, ast.BoolOp) and isinstance(p.op, ast.And):
                pass                                       # `if options and "forward_for" in options`
            else:
                fail(cls, p, f"use of {n.id} in parse")
    if lens is None:
        fail(cls, fn, "no length check")
    ordered = []
    for _, k in sorted(keys):
        if k not in ordered:
            ordered.append(k)
    for k in subs:
        if k not in ordered:
            fail(cls, fn, f"options/details[{k!r}] read without a membership test")
    idx = [int(ast.unparse(n.slice)) for n in ast.walk(fn) if isinstance(n, ast.Subscript)
           and isinstance(n.value, ast.Name) and n.value.id == "wmsg" and isinstance(n.slice, ast.Constant)]
    if idx and max(idx) + 1 != max(lens):
        fail(cls, fn, f"highest wmsg index {max(idx)} vs admissible lengths {lens}")
    return sorted(lens), ordered


# ---------------------------------------------------------------- Coq printing
def cs(s):
    assert '"' not in s and all(32 <= ord(c) < 127 for c in s), s
    return '"' + s + '"'


def clist(xs):
    return "[" + "; ".join(xs) + "]"


def catom(a):
    if a[0] == "GOr":
        return "GOr " + clist(catom(x) for x in a[1])
    return f"{a[0]} {cs(a[1])}"


def class_consts(cdef):
    out = {}
    for m in cdef.body:
        if isinstance(m, ast.Assign) and len(m.targets) == 1 and isinstance(m.targets[0], ast.Name) \
                and isinstance(m.value, ast.Constant):
            out[m.targets[0].id] = m.value.value
    return out


def generate(repo):
    wamp = os.path.join(repo, "src", "autobahn", "wamp")
    mt = ast.parse(open(os.path.join(wamp, "message.py")).read())
    st = ast.parse(open(os.path.join(wamp, "serializer.py")).read())
    rt = ast.parse(open(os.path.join(wamp, "role.py")).read())
    classes = {n.name: n for n in mt.body if isinstance(n, ast.ClassDef)}
    consts = {name: class_consts(c) for name, c in classes.items()}

    # Serializer.MESSAGE_TYPE_MAP
    tmap = None
    ser_cls = next(n for n in st.body if isinstance(n, ast.ClassDef) and n.name == "Serializer")
    for n in ser_cls.body:
        if isinstance(n, ast.Assign) and ast.unparse(n.targets[0]) == "MESSAGE_TYPE_MAP":
            if not isinstance(n.value, ast.Dict):
                fail("Serializer", n, "MESSAGE_TYPE_MAP")
            tmap = []
            for k, v in zip(n.value.keys, n.value.values):
                ks, vs = ast.unparse(k), ast.unparse(v)
                if not (ks.startswith("message.") and ks.endswith(".MESSAGE_TYPE") and vs == ks[:-len(".MESSAGE_TYPE")]):
                    fail("Serializer", k, "MESSAGE_TYPE_MAP entry")
                tmap.append(vs[len("message."):])
    if not tmap:
        raise ShapeError("MESSAGE_TYPE_MAP not found")

    shapes = []
    for name in tmap:
        if name not in classes:
            raise ShapeError(f"class {name} not in message.py")
        cdef = classes[name]
        mtype = consts[name].get("MESSAGE_TYPE")
        if not isinstance(mtype, int):
            fail(name, cdef, "MESSAGE_TYPE")
        pfn = next((m for m in cdef.body if isinstance(m, ast.FunctionDef) and m.name == "parse"), None)
        if pfn is None:
            fail(name, cdef, "no parse")
        lens, pkeys = parse_shape(name, pfn)
        ms = Marshal(name, cdef).run()
        if not ms.ret_lens <= set(lens):
            fail(name, cdef, f"marshal returns lists of length {sorted(ms.ret_lens)}, parse admits {lens}")
        order = {k: i for i, k in enumerate(pkeys)}
        ent = sorted(ms.entries, key=lambda e: (order.get(e[0], len(order)),))
        attr_order = {a: order.get(k, len(order)) for k, a, _ in ent}

        def canon(g):     # `a or b`: operands in parse order (the operands are side-effect free attribute tests)
            if g[0] == "GOr":
                return ("GOr", sorted((canon(x) for x in g[1]), key=lambda x: (attr_order.get(x[1], 999) if x[0] != "GOr" else 999, str(x))))
            return g
        ent = [(k, a, [canon(g) for g in gs]) for k, a, gs in ent]
        shapes.append((name, mtype, lens, pkeys, ent, ms.custom))

    # check_or_raise_id bound
    idfn = next(n for n in mt.body if isinstance(n, ast.FunctionDef) and n.name == "check_or_raise_id")
    bounds = [c for c in ast.walk(idfn) if isinstance(c, ast.BoolOp) and isinstance(c.op, ast.Or)]
    if len(bounds) != 1 or not ast.unparse(bounds[0]).startswith("value < 0 or value > "):
        fail("check_or_raise_id", idfn, "range test")
    id_max = int(ast.unparse(bounds[0]).split(">")[1])

    def module_list(tree, name, env):
        for n in tree.body:
            if isinstance(n, ast.Assign) and ast.unparse(n.targets[0]) == name and isinstance(n.value, ast.List):
                out = []
                for e in n.value.elts:
                    if const_str(e):
                        out.append(e.value)
                    elif isinstance(e, ast.Name) and e.id in env:
                        out.append(env[e.id])
                    else:
                        fail(name, e, "list element")
                return out
        raise ShapeError(f"{name} not found")
    menv = {n.targets[0].id: n.value.value for n in mt.body if isinstance(n, ast.Assign)
            and isinstance(n.targets[0], ast.Name) and isinstance(n.value, ast.Constant)}
    enc_algos = module_list(mt, "PAYLOAD_ENC_STANDARD_IDENTIFIERS", menv)
    enc_sers = module_list(mt, "PAYLOAD_ENC_STANDARD_SERIALIZERS", menv)

    # Error.parse: request_type not in [X.MESSAGE_TYPE, ...]
    efn = next(m for m in classes["Error"].body if isinstance(m, ast.FunctionDef) and m.name == "parse")
    rts = None
    for n in ast.walk(efn):
        if isinstance(n, ast.Compare) and ast.unparse(n.left) == "request_type" and isinstance(n.ops[0], ast.NotIn):
            rts = []
            for e in n.comparators[0].elts:
                cn = ast.unparse(e)
                if not cn.endswith(".MESSAGE_TYPE"):
                    fail("Error", e, "request type list")
                rts.append(consts[cn.split(".")[0]]["MESSAGE_TYPE"])
    if rts is None:
        raise ShapeError("Error.parse request_type list not found")

    # roles: names admitted by Hello/Welcome.parse, features = keyword parameters of the role classes
    rclasses = {n.name: n for n in rt.body if isinstance(n, ast.ClassDef)}
    rmap = None
    for n in rt.body:
        if isinstance(n, ast.Assign) and ast.unparse(n.targets[0]) == "ROLE_NAME_TO_CLASS":
            rmap = {k.value: v.id for k, v in zip(n.value.keys, n.value.values)}
    if rmap is None:
        raise ShapeError("ROLE_NAME_TO_CLASS not found")

    def feats(role):
        c = rclasses[rmap[role]]
        if class_consts(c).get("ROLE") != role:
            fail(role, c, "ROLE constant")
        init = next(m for m in c.body if isinstance(m, ast.FunctionDef) and m.name == "__init__")
        a = init.args
        if a.posonlyargs or a.kwonlyargs or a.vararg or a.kwarg is None or a.args[0].arg != "self":
            fail(role, init, "signature")
        names = [x.arg for x in a.args[1:]]
        assigned = [s.targets[0].attr for s in init.body if isinstance(s, ast.Assign) and is_self_attr(s.targets[0])]
        if assigned != names or "_check_all_bool" not in ast.unparse(init.body[-1]):
            fail(role, init, "body")
        return names

    def role_names(cls):
        fn = next(m for m in classes[cls].body if isinstance(m, ast.FunctionDef) and m.name == "parse")
        for n in ast.walk(fn):
            if isinstance(n, ast.Compare) and ast.unparse(n.left) == "role" and isinstance(n.ops[0], ast.NotIn):
                return [e.value for e in n.comparators[0].elts]
        raise ShapeError(f"{cls}.parse: role list not found")
    hello_roles = [(r, feats(r)) for r in role_names("Hello")]
    welcome_roles = [(r, feats(r)) for r in role_names("Welcome")]

    # object serializer BINARY flags
    flags = []
    for n in ast.walk(st):
        if isinstance(n, ast.ClassDef) and n.name.endswith("ObjectSerializer"):
            c = class_consts(n)
            if not isinstance(c.get("NAME"), str) or not isinstance(c.get("BINARY"), bool):
                fail(n.name, n, "NAME/BINARY")
            flags.append((c["NAME"], c["BINARY"]))

    o = ["(* GENERATED by translators/schema_shape.py from " + wamp + " -- do not edit, never committed *)",
         "From Coq Require Import ZArith List String.",
         "From AV Require Import Model.WampValue Model.WampSchema.",
         "Import ListNotations.", "Open Scope string_scope.", "",
         "Definition gen_shapes : list shape := ["]
    rows = []
    for name, mtype, lens, pkeys, ent, custom in shapes:
        rows.append(
            "  {| sh_name := %s; sh_type := %d%%Z; sh_lens := %s;\n     sh_parse_keys := %s;\n     sh_marshal := %s;\n     sh_custom := %s |}" % (
                cs(name), mtype, clist(f"{x}%nat" for x in lens), clist(cs(k) for k in pkeys),
                clist("(%s, %s, %s)" % (cs(k), cs(a), clist(catom(g) for g in gs)) for k, a, gs in ent),
                "true" if custom else "false"))
    o.append(";\n".join(rows))
    o.append("].")
    o.append(f"Definition gen_id_max : Z := {id_max}%Z.")
    o.append("Definition gen_enc_algos : list string := " + clist(cs(x) for x in enc_algos) + ".")
    o.append("Definition gen_enc_sers : list string := " + clist(cs(x) for x in enc_sers) + ".")
    o.append("Definition gen_error_request_types : list Z := " + clist(f"{x}%Z" for x in rts) + ".")
    for nm, rl in (("gen_hello_roles", hello_roles), ("gen_welcome_roles", welcome_roles)):
        o.append(f"Definition {nm} : list (string * list string) := " +
                 clist("(%s, %s)" % (cs(r), clist(cs(f) for f in fs)) for r, fs in rl) + ".")
    o.append("Definition gen_type_map : list (Z * string) := " +
             clist("(%d%%Z, %s)" % (s[1], cs(s[0])) for s in shapes) + ".")
    o.append("Definition gen_binary_flags : list (string * bool) := " +
             clist("(%s, %s)" % (cs(n), "true" if b else "false") for n, b in flags) + ".")
    return "\n".join(o) + "\n"


def role_tables(repo):
    """(hello_roles, welcome_roles) as read from role.py / message.py: [(role name, [feature, ...]), ...]; fail closed"""
    text = generate(repo)
    import re
    out = []
    for nm in ("gen_hello_roles", "gen_welcome_roles"):
        m = re.search(r"Definition %s : list \(string \* list string\) := (.*)\.\n" % nm, text)
        if not m:
            raise ShapeError(nm + " not generated")
        body = m.group(1)
        out.append([(r, re.findall(r'"([^"]*)"', fs)) for r, fs in re.findall(r'\("([^"]*)", \[([^\]]*)\]\)', body)])
    return out[0], out[1]


if __name__ == "__main__":
    repo = os.environ.get("AV_REPO", "/repo")
    text = generate(repo)
    out = sys.argv[1] if len(sys.argv) > 1 else None
    if out:
        open(out, "w").write(text)
    else:
        sys.stdout.write(text)
