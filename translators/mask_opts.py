"""Translator: how the masking options travel from the factories to a connection -> coq/Gen/MaskOpts.v

The four masking options (applyMask, maskClientFrames, maskServerFrames, requireMaskedClientFrames) are booleans and
setProtocolOptions() treats each keyword independently, so the whole plumbing is a FINITE function; it is read off the
real classes of the tree under test by evaluation (import, no source layout involved):

  defaults     : value of each masking option on a fresh factory of each role
  set table    : for every masking option m of the role, every prior value (True/False) and every argument
                 (absent=None / True / False): the value of m after factory.setProtocolOptions(m=arg)
  neutrality   : calling setProtocolOptions() with no argument, with each single OTHER keyword, and with all other
                 keywords at once leaves every masking option as it was (for both prior values)
  copy         : a connection built afterwards reads exactly the factory's values

Fails closed: a value that is not a bool (e.g. None leaking into an option), an unexpected signature, or an exception
raises; the caller then counts C15's proof obligations as broken.

Usage: through vlib.Check.run_impl (argv[1] json in, ignored; argv[2] json out {"coq": text, "values": {...}}), or with
no arguments: writes coq/Gen/MaskOpts.v directly (./check --setup).
"""
import inspect, json, os, sys

REPO = os.environ.get("AV_REPO", "/repo")
import autobahn
if not os.path.realpath(autobahn.__file__).startswith(os.path.realpath(REPO) + os.sep):
    raise RuntimeError(f"autobahn imported from {autobahn.__file__}, expected the tree under test {REPO}")

import txaio
txaio.use_asyncio()
import autobahn.websocket.protocol as P
from autobahn.asyncio.websocket import WebSocketServerFactory, WebSocketClientFactory

MASK_OPTS = ["applyMask", "maskClientFrames", "maskServerFrames", "requireMaskedClientFrames"]


class _T:
    def write(self, d): pass
    def close(self): pass
    def abort(self): pass
    def is_closing(self): return False
    def get_extra_info(self, name, default=None):
        return {"peername": ("127.0.0.1", 1), "sockname": ("127.0.0.1", 2)}.get(name, default)
    def pause_reading(self): pass
    def resume_reading(self): pass


def need_bool(what, v):
    if type(v) is not bool:
        raise ValueError(f"{what}: expected a bool, got {v!r}")
    return v


def fresh(server):
    import asyncio
    loop = asyncio.new_event_loop()
    f = (WebSocketServerFactory if server else WebSocketClientFactory)("ws://localhost:9000", loop=loop)
    return f, loop


def describe(server):
    role = "server" if server else "client"
    f, loop = fresh(server)
    sig = list(inspect.signature(f.setProtocolOptions).parameters)
    mine = [m for m in MASK_OPTS if m in sig]
    expect = ["applyMask", "maskServerFrames", "requireMaskedClientFrames"] if server else ["applyMask", "maskClientFrames"]
    if sorted(mine) != sorted(expect):
        raise ValueError(f"{role}: masking keywords of setProtocolOptions are {mine}, expected {expect}")
    others = [k for k in sig if k not in MASK_OPTS]
    defaults = {m: need_bool(f"{role} default {m}", getattr(f, m)) for m in mine}
    loop.close()
    table = []
    for m in mine:
        for prior in (True, False):
            for arg in (None, True, False):
                f, loop = fresh(server)
                setattr(f, m, prior)
                f.setProtocolOptions(**{m: arg})
                for m2 in mine:       # setting m must not disturb the other masking options either
                    v = need_bool(f"{role}.{m2} after setProtocolOptions({m}={arg!r})", getattr(f, m2))
                    if m2 != m and v != defaults[m2]:
                        raise ValueError(f"{role}: setProtocolOptions({m}={arg!r}) changed {m2}")
                table.append((m, prior, arg, getattr(f, m)))
                loop.close()
    # neutrality of every call that does not name a masking option
    neutral = True
    f0, loop = fresh(server)
    neu = {k: getattr(f0, k) for k in others if hasattr(f0, k)}
    loop.close()
    if len(neu) < 10:
        raise ValueError(f"{role}: only {len(neu)} non-masking options found - signature not as expected")
    calls = [{}] + [{k: v} for k, v in neu.items()] + [dict(neu)]
    for prior in (True, False):
        for kw in calls:
            f, loop = fresh(server)
            for m in mine:
                setattr(f, m, prior)
            f.setProtocolOptions(**kw)
            for m in mine:
                v = getattr(f, m)
                if type(v) is not bool or v != prior:
                    neutral = False
            loop.close()
    # a connection reads the factory's values
    copied = True
    for prior in (True, False):
        f, loop = fresh(server)
        for m in mine:
            setattr(f, m, prior)
        f.protocol = P.WebSocketServerProtocol if server else P.WebSocketClientProtocol
        from autobahn.asyncio.websocket import WebSocketServerProtocol as SP, WebSocketClientProtocol as CP
        f.protocol = SP if server else CP
        p = f()
        p.connection_made(_T())
        for m in mine:
            v = getattr(p, m, None)
            if type(v) is not bool or v != prior:
                copied = False
        loop.close()
    return {"role": role, "options": mine, "defaults": defaults, "table": table, "neutral": neutral, "copied": copied,
            "n_other_keywords": len(neu)}


def coq_bool(b): return "true" if b else "false"
def coq_optb(a): return "None" if a is None else f"(Some {coq_bool(a)})"


def generate():
    ds = [describe(False), describe(True)]
    L = ["(* GENERATED by translators/mask_opts.py from the tree under test - do not edit, not committed *)",
         "From Coq Require Import List String Bool.", "Import ListNotations.", "Open Scope string_scope.", ""]
    for d in ds:
        r = d["role"]
        L.append(f"Definition {r}_mask_options : list string := [" + "; ".join(f'"{m}"' for m in d["options"]) + "].")
        L.append(f"Definition {r}_mask_defaults : list (string * bool) := ["
                 + "; ".join(f'("{m}", {coq_bool(d["defaults"][m])})' for m in d["options"]) + "].")
        L.append(f"(* (option, value before, argument of setProtocolOptions (None = keyword absent), value after) *)")
        L.append(f"Definition {r}_set_table : list (string * bool * option bool * bool) := [")
        L.append(";\n".join(f'  ("{m}", {coq_bool(p)}, {coq_optb(a)}, {coq_bool(v)})' for (m, p, a, v) in d["table"]) + "].")
        L.append(f"(* calls naming no masking option ({d['n_other_keywords']} other keywords probed singly, all at once, and the empty call) leave them alone *)")
        L.append(f"Definition {r}_other_calls_neutral : bool := {coq_bool(d['neutral'])}.")
        L.append(f"Definition {r}_connection_copies_factory : bool := {coq_bool(d['copied'])}.")
        L.append("")
    return "\n".join(L) + "\n", {d["role"]: {k: d[k] for k in ("options", "defaults", "neutral", "copied", "n_other_keywords")} for d in ds}


if __name__ == "__main__":
    text, vals = generate()
    if len(sys.argv) > 2:
        json.dump({"coq": text, "values": vals}, open(sys.argv[2], "w"))
    else:
        root = os.path.dirname(os.path.dirname(os.path.abspath(__file__)))
        os.makedirs(os.path.join(root, "coq", "Gen"), exist_ok=True)
        p = os.path.join(root, "coq", "Gen", "MaskOpts.v")
        if not os.path.exists(p) or open(p).read() != text:
            open(p, "w").write(text)
        print("wrote", p)
