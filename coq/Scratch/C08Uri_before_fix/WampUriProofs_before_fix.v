(* HISTORICAL RECORD, not part of the build (coq/Scratch is not scanned).
   This is Proofs/WampUriProofs.v as it was compiled -- all lemmas closed -- against the patterns of
   autobahn/wamp/message.py BEFORE the repairs 3f578427 (`$` -> `\Z`) and d6e6279b (`\d` -> `0-9`), i.e. when every
   pattern ended in `$` and used the Unicode-aware `\d`.  Its last part ("TODAY") proves, for those patterns:
     pm_exact          : pmatch k s = dollar_closure (uri_spec_unicode k) s            (the exact accepted language)
     pm_partial        : no final LF, no non-ASCII decimal digit -> pmatch k s = uri_spec k s
     pm_complete       : uri_spec k s = true -> pmatch k s = true
     pm_refuted_nl     : forall k, pmatch k (nl_witness k) = true /\ uri_spec k (nl_witness k) = false      (F-C08-1)
     pm_refuted_digit  : for the 8 patterns with \d, U+0663 witnesses without a final LF                     (F-C08-4)
     pm_refuted        : forall k, ~ (forall s, pmatch k s = uri_spec k s)
     uri_never_accepts_invalid_refuted, uri_accepts_invalid_newline ("com.foo\n", all 16 flag combinations), ...
   The generic part (everything before "TODAY") is identical to the live file; the live file instantiates the same
   Section World with D = [(48,57)] and E = EndZ and proves full-strength equality (pm_full). *)
(* Proofs for C08 (identifier part). *)
From Coq Require Import List NArith ZArith Bool Lia.
From AV Require Import Base.Regex Gen.UriRegex Model.WampUri.
Import ListNotations.
Open Scope N_scope.

(* ------------------------------------------------------------------------------------------------ *)
(* small list facts                                                                                  *)
(* ------------------------------------------------------------------------------------------------ *)
Lemma forallb_ext_in : forall {A} (f g : A -> bool) l, (forall x, In x l -> f x = g x) -> forallb f l = forallb g l.
Proof.
  intros A f g l. induction l as [|a l IH]; simpl; intros H; auto.
  rewrite H by auto. rewrite IH; auto.
Qed.

Lemma forallb_mono_in : forall {A} (f g : A -> bool) l, (forall x, In x l -> f x = true -> g x = true) ->
  forallb f l = true -> forallb g l = true.
Proof.
  intros A f g l. induction l as [|a l IH]; simpl; intros H E; auto.
  apply andb_true_iff in E. destruct E as [E1 E2]. rewrite H by auto. simpl. apply IH; auto.
Qed.

Lemma forallb_removelast_last : forall {A} (f : A -> bool) l d, l <> [] ->
  forallb f l = forallb f (removelast l) && f (last l d).
Proof.
  intros A f l d. induction l as [|a l IH]; intros H; [congruence|].
  destruct l as [|b l].
  - simpl. rewrite andb_true_r. auto.
  - change (removelast (a :: b :: l)) with (a :: removelast (b :: l)).
    change (last (a :: b :: l) d) with (last (b :: l) d).
    change (forallb f (a :: b :: l)) with (f a && forallb f (b :: l)).
    change (forallb f (a :: removelast (b :: l))) with (f a && forallb f (removelast (b :: l))).
    rewrite IH by discriminate. rewrite andb_assoc. auto.
Qed.

Lemma str_eqb_eq : forall a b, str_eqb a b = true <-> a = b.
Proof.
  induction a as [|x a IH]; destruct b as [|y b]; simpl; split; intros H; try discriminate; auto.
  - apply andb_true_iff in H. destruct H as [H1 H2]. apply N.eqb_eq in H1. apply IH in H2. subst. auto.
  - injection H as -> ->. rewrite N.eqb_refl. apply IH. auto.
Qed.

(* ------------------------------------------------------------------------------------------------ *)
(* splitting at '.'                                                                                  *)
(* ------------------------------------------------------------------------------------------------ *)
Definition nodot (l : list N) : bool := forallb (fun c => negb (c =? dot)) l.
Definition dotted (comps : list (list N)) : list N := concat (map (fun c => c ++ [dot]) comps).

Lemma split_dot_nonnil : forall s, split_dot s <> [].
Proof.
  induction s as [|c t IH]; simpl; [discriminate|].
  destruct (c =? dot); [discriminate|]. destruct (split_dot t); discriminate.
Qed.

Lemma split_dot_nodot : forall l, nodot l = true -> split_dot l = [l].
Proof.
  induction l as [|c t IH]; simpl; intros H; auto.
  apply andb_true_iff in H. destruct H as [H1 H2]. apply negb_true_iff in H1. rewrite H1.
  rewrite IH by auto. auto.
Qed.

Lemma split_dot_app : forall a b, nodot a = true -> split_dot (a ++ dot :: b) = a :: split_dot b.
Proof.
  induction a as [|c t IH]; simpl; intros b H.
  - reflexivity.
  - apply andb_true_iff in H. destruct H as [H1 H2]. apply negb_true_iff in H1. rewrite H1.
    rewrite IH by auto. auto.
Qed.

Lemma split_dotted : forall comps l, Forall (fun c => nodot c = true) comps -> nodot l = true ->
  split_dot (dotted comps ++ l) = comps ++ [l].
Proof.
  intros comps l HF Hl. induction HF as [|c comps Hc HF IH]; simpl.
  - apply split_dot_nodot. auto.
  - unfold dotted in *. simpl. rewrite <- !app_assoc. simpl. rewrite split_dot_app by auto. rewrite IH. auto.
Qed.

Lemma split_dot_decomp : forall s, exists comps l,
  s = dotted comps ++ l /\ split_dot s = comps ++ [l] /\ Forall (fun c => nodot c = true) comps /\ nodot l = true.
Proof.
  induction s as [|c t IH].
  - exists [], []. simpl. auto.
  - destruct IH as [comps [l [E [S [HF Hl]]]]]. simpl. destruct (c =? dot) eqn:Ec.
    + apply N.eqb_eq in Ec. subst c. exists ([] :: comps), l. rewrite S. simpl. split.
      * unfold dotted in *. simpl. rewrite E at 1. auto.
      * split; auto.
    + rewrite S. destruct comps as [|h comps].
      * simpl in *. exists [], (c :: l). simpl. subst t. split; auto. split; auto. split; auto.
        rewrite Ec. simpl. auto.
      * simpl. exists ((c :: h) :: comps), l. inversion HF; subst. split.
        -- unfold dotted. simpl. auto.
        -- split; auto. split; auto. constructor; auto. simpl. rewrite Ec. simpl. auto.
Qed.

Lemma removelast_app_single : forall {A} (l : list A) x, removelast (l ++ [x]) = l.
Proof. intros. rewrite removelast_app by discriminate. simpl. apply app_nil_r. Qed.

Lemma last_app_single : forall {A} (l : list A) x d, last (l ++ [x]) d = x.
Proof. intros. apply last_last. Qed.

(* the bridge between "s is a dotted list of good components followed by a good last one" and the grammar *)
Lemma uri_shape : forall (okc okl : list N -> bool) s,
  (forall c, okc c = true -> nodot c = true) -> (forall c, okl c = true -> nodot c = true) ->
  ((exists comps l, s = dotted comps ++ l /\ Forall (fun c => okc c = true) comps /\ okl l = true)
   <-> forallb okc (removelast (split_dot s)) && okl (last (split_dot s) []) = true).
Proof.
  intros okc okl s Hc Hl. split.
  - intros [comps [l [E [HF Hok]]]]. subst s.
    rewrite split_dotted.
    + rewrite removelast_app_single, last_app_single. rewrite Hok, andb_true_r.
      apply forallb_forall. apply Forall_forall. auto.
    + eapply Forall_impl; [|exact HF]. auto.
    + auto.
  - intros H. apply andb_true_iff in H. destruct H as [H1 H2].
    destruct (split_dot_decomp s) as [comps [l [E [S [HF Hnl]]]]].
    rewrite S in *. rewrite removelast_app_single in H1. rewrite last_app_single in H2.
    exists comps, l. split; auto. split; auto. apply Forall_forall. apply forallb_forall. auto.
Qed.

(* ------------------------------------------------------------------------------------------------ *)
(* the URI pattern shapes over an arbitrary character class that excludes '.'                        *)
(* ------------------------------------------------------------------------------------------------ *)
Lemma lang_seq2 : forall a b s, lang (seq_re [a; b]) s <-> exists s1 s2, s = s1 ++ s2 /\ lang a s1 /\ lang b s2.
Proof.
  intros. simpl. split.
  - intros [s1 [s2 [E [H1 [s3 [s4 [E2 [H3 H4]]]]]]]]. subst. rewrite app_nil_r. exists s1, s3. auto.
  - intros [s1 [s2 [E [H1 H2]]]]. exists s1, s2. split; auto. split; auto. exists s2, []. rewrite app_nil_r. auto.
Qed.

Section UriShapes.
  Variable n : bool.
  Variable rs : list crange.
  Hypothesis cls_nodot : cls_mem n rs dot = false.
  Let P := cls_mem n rs.
  Let C := Chr n rs.

  Lemma P_nodot : forall c, forallb P c = true -> nodot c = true.
  Proof.
    intros c H. unfold nodot. eapply forallb_mono_in; [|exact H].
    intros x _ Hx. apply negb_true_iff. destruct (N.eqb_spec x dot); auto. subst. unfold P in Hx. congruence.
  Qed.

  Lemma lang_comp1 : forall s, lang (rep 1 None C) s <-> comp_ne P s = true.
  Proof.
    intros s. unfold C. rewrite lang_rep_chr by exact I. unfold comp_ne. fold P. split.
    - intros [H [HL _]]. rewrite H. destruct s; simpl in *; [lia | auto].
    - intros H. apply andb_true_iff in H. destruct H as [H1 H2]. split; auto. split; auto.
      destruct s; simpl in *; [discriminate | lia].
  Qed.

  Lemma lang_comp0 : forall s, lang (rep 0 None C) s <-> comp_any P s = true.
  Proof.
    intros s. unfold C. rewrite lang_rep_chr by exact I. unfold comp_any. fold P. split.
    - tauto.
    - intros H. split; auto. split; auto. lia.
  Qed.

  Lemma lang_opt_comp1 : forall s, lang (rep 0 (Some 1%nat) (rep 1 None C)) s <-> comp_any P s = true.
  Proof.
    intros s. rewrite lang_rep by lia. split.
    - intros [ss [E [HF [_ HL]]]]. destruct ss as [|x [|y ss]]; simpl in *; try lia.
      + subst. auto.
      + inversion HF; subst. rewrite app_nil_r. apply lang_comp1 in H1. unfold comp_ne in H1. unfold comp_any.
        apply andb_true_iff in H1. tauto.
    - intros H. destruct s as [|c t].
      + exists []. simpl. repeat split; auto; try lia.
      + exists [c :: t]. simpl. rewrite app_nil_r. split; auto. split.
        * constructor; auto. apply lang_comp1. unfold comp_ne. unfold comp_any in H. rewrite H. auto.
        * simpl. lia.
  Qed.

  Definition head_ne : regex := seq_re [rep 1 None C; lit 46].
  Definition head_any : regex := alt_re [seq_re [rep 1 None C; lit 46]; lit 46].

  Lemma lang_head_ne : forall s, lang head_ne s <-> exists c, s = c ++ [dot] /\ comp_ne P c = true.
  Proof.
    intros s. unfold head_ne. rewrite lang_seq2. split.
    - intros [s1 [s2 [E [H1 H2]]]]. apply lang_lit in H2. apply lang_comp1 in H1. subst. exists s1. auto.
    - intros [c [E H]]. exists c, [dot]. split; auto. split; [apply lang_comp1; auto | apply lang_lit; auto].
  Qed.

  Lemma lang_head_any : forall s, lang head_any s <-> exists c, s = c ++ [dot] /\ comp_any P c = true.
  Proof.
    intros s. unfold head_any. change (lang (alt_re [seq_re [rep 1 None C; lit 46]; lit 46]) s)
      with (lang head_ne s \/ (lang (lit 46) s \/ False)).
    rewrite lang_head_ne, lang_lit. split.
    - intros [[c [E H]] | [E | []]].
      + exists c. split; auto. unfold comp_ne in H. apply andb_true_iff in H. tauto.
      + exists []. auto.
    - intros [c [E H]]. destruct c as [|x c].
      + right. left. auto.
      + left. exists (x :: c). split; auto.
  Qed.

  Lemma lang_star_heads : forall (H : regex) (ok : list N -> bool),
    (forall x, lang H x <-> exists c, x = c ++ [dot] /\ ok c = true) ->
    forall s, lang (rep 0 None H) s <-> exists comps, s = dotted comps /\ Forall (fun c => ok c = true) comps.
  Proof.
    intros H ok HH s. rewrite lang_rep by exact I. split.
    - intros [ss [E [HF _]]]. subst s. clear -HF HH. induction HF as [|x ss Hx HF IH].
      + exists []. auto.
      + destruct IH as [comps [E HF2]]. apply HH in Hx. destruct Hx as [c [Ec Hc]]. subst x.
        exists (c :: comps). simpl. rewrite E. unfold dotted. simpl. auto.
    - intros [comps [E HF]]. exists (map (fun c => c ++ [dot]) comps). split; auto. split.
      + clear E. induction HF; simpl; constructor; auto. apply HH. eauto.
      + split; [lia | auto].
  Qed.

  Definition mk_non_empty : regex := seq_re [rep 0 None head_ne; rep 1 None C].
  Definition mk_last_empty : regex := seq_re [rep 0 None head_ne; rep 0 None C].
  Definition mk_empty : regex := seq_re [rep 0 None head_any; rep 0 (Some 1%nat) (rep 1 None C)].

  Lemma comp_ne_nodot : forall c, comp_ne P c = true -> nodot c = true.
  Proof. intros c H. unfold comp_ne in H. apply andb_true_iff in H. apply P_nodot. tauto. Qed.
  Lemma comp_any_nodot : forall c, comp_any P c = true -> nodot c = true.
  Proof. intros c H. apply P_nodot. auto. Qed.

  Lemma shape_generic : forall (Hd Tl : regex) okc okl,
    (forall x, lang Hd x <-> exists c, x = c ++ [dot] /\ okc c = true) ->
    (forall x, lang Tl x <-> okl x = true) ->
    (forall c, okc c = true -> nodot c = true) -> (forall c, okl c = true -> nodot c = true) ->
    forall s, lang (seq_re [rep 0 None Hd; Tl]) s <->
              forallb okc (removelast (split_dot s)) && okl (last (split_dot s) []) = true.
  Proof.
    intros Hd Tl okc okl H1 H2 H3 H4 s. rewrite <- uri_shape by auto. rewrite lang_seq2. split.
    - intros [s1 [s2 [E [A B]]]]. apply (lang_star_heads Hd okc H1) in A. destruct A as [comps [E1 HF]].
      apply H2 in B. subst. eauto.
    - intros [comps [l [E [HF B]]]]. exists (dotted comps), l. split; auto. split.
      + apply (lang_star_heads Hd okc H1). eauto.
      + apply H2. auto.
  Qed.

  Lemma matches_mk_non_empty : forall s, matches mk_non_empty s = uri_non_empty P s.
  Proof.
    intros s. apply matches_iff_eq. unfold mk_non_empty.
    rewrite (shape_generic head_ne (rep 1 None C) (comp_ne P) (comp_ne P) lang_head_ne lang_comp1 comp_ne_nodot comp_ne_nodot).
    unfold uri_non_empty. rewrite (forallb_removelast_last _ (split_dot s) []) by apply split_dot_nonnil. tauto.
  Qed.

  Lemma matches_mk_last_empty : forall s, matches mk_last_empty s = uri_last_empty P s.
  Proof.
    intros s. apply matches_iff_eq. unfold mk_last_empty.
    rewrite (shape_generic head_ne (rep 0 None C) (comp_ne P) (comp_any P) lang_head_ne lang_comp0 comp_ne_nodot comp_any_nodot).
    unfold uri_last_empty. tauto.
  Qed.

  Lemma matches_mk_empty : forall s, matches mk_empty s = uri_empty P s.
  Proof.
    intros s. apply matches_iff_eq. unfold mk_empty.
    rewrite (shape_generic head_any _ (comp_any P) (comp_any P) lang_head_any lang_opt_comp1 comp_any_nodot comp_any_nodot).
    unfold uri_empty. rewrite (forallb_removelast_last _ (split_dot s) []) by apply split_dot_nonnil. tauto.
  Qed.
End UriShapes.

(* ------------------------------------------------------------------------------------------------ *)
(* literal prefixes / suffixes with one bounded class repeat (realm-name patterns, custom attribute)  *)
(* ------------------------------------------------------------------------------------------------ *)
Lemma lang_lits : forall pre rest s, lang (seq_re (map lit pre ++ rest)) s <-> exists t, s = pre ++ t /\ lang (seq_re rest) t.
Proof.
  induction pre as [|c pre IH]; intros rest s.
  - simpl. split; [intros H; exists s; auto | intros [t [-> H]]; auto].
  - change (map lit (c :: pre) ++ rest) with (lit c :: (map lit pre ++ rest)). rewrite lang_seq_cons. split.
    + intros [s1 [s2 [E [H1 H2]]]]. apply lang_lit in H1. apply IH in H2. destruct H2 as [t [E2 H2]]. subst.
      exists t. auto.
    + intros [t [E H]]. exists [c], (pre ++ t). subst. split; auto. split; [apply lang_lit; auto | apply IH; eauto].
Qed.

Lemma lang_lits_only : forall suf s, lang (seq_re (map lit suf)) s <-> s = suf.
Proof.
  intros suf s. rewrite <- (app_nil_r (map lit suf)). rewrite lang_lits. simpl. split.
  - intros [t [E ->]]. rewrite app_nil_r in E. auto.
  - intros ->. exists []. rewrite app_nil_r. auto.
Qed.

Lemma lang_seq1 : forall a s, lang (seq_re [a]) s <-> lang a s.
Proof.
  intros. simpl. split.
  - intros [s1 [s2 [E [H1 H2]]]]. subst. rewrite app_nil_r. auto.
  - intros H. exists s, []. rewrite app_nil_r. auto.
Qed.

Lemma firstn_app_exact : forall {A} (a b : list A), firstn (length a) (a ++ b) = a.
Proof. intros. rewrite firstn_app, Nat.sub_diag, firstn_all. simpl. apply app_nil_r. Qed.

Lemma skipn_app_exact : forall {A} (a b : list A), skipn (length a) (a ++ b) = b.
Proof. intros. rewrite skipn_app, Nat.sub_diag, skipn_all. simpl. auto. Qed.

Lemma starts_with_spec : forall pre s, starts_with pre s = true <-> s = pre ++ skipn (length pre) s.
Proof.
  intros pre s. unfold starts_with. rewrite str_eqb_eq. split.
  - intros H. rewrite <- H at 1. symmetry. apply firstn_skipn.
  - intros H. rewrite H. apply firstn_app_exact.
Qed.

Lemma ends_with_spec : forall suf s, ends_with suf s = true <-> s = firstn (length s - length suf) s ++ suf.
Proof.
  intros suf s. unfold ends_with. rewrite andb_true_iff, str_eqb_eq, Nat.leb_le. split.
  - intros [_ H]. pose proof (firstn_skipn (length s - length suf) s) as F. rewrite H in F. symmetry. exact F.
  - intros H. assert (L : (length suf <= length s)%nat).
    { rewrite H, app_length. lia. }
    split; auto. rewrite H at 2.
    assert (E : (length s - length suf)%nat = length (firstn (length s - length suf) s)).
    { rewrite firstn_length. lia. }
    rewrite E at 1. apply skipn_app_exact.
Qed.

Lemma len_between_spec : forall lo hi l, len_between lo hi l = true <-> (lo <= length l <= hi)%nat.
Proof. intros. unfold len_between. rewrite andb_true_iff, !Nat.leb_le. tauto. Qed.

Section Affix.
  Variable R : list crange.
  Variable m k : nat.
  Hypothesis mk : (m <= k)%nat.
  Let p := cls_mem false R.
  Let body := rep m (Some k) (Chr false R).

  Lemma lang_body : forall t, lang body t <-> forallb p t && len_between m k t = true.
  Proof.
    intros t. unfold body. rewrite lang_rep_chr by exact mk. fold p.
    rewrite andb_true_iff, len_between_spec. tauto.
  Qed.

  Definition mk_prefixed (pre : list N) : regex := seq_re (map lit pre ++ [body]).
  Definition mk_suffixed (suf : list N) : regex := seq_re (body :: map lit suf).

  Lemma matches_mk_prefixed : forall pre s,
    matches (mk_prefixed pre) s =
      starts_with pre s && (forallb p (skipn (length pre) s) && len_between m k (skipn (length pre) s)).
  Proof.
    intros pre s. apply matches_iff_eq. unfold mk_prefixed. rewrite lang_lits. rewrite andb_true_iff, starts_with_spec. split.
    - intros [t [E H]]. simpl in H. destruct H as [s1 [s2 [E2 [H1 H2]]]]. subst. rewrite app_nil_r.
      rewrite skipn_app_exact. split; auto. apply lang_body. auto.
    - intros [E H]. exists (skipn (length pre) s). split; auto. simpl.
      exists (skipn (length pre) s), []. rewrite app_nil_r. split; auto. split; auto. apply lang_body. auto.
  Qed.

  Lemma matches_mk_suffixed : forall suf s,
    matches (mk_suffixed suf) s =
      ends_with suf s && (forallb p (firstn (length s - length suf) s) && len_between m k (firstn (length s - length suf) s)).
  Proof.
    intros suf s. apply matches_iff_eq. unfold mk_suffixed. rewrite lang_seq_cons. rewrite andb_true_iff, ends_with_spec. split.
    - intros [s1 [s2 [E [H1 H2]]]]. apply lang_lits_only in H2. subst.
      rewrite app_length, Nat.add_sub, firstn_app_exact. split; auto. apply lang_body. auto.
    - intros [E H]. exists (firstn (length s - length suf) s), suf. split; auto. split.
      + apply lang_body. auto.
      + apply lang_lits_only. auto.
  Qed.
End Affix.

(* ^[A][R]{2,254}$ *)
Definition mk_realm_name (A R : list crange) : regex := seq_re [Chr false A; rep 2 (Some 254%nat) (Chr false R)].

Lemma matches_mk_realm_name : forall A R s,
  matches (mk_realm_name A R) s =
    match s with [] => false | c :: t => cls_mem false A c && forallb (cls_mem false R) t && len_between 2 254 t end.
Proof.
  intros A R s. apply matches_iff_eq. unfold mk_realm_name. rewrite lang_seq2. split.
  - intros [s1 [s2 [E [[c [E1 Hc]] H2]]]]. apply lang_body in H2; [|lia]. subst.
    change ([c] ++ s2) with (c :: s2). cbv iota beta. rewrite Hc, <- andb_assoc. exact H2.
  - destruct s as [|c t]; [discriminate|]. intros H. rewrite <- andb_assoc in H. apply andb_true_iff in H. destruct H as [H1 H2].
    exists [c], t. split; auto. split.
    + exists c. auto.
    + apply lang_body; [lia | auto].
Qed.

(* ^x_([L][R]+)?$ *)
Definition mk_custom (L R : list crange) : regex :=
  seq_re [lit 120; lit 95; rep 0 (Some 1%nat) (seq_re [Chr false L; rep 1 None (Chr false R)])].

Lemma matches_mk_custom : forall L R s,
  matches (mk_custom L R) s =
    starts_with str_x_ s &&
    match skipn 2 s with
    | [] => true
    | c :: t => cls_mem false L c && negb (is_nil t) && forallb (cls_mem false R) t
    end.
Proof.
  intros L R s. apply matches_iff_eq. unfold mk_custom.
  change [lit 120; lit 95; rep 0 (Some 1%nat) (seq_re [Chr false L; rep 1 None (Chr false R)])]
    with (map lit str_x_ ++ [rep 0 (Some 1%nat) (seq_re [Chr false L; rep 1 None (Chr false R)])]).
  rewrite lang_lits. rewrite andb_true_iff, starts_with_spec. change (length str_x_) with 2%nat.
  assert (TAIL : forall t, lang (seq_re [Chr false L; rep 1 None (Chr false R)]) t <->
                           exists c u, t = c :: u /\ cls_mem false L c && negb (is_nil u) && forallb (cls_mem false R) u = true).
  { intros t. rewrite lang_seq2. split.
    - intros [s1 [s2 [E [[c [E1 Hc]] H2]]]]. apply lang_rep_chr in H2; [|exact I]. destruct H2 as [H2 [H3 _]].
      subst. exists c, s2. split; auto. rewrite Hc, H2. destruct s2; simpl in *; [lia | auto].
    - intros [c [u [E H]]]. apply andb_true_iff in H. destruct H as [H H3]. apply andb_true_iff in H. destruct H as [H1 H2].
      exists [c], u. split; auto. split; [exists c; auto|]. apply lang_rep_chr; [exact I|]. split; auto. split; auto.
      destruct u; simpl in *; [discriminate | lia]. }
  split.
  - intros [t [E H]]. rewrite lang_seq1 in H. rename H into H1. rename t into s1.
    subst s. change (skipn 2 (str_x_ ++ s1)) with s1. split; auto.
    apply lang_rep in H1; [|lia]. destruct H1 as [ss [E [HF [_ HL]]]].
    destruct ss as [|x [|y ss]]; simpl in HL; try lia.
    + subst. auto.
    + inversion HF; subst. simpl. rewrite app_nil_r. apply TAIL in H1. destruct H1 as [c [u [-> H]]]. auto.
  - intros [E H]. exists (skipn 2 s). split; auto. rewrite lang_seq1.
    apply lang_rep; [lia|]. destruct (skipn 2 s) as [|c t] eqn:Es.
    + exists []. simpl. repeat split; auto; lia.
    + exists [c :: t]. simpl. rewrite app_nil_r. split; auto. split.
      * constructor; auto. apply TAIL. eauto.
      * lia.
Qed.

(* ------------------------------------------------------------------------------------------------ *)
(* character classes: the generated range lists against the readable predicates                      *)
(* ------------------------------------------------------------------------------------------------ *)
Lemma in_ranges_one : forall a b c, in_ranges [(a, b)] c = between a b c.
Proof. intros. unfold in_ranges, in_range, between. simpl. apply orb_false_r. Qed.

Lemma between_single : forall a c, between a a c = (c =? a).
Proof.
  intros. unfold between. destruct (N.eqb_spec c a).
  - subst. rewrite N.leb_refl. auto.
  - destruct (N.leb_spec a c), (N.leb_spec c a); simpl; auto. lia.
Qed.

Definition strict_cls (D : list crange) : list crange := D ++ [(97, 122)] ++ [(95, 95)].
Definition loose_cls : list crange := cat_space ++ [(46, 46)] ++ [(35, 35)].
Definition alpha_cls : list crange := [(65, 90)] ++ [(97, 122)].
Definition realm_cls (D : list crange) : list crange :=
  [(65, 90)] ++ [(97, 122)] ++ D ++ [(95, 95)] ++ [(45, 45)] ++ [(64, 64)] ++ [(46, 46)].
Definition ens_cls (D : list crange) : list crange := [(97, 122)] ++ D ++ [(95, 95)] ++ [(45, 45)] ++ [(64, 64)] ++ [(46, 46)].
Definition hex_cls (D : list crange) : list crange := [(65, 70)] ++ [(97, 102)] ++ D.
Definition lower_cls : list crange := [(97, 122)].

Ltac cls_norm := unfold cls_mem; rewrite ?xorb_false_l, ?xorb_true_l, ?in_ranges_app, ?in_ranges_one, ?between_single, ?orb_assoc.

Lemma strict_cls_mem : forall D c, cls_mem false (strict_cls D) c = strict_char (in_ranges D) c.
Proof. intros. unfold strict_cls, strict_char, lower. cls_norm. reflexivity. Qed.

Lemma cat_space_is_ws : cat_space = ws_ranges.
Proof. vm_compute. reflexivity. Qed.

Lemma loose_cls_mem : forall c, cls_mem true loose_cls c = loose_char c.
Proof. intros. unfold loose_cls, loose_char, is_ws. rewrite cat_space_is_ws. cls_norm. reflexivity. Qed.

Lemma alpha_cls_mem : forall c, cls_mem false alpha_cls c = upper c || lower c.
Proof. intros. unfold alpha_cls, upper, lower. cls_norm. reflexivity. Qed.

Lemma realm_cls_mem : forall D c, cls_mem false (realm_cls D) c = realm_char (in_ranges D) c.
Proof. intros. unfold realm_cls, realm_char, upper, lower. cls_norm. reflexivity. Qed.

Lemma ens_cls_mem : forall D c, cls_mem false (ens_cls D) c = ens_char (in_ranges D) c.
Proof. intros. unfold ens_cls, ens_char, lower. cls_norm. reflexivity. Qed.

Lemma hex_cls_mem : forall D c, cls_mem false (hex_cls D) c = hex_char (in_ranges D) c.
Proof. intros. unfold hex_cls, hex_char. cls_norm. reflexivity. Qed.

Lemma lower_cls_mem : forall c, cls_mem false lower_cls c = lower c.
Proof. intros. unfold lower_cls, lower. cls_norm. reflexivity. Qed.

(* ------------------------------------------------------------------------------------------------ *)
(* the grammars depend on the character predicates only through the characters of the string         *)
(* ------------------------------------------------------------------------------------------------ *)
Lemma split_dot_in : forall s comp c, In comp (split_dot s) -> In c comp -> In c s.
Proof.
  induction s as [|x t IH]; simpl; intros comp c H Hc.
  - destruct H as [<- | []]. destruct Hc.
  - destruct (x =? dot).
    + destruct H as [<- | H]; [destruct Hc | right; eapply IH; eauto].
    + destruct (split_dot t) as [|h r] eqn:E.
      * destruct H as [<- | []]. destruct Hc as [<- | []]. auto.
      * destruct H as [<- | H].
        -- destruct Hc as [<- | Hc]; auto. right. apply (IH h c); simpl; auto.
        -- right. apply (IH comp c); simpl; auto.
Qed.

Lemma in_removelast : forall {A} (l : list A) x, In x (removelast l) -> In x l.
Proof.
  induction l as [|a l IH]; simpl; intros x H; auto.
  destruct l as [|b l]; [destruct H|]. destruct H as [<- | H]; auto.
Qed.

Lemma last_in : forall {A} (l : list A) d, l <> [] -> In (last l d) l.
Proof.
  induction l as [|a l IH]; intros d H; [congruence|].
  destruct l as [|b l]; simpl; auto. right. apply IH. discriminate.
Qed.

Lemma in_skipn : forall {A} n (l : list A) x, In x (skipn n l) -> In x l.
Proof. intros A n l x H. rewrite <- (firstn_skipn n l). apply in_or_app. auto. Qed.

Lemma in_firstn : forall {A} n (l : list A) x, In x (firstn n l) -> In x l.
Proof. intros A n l x H. rewrite <- (firstn_skipn n l). apply in_or_app. auto. Qed.

Section Mono.
  Variables p q : N -> bool.
  Variable s : list N.
  Hypothesis pq : forall c, In c s -> p c = true -> q c = true.

  Lemma comp_any_mono : forall comp, In comp (split_dot s) -> comp_any p comp = true -> comp_any q comp = true.
  Proof.
    intros comp Hin. unfold comp_any. apply forallb_mono_in. intros c Hc. apply pq. eapply split_dot_in; eauto.
  Qed.

  Lemma comp_ne_mono : forall comp, In comp (split_dot s) -> comp_ne p comp = true -> comp_ne q comp = true.
  Proof.
    intros comp Hin. unfold comp_ne. rewrite !andb_true_iff. intros [H1 H2]. split; auto.
    apply (comp_any_mono comp Hin H2).
  Qed.

  Lemma uri_non_empty_mono : uri_non_empty p s = true -> uri_non_empty q s = true.
  Proof. unfold uri_non_empty. apply forallb_mono_in. exact comp_ne_mono. Qed.

  Lemma uri_empty_mono : uri_empty p s = true -> uri_empty q s = true.
  Proof. unfold uri_empty. apply forallb_mono_in. exact comp_any_mono. Qed.

  Lemma uri_last_empty_mono : uri_last_empty p s = true -> uri_last_empty q s = true.
  Proof.
    unfold uri_last_empty. rewrite !andb_true_iff. intros [H1 H2]. split.
    - revert H1. apply forallb_mono_in. intros comp Hin. apply comp_ne_mono. apply in_removelast. auto.
    - revert H2. apply comp_any_mono. apply last_in. apply split_dot_nonnil.
  Qed.
End Mono.

Ltac orb_mono := rewrite ?orb_true_iff; intuition auto.

Section DigitMono.
  Variables d1 d2 : N -> bool.
  Variable s : list N.
  Hypothesis dd : forall c, In c s -> d1 c = true -> d2 c = true.

  Lemma strict_char_mono : forall c, In c s -> strict_char d1 c = true -> strict_char d2 c = true.
  Proof. intros c Hc. pose proof (dd c Hc) as Dc. unfold strict_char. orb_mono. Qed.
  Lemma realm_char_mono : forall c, In c s -> realm_char d1 c = true -> realm_char d2 c = true.
  Proof. intros c Hc. pose proof (dd c Hc) as Dc. unfold realm_char. orb_mono. Qed.
  Lemma ens_char_mono : forall c, In c s -> ens_char d1 c = true -> ens_char d2 c = true.
  Proof. intros c Hc. pose proof (dd c Hc) as Dc. unfold ens_char. orb_mono. Qed.
  Lemma hex_char_mono : forall c, In c s -> hex_char d1 c = true -> hex_char d2 c = true.
  Proof. intros c Hc. pose proof (dd c Hc) as Dc. unfold hex_char. orb_mono. Qed.

End DigitMono.

Lemma grammar_mono : forall d1 d2 s, (forall c, In c s -> d1 c = true -> d2 c = true) ->
  forall k, grammar_of d1 k s = true -> grammar_of d2 k s = true.
Proof.
    intros d1 d2 s dd k.
    pose proof (strict_char_mono d1 d2 s dd) as strict_char_mono'.
    pose proof (realm_char_mono d1 d2 s dd) as realm_char_mono'.
    pose proof (ens_char_mono d1 d2 s dd) as ens_char_mono'.
    pose proof (hex_char_mono d1 d2 s dd) as hex_char_mono'.
    destruct k; simpl grammar_of.
    - (* realm name *) unfold realm_name_spec. clear -realm_char_mono'. destruct s as [|c t]; auto. rewrite !andb_true_iff.
      intros [[H1 H2] H3]. repeat split; auto. revert H2. apply forallb_mono_in. intros x Hx.
      apply realm_char_mono'. right. auto.
    - (* eth *) unfold realm_eth_spec. rewrite !andb_true_iff. intros [H1 [H2 H3]]. repeat split; auto.
      revert H2. apply forallb_mono_in. intros x Hx. apply hex_char_mono'. eapply in_skipn; eauto.
    - (* ens *) unfold realm_ens_spec. rewrite !andb_true_iff. intros [H1 [H2 H3]]. repeat split; auto.
      revert H2. apply forallb_mono_in. intros x Hx. apply ens_char_mono'. eapply in_firstn; eauto.
    - (* reverse ens *) unfold realm_ens_reverse_spec. rewrite !andb_true_iff. intros [H1 [H2 H3]]. repeat split; auto.
      revert H2. apply forallb_mono_in. intros x Hx. apply ens_char_mono'. eapply in_skipn; eauto.
    - apply uri_empty_mono. exact strict_char_mono'.
    - auto.
    - apply uri_non_empty_mono. exact strict_char_mono'.
    - auto.
    - apply uri_last_empty_mono. exact strict_char_mono'.
    - auto.
    - (* custom attribute *) unfold custom_attribute_spec. rewrite !andb_true_iff. intros [H1 H2]. split; auto.
      destruct (skipn 2 s) as [|c t] eqn:E; auto. revert H2. rewrite !andb_true_iff. intros [[H2 H3] H4].
      repeat split; auto. revert H4. apply forallb_mono_in. intros x Hx. apply strict_char_mono'.
      apply (in_skipn 2). rewrite E. right. auto.
Qed.

Lemma grammar_ext_in : forall d1 d2 k s, (forall c, In c s -> d1 c = d2 c) -> grammar_of d1 k s = grammar_of d2 k s.
Proof.
  intros d1 d2 k s H. apply eq_true_iff_eq. split; apply grammar_mono; intros c Hc E; [rewrite <- H | rewrite H]; auto.
Qed.

Lemma uri_non_empty_ext : forall p q s, (forall c, p c = q c) -> uri_non_empty p s = uri_non_empty q s.
Proof. intros p q s H. apply eq_true_iff_eq. split; apply uri_non_empty_mono; intros c _ E; [rewrite <- H | rewrite H]; auto. Qed.
Lemma uri_empty_ext : forall p q s, (forall c, p c = q c) -> uri_empty p s = uri_empty q s.
Proof. intros p q s H. apply eq_true_iff_eq. split; apply uri_empty_mono; intros c _ E; [rewrite <- H | rewrite H]; auto. Qed.
Lemma uri_last_empty_ext : forall p q s, (forall c, p c = q c) -> uri_last_empty p s = uri_last_empty q s.
Proof. intros p q s H. apply eq_true_iff_eq. split; apply uri_last_empty_mono; intros c _ E; [rewrite <- H | rewrite H]; auto. Qed.

(* ================================================================================================ *)
(* The generated patterns, for ANY digit class D and end anchor E they may be written with            *)
(* ================================================================================================ *)
Definition anchor_closure (e : end_anchor) (g : list N -> bool) (s : list N) : bool :=
  match e with EndZ => g s | EndDollar => dollar_closure g s end.

Section World.
  Variable D : list crange.          (* the ranges the patterns use for "digit": cat_digit for \d, [(48,57)] for 0-9 *)
  Variable E : end_anchor.
  Hypothesis D_nodot : in_ranges D dot = false.
  Hypothesis sh_realm_name : pat_realm_name = mk_realm_name alpha_cls (realm_cls D).
  Hypothesis sh_realm_name_eth : pat_realm_name_eth = mk_prefixed (hex_cls D) 40 40 str_0x.
  Hypothesis sh_realm_name_ens : pat_realm_name_ens = mk_suffixed (ens_cls D) 2 250 str_dot_eth.
  Hypothesis sh_realm_name_ens_reverse : pat_realm_name_ens_reverse = mk_prefixed (ens_cls D) 2 250 str_eth_dot.
  Hypothesis sh_strict_empty : pat_strict_empty = mk_empty false (strict_cls D).
  Hypothesis sh_loose_empty : pat_loose_empty = mk_empty true loose_cls.
  Hypothesis sh_strict_non_empty : pat_strict_non_empty = mk_non_empty false (strict_cls D).
  Hypothesis sh_loose_non_empty : pat_loose_non_empty = mk_non_empty true loose_cls.
  Hypothesis sh_strict_last_empty : pat_strict_last_empty = mk_last_empty false (strict_cls D).
  Hypothesis sh_loose_last_empty : pat_loose_last_empty = mk_last_empty true loose_cls.
  Hypothesis sh_custom_attribute : pat_custom_attribute = mk_custom lower_cls (strict_cls D).
  Hypothesis all_ends : forall k, fst (pat_of k) = E.

  Lemma strict_cls_nodot : cls_mem false (strict_cls D) dot = false.
  Proof. rewrite strict_cls_mem. unfold strict_char. rewrite D_nodot. reflexivity. Qed.
  Lemma loose_cls_nodot : cls_mem true loose_cls dot = false.
  Proof. rewrite loose_cls_mem. reflexivity. Qed.

  (* the body of each pattern decides exactly the grammar whose digits are D *)
  Lemma matches_pat_D : forall k s, matches (snd (pat_of k)) s = grammar_of (in_ranges D) k s.
  Proof.
    intros k s. destruct k; simpl pat_of; simpl snd; simpl grammar_of.
    - rewrite sh_realm_name, matches_mk_realm_name. unfold realm_name_spec. destruct s as [|c t]; auto.
      rewrite alpha_cls_mem. f_equal. f_equal. apply forallb_ext_in. intros x _. apply realm_cls_mem.
    - rewrite sh_realm_name_eth, matches_mk_prefixed by lia. unfold realm_eth_spec. f_equal.
      change (length str_0x) with 2%nat. cbv zeta. f_equal. apply forallb_ext_in. intros x _. apply hex_cls_mem.
    - rewrite sh_realm_name_ens, matches_mk_suffixed by lia. unfold realm_ens_spec. f_equal.
      change (length str_dot_eth) with 4%nat. cbv zeta. f_equal. apply forallb_ext_in. intros x _. apply ens_cls_mem.
    - rewrite sh_realm_name_ens_reverse, matches_mk_prefixed by lia. unfold realm_ens_reverse_spec. f_equal.
      change (length str_eth_dot) with 4%nat. cbv zeta. f_equal. apply forallb_ext_in. intros x _. apply ens_cls_mem.
    - rewrite sh_strict_empty, matches_mk_empty by exact strict_cls_nodot. apply uri_empty_ext. apply strict_cls_mem.
    - rewrite sh_loose_empty, matches_mk_empty by exact loose_cls_nodot. apply uri_empty_ext. exact loose_cls_mem.
    - rewrite sh_strict_non_empty, matches_mk_non_empty by exact strict_cls_nodot. apply uri_non_empty_ext. apply strict_cls_mem.
    - rewrite sh_loose_non_empty, matches_mk_non_empty by exact loose_cls_nodot. apply uri_non_empty_ext. exact loose_cls_mem.
    - rewrite sh_strict_last_empty, matches_mk_last_empty by exact strict_cls_nodot. apply uri_last_empty_ext. apply strict_cls_mem.
    - rewrite sh_loose_last_empty, matches_mk_last_empty by exact loose_cls_nodot. apply uri_last_empty_ext. exact loose_cls_mem.
    - rewrite sh_custom_attribute, matches_mk_custom. unfold custom_attribute_spec. f_equal.
      destruct (skipn 2 s) as [|c t]; auto. rewrite lower_cls_mem. f_equal. apply forallb_ext_in. intros x _. apply strict_cls_mem.
  Qed.

  Lemma pm_exact_D : forall k s, pmatch k s = anchor_closure E (grammar_of (in_ranges D) k) s.
  Proof.
    intros k s. unfold pmatch, py_match, anchor_closure, dollar_closure. rewrite all_ends, matches_pat_D.
    destruct E; [rewrite orb_false_r; reflexivity|].
    destruct (strip_final_nl s); auto. rewrite matches_pat_D. auto.
  Qed.
End World.

(* ================================================================================================ *)
(* The validators                                                                                    *)
(* ================================================================================================ *)
Lemma pmatch_val_str : forall k s, pmatch_val k (UStr s) = inl (pmatch k s).
Proof. reflexivity. Qed.

Ltac val_cbn := cbn [is_none type_is_str type_is_int type_is_dict negb andb orb py_num py_keys].

Lemma uri_total : forall v st aec ale an,
  check_or_raise_uri v st aec ale an = Ok \/ check_or_raise_uri v st aec ale an = Raise InvalidUriError.
Proof.
  intros v st aec ale an. unfold check_or_raise_uri.
  destruct v; val_cbn; try (destruct an; auto; fail); auto.
  rewrite pmatch_val_str. destruct (pmatch _ s); auto.
Qed.

Lemma uri_accepts : forall v st aec ale an,
  check_or_raise_uri v st aec ale an = Ok <->
  (v = UNone /\ an = true) \/ exists s, v = UStr s /\ pmatch (select_uri_pat st aec ale) s = true.
Proof.
  intros v st aec ale an. unfold check_or_raise_uri. destruct v; val_cbn;
    try (split; [discriminate | intros [[H _] | [s [H _]]]; discriminate]).
  - destruct an; split; auto; try discriminate.
    intros [[_ H] | [s [H _]]]; discriminate.
  - rewrite pmatch_val_str. destruct (pmatch (select_uri_pat st aec ale) s) eqn:E; split; auto.
    + intros _. right. exists s. auto.
    + discriminate.
    + intros [[H _] | [s' [H H']]]; [discriminate|]. injection H as <-. congruence.
Qed.

Lemma realm_total : forall v ae,
  check_or_raise_realm_name v ae = Ok \/ check_or_raise_realm_name v ae = Raise InvalidUriError.
Proof.
  intros v ae. unfold check_or_raise_realm_name. destruct v; val_cbn; auto.
  rewrite !pmatch_val_str. destruct ae, (pmatch PRealmName s), (pmatch PRealmNameEth s); auto.
Qed.

Lemma realm_accepts : forall v ae,
  check_or_raise_realm_name v ae = Ok <->
  exists s, v = UStr s /\ (pmatch PRealmName s || (ae && pmatch PRealmNameEth s)) = true.
Proof.
  intros v ae. unfold check_or_raise_realm_name. destruct v; val_cbn;
    try (split; [discriminate | intros [s [H _]]; discriminate]).
  rewrite !pmatch_val_str. split.
  - intros H. exists s. split; auto. destruct ae, (pmatch PRealmName s), (pmatch PRealmNameEth s); cbn in *; congruence.
  - intros [s' [E H]]. injection E as <-. destruct ae, (pmatch PRealmName s), (pmatch PRealmNameEth s); cbn in *; congruence.
Qed.

Lemma id_bounds_today : id_lo = 0%Z /\ id_hi = (2 ^ 53)%Z.
Proof. vm_compute. auto. Qed.

Lemma id_total : forall v, check_or_raise_id v = Ok \/ check_or_raise_id v = Raise ProtocolError.
Proof.
  intros v. unfold check_or_raise_id. destruct v; val_cbn; auto.
  destruct ((z <? id_lo)%Z || (z >? id_hi)%Z); auto.
Qed.

Lemma id_range : forall v, check_or_raise_id v = Ok <-> exists z, v = UInt z /\ (0 <= z <= 2 ^ 53)%Z.
Proof.
  intros v. unfold check_or_raise_id. destruct id_bounds_today as [-> ->].
  destruct v; val_cbn; try (split; [discriminate | intros [z' [H _]]; discriminate]).
  destruct (Z.ltb_spec z 0) as [L|L], (Z.gtb_spec z (2 ^ 53)) as [G|G]; cbn [orb]; split; try discriminate; intros H; try reflexivity.
  - destruct H as [z' [E H]]. injection E as <-. lia.
  - destruct H as [z' [E H]]. injection E as <-. lia.
  - destruct H as [z' [E H]]. injection E as <-. lia.
  - exists z. split; auto; lia.
Qed.

Lemma id_range_bool : forall v, check_or_raise_id v = (if id_spec v then Ok else Raise ProtocolError).
Proof.
  intros v. destruct (id_spec v) eqn:E.
  - apply id_range. unfold id_spec in E. destruct v; try discriminate. exists z. split; auto.
    apply andb_true_iff in E. destruct E as [E1 E2]. apply Z.leb_le in E1. apply Z.leb_le in E2. auto.
  - destruct (id_total v) as [H | H]; auto. apply id_range in H. destruct H as [z [-> H]]. simpl in E.
    apply andb_false_iff in E. destruct E as [E | E]; apply Z.leb_gt in E; lia.
Qed.

Lemma extra_total : forall v, check_or_raise_extra v = Ok \/ check_or_raise_extra v = Raise ProtocolError.
Proof. intros v. unfold check_or_raise_extra. destruct v; val_cbn; auto. destruct (forallb key_is_str keys); auto. Qed.

Lemma extra_accepts : forall v, check_or_raise_extra v = Ok <-> exists ks, v = UDict ks /\ forallb key_is_str ks = true.
Proof.
  intros v. unfold check_or_raise_extra. destruct v; val_cbn; try (split; [discriminate | intros [ks [H _]]; discriminate]).
  destruct (forallb key_is_str keys) eqn:E; split; try discriminate.
  - intros _. eauto.
  - auto.
  - intros [ks [H H']]. injection H as <-. congruence.
Qed.

Lemma kwargs_total : forall v, validate_kwargs v = Ok \/ validate_kwargs v = Raise ProtocolError.
Proof. intros v. unfold validate_kwargs. destruct v; val_cbn; auto. destruct (forallb key_is_str keys); auto. Qed.

Lemma kwargs_accepts : forall v, validate_kwargs v = Ok <-> v = UNone \/ exists ks, v = UDict ks /\ forallb key_is_str ks = true.
Proof.
  intros v. unfold validate_kwargs. destruct v; val_cbn;
    try (split; [discriminate | intros [H | [ks [H _]]]; discriminate]).
  - split; auto.
  - destruct (forallb key_is_str keys) eqn:E; split; try discriminate.
    + intros _. right. eauto.
    + auto.
    + intros [H | [ks [H H']]]; [discriminate|]. injection H as <-. congruence.
Qed.

Lemma category_none_nonstr : forall v, type_is_str v = false -> identify_realm_name_category v = None.
Proof. destruct v; simpl; auto. discriminate. Qed.

Lemma category_some_iff_realm : forall v, identify_realm_name_category v <> None <-> check_or_raise_realm_name v true = Ok.
Proof.
  intros v. rewrite realm_accepts. destruct v; cbn [identify_realm_name_category];
    try (split; [congruence | intros [s [H _]]; discriminate]).
  destruct (pmatch PRealmName s) eqn:A.
  - split.
    + intros _. exists s. rewrite A. auto.
    + intros _. destruct (pmatch PRealmNameEns s); [discriminate|].
      destruct (pmatch PRealmNameEnsReverse s); discriminate.
  - destruct (pmatch PRealmNameEth s) eqn:B.
    + split; [|discriminate]. intros _. exists s. rewrite A, B. auto.
    + split; [congruence|]. intros [s' [E H]]. injection E as <-. rewrite A, B in H. discriminate.
Qed.

Lemma enc_valid_str : forall std v, is_valid_enc std v = true ->
  exists s, v = UStr s /\ (In s std \/ pmatch PCustomAttribute s = true).
Proof.
  intros std v. unfold is_valid_enc. destruct v; try discriminate. intros H. exists s. split; auto.
  apply orb_true_iff in H. destruct H as [H | H]; auto. left. apply existsb_exists in H.
  destruct H as [x [Hx E]]. apply str_eqb_eq in E. subst. auto.
Qed.

(* ================================================================================================ *)
(* TODAY: what message.py says now -- every pattern uses \d (Unicode) and ends in `$`                 *)
(* (after a repair of F-C08-1 / F-C08-4 this part is replaced by coq/Scratch/C08Uri_after_fix)         *)
(* ================================================================================================ *)
Lemma shape_realm_name : pat_realm_name = mk_realm_name alpha_cls (realm_cls cat_digit).
Proof. reflexivity. Qed.
Lemma shape_realm_name_eth : pat_realm_name_eth = mk_prefixed (hex_cls cat_digit) 40 40 str_0x.
Proof. reflexivity. Qed.
Lemma shape_realm_name_ens : pat_realm_name_ens = mk_suffixed (ens_cls cat_digit) 2 250 str_dot_eth.
Proof. reflexivity. Qed.
Lemma shape_realm_name_ens_reverse : pat_realm_name_ens_reverse = mk_prefixed (ens_cls cat_digit) 2 250 str_eth_dot.
Proof. reflexivity. Qed.
Lemma shape_strict_empty : pat_strict_empty = mk_empty false (strict_cls cat_digit).
Proof. reflexivity. Qed.
Lemma shape_loose_empty : pat_loose_empty = mk_empty true loose_cls.
Proof. reflexivity. Qed.
Lemma shape_strict_non_empty : pat_strict_non_empty = mk_non_empty false (strict_cls cat_digit).
Proof. reflexivity. Qed.
Lemma shape_loose_non_empty : pat_loose_non_empty = mk_non_empty true loose_cls.
Proof. reflexivity. Qed.
Lemma shape_strict_last_empty : pat_strict_last_empty = mk_last_empty false (strict_cls cat_digit).
Proof. reflexivity. Qed.
Lemma shape_loose_last_empty : pat_loose_last_empty = mk_last_empty true loose_cls.
Proof. reflexivity. Qed.
Lemma shape_custom_attribute : pat_custom_attribute = mk_custom lower_cls (strict_cls cat_digit).
Proof. reflexivity. Qed.

(* every pattern ends in `$` today *)
Lemma all_ends_dollar : forall k, fst (pat_of k) = EndDollar.
Proof. destruct k; reflexivity. Qed.

Lemma cat_digit_nodot : in_ranges cat_digit dot = false.
Proof. vm_compute. reflexivity. Qed.

(* EXACT: what <PATTERN>.match accepts *)
Lemma pm_exact : forall k s, pmatch k s = dollar_closure (uri_spec_unicode k) s.
Proof.
  exact (pm_exact_D cat_digit EndDollar cat_digit_nodot shape_realm_name shape_realm_name_eth shape_realm_name_ens
           shape_realm_name_ens_reverse shape_strict_empty shape_loose_empty shape_strict_non_empty
           shape_loose_non_empty shape_strict_last_empty shape_loose_last_empty shape_custom_attribute all_ends_dollar).
Qed.

Lemma ascii_digit_unicode : forall c, ascii_digit c = true -> unicode_digit c = true.
Proof.
  intros c H. unfold unicode_digit.
  assert (E : cat_digit = (48, 57) :: tl cat_digit) by (vm_compute; reflexivity).
  rewrite E. unfold in_ranges. simpl existsb. unfold ascii_digit, between in H. unfold in_range. simpl fst. simpl snd.
  rewrite H. auto.
Qed.

Lemma digits_ascii_only_spec : forall s, digits_ascii_only s = true -> forall c, In c s -> unicode_digit c = ascii_digit c.
Proof.
  intros s H c Hc. unfold digits_ascii_only in H. rewrite forallb_forall in H. specialize (H c Hc).
  destruct (ascii_digit c) eqn:A.
  - apply ascii_digit_unicode. auto.
  - rewrite orb_false_r in H. apply negb_true_iff in H. auto.
Qed.

(* PARTIAL: on strings without a final line feed and without non-ASCII decimal digits, pattern = WAMP grammar *)
Lemma pm_partial : forall k s, no_final_newline s = true -> digits_ascii_only s = true -> pmatch k s = uri_spec k s.
Proof.
  intros k s Hn Hd. rewrite pm_exact. unfold dollar_closure, no_final_newline, ends_nl in *.
  destruct (strip_final_nl s); [discriminate|]. rewrite orb_false_r.
  apply grammar_ext_in. apply digits_ascii_only_spec. auto.
Qed.

(* the loose patterns have no \d *)
Lemma pm_partial_loose : forall k s, (k = PLooseEmpty \/ k = PLooseNonEmpty \/ k = PLooseLastEmpty) ->
  no_final_newline s = true -> pmatch k s = uri_spec k s.
Proof.
  intros k s Hk Hn. rewrite pm_exact. unfold dollar_closure, no_final_newline, ends_nl in *.
  destruct (strip_final_nl s); [discriminate|]. rewrite orb_false_r.
  destruct Hk as [-> | [-> | ->]]; reflexivity.
Qed.

(* COMPLETE: everything in the WAMP grammar is accepted *)
Lemma pm_complete : forall k s, uri_spec k s = true -> pmatch k s = true.
Proof.
  intros k s H. rewrite pm_exact. unfold dollar_closure. apply orb_true_iff. left.
  revert H. apply grammar_mono. intros c _. apply ascii_digit_unicode.
Qed.

(* REFUTED: full-strength equality fails for every pattern; the witness is accepted by the code and not in the grammar *)
Definition nl_witness (k : pat_name) : list N :=
  match k with
  | PRealmName => [97; 97; 97; 10]
  | PRealmNameEth => str_0x ++ repeat 48 40 ++ [10]
  | PRealmNameEns => [97; 97] ++ str_dot_eth ++ [10]
  | PRealmNameEnsReverse => str_eth_dot ++ [97; 97; 10]
  | PStrictEmpty | PLooseEmpty | PStrictLastEmpty | PLooseLastEmpty => [10]
  | PStrictNonEmpty | PLooseNonEmpty => [97; 10]
  | PCustomAttribute => str_x_ ++ [10]
  end.

Lemma pm_refuted_nl : forall k, pmatch k (nl_witness k) = true /\ uri_spec k (nl_witness k) = false.
Proof. destruct k; vm_compute; split; reflexivity. Qed.

Lemma pm_refuted : forall k, ~ (forall s, pmatch k s = uri_spec k s).
Proof. intros k H. destruct (pm_refuted_nl k) as [A B]. rewrite H in A. congruence. Qed.

Definition uses_backslash_d (k : pat_name) : bool :=
  match k with PLooseEmpty | PLooseNonEmpty | PLooseLastEmpty => false | _ => true end.

(* U+0663 ARABIC-INDIC DIGIT THREE *)
Definition digit_witness (k : pat_name) : list N :=
  match k with
  | PRealmName => [97; 97; 1635]
  | PRealmNameEth => str_0x ++ repeat 1635 40
  | PRealmNameEns => [97; 1635] ++ str_dot_eth
  | PRealmNameEnsReverse => str_eth_dot ++ [97; 1635]
  | PCustomAttribute => str_x_ ++ [97; 1635]
  | _ => [1635]
  end.

Lemma pm_refuted_digit : forall k, uses_backslash_d k = true ->
  no_final_newline (digit_witness k) = true /\ pmatch k (digit_witness k) = true /\ uri_spec k (digit_witness k) = false.
Proof. destruct k; intros H; try discriminate H; vm_compute; repeat split; reflexivity. Qed.

(* ------------------------------------------------------------------------------------------------ *)
(* corollaries in the form used by Props/C08Uri.v                                                    *)
(* ------------------------------------------------------------------------------------------------ *)
Lemma pm_partial_loose_empty : forall s, no_final_newline s = true -> pmatch PLooseEmpty s = uri_spec PLooseEmpty s.
Proof. intros. apply pm_partial_loose; auto. Qed.
Lemma pm_partial_loose_non_empty : forall s, no_final_newline s = true -> pmatch PLooseNonEmpty s = uri_spec PLooseNonEmpty s.
Proof. intros. apply pm_partial_loose; auto. Qed.
Lemma pm_partial_loose_last_empty : forall s, no_final_newline s = true -> pmatch PLooseLastEmpty s = uri_spec PLooseLastEmpty s.
Proof. intros. apply pm_partial_loose; auto. Qed.

(* "never accepts a grammar-violating URI": full strength is false, the clean-string part holds *)
Definition uri_never_accepts_invalid : Prop :=
  forall v st aec ale an, check_or_raise_uri v st aec ale an = Ok ->
    (v = UNone /\ an = true) \/ exists s, v = UStr s /\ uri_spec (select_uri_pat st aec ale) s = true.

Definition str_com_foo_nl : list N := [99; 111; 109; 46; 102; 111; 111; 10].      (* "com.foo\n" *)
Definition str_com_foo_d3 : list N := [99; 111; 109; 46; 102; 111; 111; 1635].    (* "com.foo" U+0663 *)

Lemma uri_never_accepts_invalid_refuted : ~ uri_never_accepts_invalid.
Proof.
  intros H. destruct (H (UStr str_com_foo_nl) true false false false) as [[E _] | [s [E S]]].
  - vm_compute. reflexivity.
  - discriminate.
  - injection E as <-. vm_compute in S. discriminate.
Qed.

Lemma uri_accepts_invalid_newline : forall st aec ale an,
  check_or_raise_uri (UStr str_com_foo_nl) st aec ale an = Ok /\ uri_spec (select_uri_pat st aec ale) str_com_foo_nl = false.
Proof. intros [] [] [] []; vm_compute; split; reflexivity. Qed.

Lemma uri_accepts_invalid_digit : forall aec ale an,
  check_or_raise_uri (UStr str_com_foo_d3) true aec ale an = Ok /\ uri_spec (select_uri_pat true aec ale) str_com_foo_d3 = false.
Proof. intros [] [] []; vm_compute; split; reflexivity. Qed.

Lemma uri_never_accepts_invalid_partial : forall v st aec ale an,
  check_or_raise_uri v st aec ale an = Ok ->
  (v = UNone /\ an = true) \/
  exists s, v = UStr s /\
    (no_final_newline s = true -> digits_ascii_only s = true -> uri_spec (select_uri_pat st aec ale) s = true) /\
    dollar_closure (uri_spec_unicode (select_uri_pat st aec ale)) s = true.
Proof.
  intros v st aec ale an H. apply uri_accepts in H. destruct H as [H | [s [E H]]]; auto.
  right. exists s. split; auto. split.
  - intros Hn Hd. rewrite <- pm_partial; auto.
  - rewrite <- pm_exact. auto.
Qed.

Lemma realm_never_accepts_invalid_partial : forall v ae,
  check_or_raise_realm_name v ae = Ok ->
  exists s, v = UStr s /\
    (no_final_newline s = true -> digits_ascii_only s = true ->
     uri_spec PRealmName s = true \/ (ae = true /\ uri_spec PRealmNameEth s = true)).
Proof.
  intros v ae H. apply realm_accepts in H. destruct H as [s [E H]]. exists s. split; auto. intros Hn Hd.
  apply orb_true_iff in H. destruct H as [H | H].
  - left. rewrite <- pm_partial; auto.
  - apply andb_true_iff in H. destruct H as [H1 H2]. right. split; auto. rewrite <- pm_partial; auto.
Qed.

Lemma realm_accepts_invalid_newline : forall ae,
  check_or_raise_realm_name (UStr (nl_witness PRealmName)) ae = Ok /\ uri_spec PRealmName (nl_witness PRealmName) = false
  /\ uri_spec PRealmNameEth (nl_witness PRealmName) = false.
Proof. intros []; vm_compute; repeat split; reflexivity. Qed.
