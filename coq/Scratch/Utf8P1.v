From Coq Require Import NArith ZArith List Bool Lia.
From AV Require Import Model.Utf8 Gen.Utf8TablePy Gen.Utf8TableC Gen.Utf8Unrolled.
Import ListNotations.
Open Scope N_scope.

(* ---------- finite sweeps ---------- *)
Definition rangeN (n : nat) : list N := map N.of_nat (seq 0 n).

Lemma rangeN_in n x : x < N.of_nat n -> In x (rangeN n).
Proof.
  intros H. unfold rangeN. apply in_map_iff. exists (N.to_nat x). split; [lia|].
  apply in_seq. lia.
Qed.

Definition sweep (f : N -> N -> bool) : bool :=
  forallb (fun s => forallb (fun b => f s b) (rangeN 256)) (rangeN 9).

Lemma sweep_spec f : sweep f = true -> forall s b, s < 9 -> b < 256 -> f s b = true.
Proof.
  unfold sweep. intros H s b Hs Hb.
  rewrite forallb_forall in H. specialize (H s (rangeN_in 9 s Hs)).
  rewrite forallb_forall in H. exact (H b (rangeN_in 256 b Hb)).
Qed.

Lemma tables_agree : dfa_py = dfa_c.
Proof. vm_compute. reflexivity. Qed.

Lemma table_py_length : length dfa_py = 400%nat.
Proof. vm_compute. reflexivity. Qed.
Lemma table_c_length : length dfa_c = 400%nat.
Proof. vm_compute. reflexivity. Qed.

Definition in_bounds (tbl : list N) (s b : N) : bool :=
  (b <? 256) && (nthN tbl b <? 16) && (256 + s * 16 + nthN tbl b <? 400).

Lemma sweep_bounds_py : sweep (in_bounds dfa_py) = true.
Proof. vm_compute. reflexivity. Qed.
Lemma sweep_bounds_c : sweep (in_bounds dfa_c) = true.
Proof. vm_compute. reflexivity. Qed.

Lemma sweep_py : sweep (fun s b => dfa_step dfa_py s b =? rfc_step s b) = true.
Proof. vm_compute. reflexivity. Qed.
Lemma sweep_c : sweep (fun s b => dfa_step dfa_c s b =? rfc_step s b) = true.
Proof. vm_compute. reflexivity. Qed.
Lemma sweep_unrolled : sweep (fun s b => unrolled_step unrolled_tbl s b =? rfc_step s b) = true.
Proof. vm_compute. reflexivity. Qed.

Lemma transitions_py s b : s < 9 -> b < 256 -> dfa_step dfa_py s b = rfc_step s b.
Proof. intros Hs Hb. apply N.eqb_eq. exact (sweep_spec _ sweep_py s b Hs Hb). Qed.
Lemma transitions_c s b : s < 9 -> b < 256 -> dfa_step dfa_c s b = rfc_step s b.
Proof. intros Hs Hb. apply N.eqb_eq. exact (sweep_spec _ sweep_c s b Hs Hb). Qed.
Lemma transitions_unrolled s b : s < 9 -> b < 256 -> unrolled_step unrolled_tbl s b = rfc_step s b.
Proof. intros Hs Hb. apply N.eqb_eq. exact (sweep_spec _ sweep_unrolled s b Hs Hb). Qed.

Lemma table_in_bounds_py s b : s < 9 -> b < 256 ->
  (N.to_nat b < length dfa_py)%nat /\ (N.to_nat (256 + s * 16 + nthN dfa_py b) < length dfa_py)%nat.
Proof.
  intros Hs Hb. pose proof (sweep_spec _ sweep_bounds_py s b Hs Hb) as H.
  unfold in_bounds in H. rewrite !andb_true_iff, !N.ltb_lt in H. rewrite table_py_length. lia.
Qed.
Lemma table_in_bounds_c s b : s < 9 -> b < 256 ->
  (N.to_nat b < length dfa_c)%nat /\ (N.to_nat (256 + s * 16 + nthN dfa_c b) < length dfa_c)%nat.
Proof.
  intros Hs Hb. pose proof (sweep_spec _ sweep_bounds_c s b Hs Hb) as H.
  unfold in_bounds in H. rewrite !andb_true_iff, !N.ltb_lt in H. rewrite table_c_length. lia.
Qed.

(* the compiled loop functions, observed on one octet from every state, against the hand-written C model *)
Definition obs_ok (step : N -> N -> N) (obs : list (N * N * N * N)) (s b : N) : bool :=
  match nth_error obs (N.to_nat (s * 256 + b)) with
  | Some (st, rc, cur, tot) =>
      let '(v', res) := c_validate_with step {| c_state := s; c_cur := 0; c_tot := 0; c_impl := 0 |} [b] in
      (c_state v' =? st) && ((res + 1)%Z =? Z.of_N rc)%Z && (c_cur v' =? cur) && (c_tot v' =? tot)
  | None => false
  end.
Lemma sweep_obs_table : sweep (obs_ok (dfa_step dfa_c) c_table_fn_obs) = true.
Proof. vm_compute. reflexivity. Qed.
Lemma sweep_obs_unrolled : sweep (obs_ok (unrolled_step unrolled_tbl) c_unrolled_fn_obs) = true.
Proof. vm_compute. reflexivity. Qed.

Lemma c_table_fn_observed s b : s < 9 -> b < 256 -> obs_ok (dfa_step dfa_c) c_table_fn_obs s b = true.
Proof. exact (sweep_spec _ sweep_obs_table s b). Qed.
Lemma c_unrolled_fn_observed s b : s < 9 -> b < 256 -> obs_ok (unrolled_step unrolled_tbl) c_unrolled_fn_obs s b = true.
Proof. exact (sweep_spec _ sweep_obs_unrolled s b). Qed.
