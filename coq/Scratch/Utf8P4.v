From Coq Require Import NArith ZArith List Bool Lia.
From AV Require Import Model.Utf8 Scratch.Utf8P2 Scratch.Utf8P3.
Import ListNotations.
Open Scope N_scope.

(* ---------- the reference result, characterised declaratively (no state machine in the statements) ---------- *)
Lemma ref_result_valid prev c :
  fst (fst (fst (ref_result prev c))) = true <-> viable (prev ++ c).
Proof.
  unfold ref_result. rewrite viable_iff_first_bad.
  destruct (first_bad 0 0 (prev ++ c)); cbn; split; congruence.
Qed.

Lemma not_viable_not_wf bs : first_bad 0 0 bs <> None -> wf_utf8 bs = false.
Proof.
  intros H. destruct (wf_utf8 bs) eqn:E; [|reflexivity].
  exfalso. apply H. apply viable_iff_first_bad. apply wf_viable. exact E.
Qed.

Lemma ref_result_ends prev c : snd (fst (fst (ref_result prev c))) = wf_utf8 (prev ++ c).
Proof.
  unfold ref_result. destruct (first_bad 0 0 (prev ++ c)) eqn:E; cbn; [|reflexivity].
  symmetry. apply not_viable_not_wf. congruence.
Qed.

Lemma ref_result_when_valid prev c e i t : ref_result prev c = (true, e, i, t) ->
  e = wf_utf8 (prev ++ c) /\ i = nlen c /\ t = nlen (prev ++ c).
Proof.
  unfold ref_result. destruct (first_bad 0 0 (prev ++ c)); intros H; inversion H; subst.
  rewrite nlen_app. auto.
Qed.

Lemma ref_result_when_invalid prev c e i t : ref_result prev c = (false, e, i, t) ->
  e = false /\ i = t - nlen prev /\ t < nlen (prev ++ c) /\
  viable (firstn (N.to_nat t) (prev ++ c)) /\
  (forall ext, wf_utf8 (firstn (N.to_nat t + 1) (prev ++ c) ++ ext) = false).
Proof.
  unfold ref_result. destruct (first_bad 0 0 (prev ++ c)) eqn:E; intros H; inversion H; subst.
  destruct (first_bad_offender _ _ E) as (H1 & H2 & H3). auto.
Qed.

(* the offender lies in the current chunk exactly when everything fed before was still viable *)
Lemma ref_result_offender_in_chunk prev c e i t :
  viable prev -> ref_result prev c = (false, e, i, t) -> nlen prev <= t /\ t = nlen prev + i /\ i < nlen c.
Proof.
  intros Hv. apply viable_iff_first_bad in Hv. unfold ref_result.
  rewrite first_bad_app, Hv. rewrite first_bad_shift.
  destruct (first_bad (run rfc_step 0 prev) 0 c) eqn:E; cbn; intros H; inversion H; subst.
  destruct (first_bad_some _ _ _ _ E) as (k & Hj & Hk & _). unfold nlen. lia.
Qed.

(* ---------- pure Python ---------- *)
Section Py.
  Variable tbl : list N.
  Hypothesis Htbl : forall s b, s < 9 -> b < 256 -> dfa_step tbl s b = rfc_step s b.

  Lemma py_validate_spec v ba : py_state v < 9 -> bytes_ok ba ->
    py_validate tbl v ba =
      match first_bad (py_state v) 0 ba with
      | Some j => ({| py_state := 1; py_index := py_index v + j |}, (false, false, j, py_index v + j))
      | None => ({| py_state := run rfc_step (py_state v) ba; py_index := py_index v + nlen ba |},
                 (true, run rfc_step (py_state v) ba =? 0, nlen ba, py_index v + nlen ba))
      end.
  Proof.
    intros Hs Hb. unfold py_validate. rewrite (py_loop_spec tbl Htbl) by assumption.
    destruct (first_bad (py_state v) 0 ba); reflexivity.
  Qed.

  (* the validator object after the octets [prev] have been fed, in whatever chunks *)
  Definition py_after (prev : list N) : pyv :=
    {| py_state := run rfc_step 0 prev;
       py_index := match first_bad 0 0 prev with None => nlen prev | Some i => i end |}.

  (* what one more call returns; it is the reference result except for an EMPTY chunk after a reject *)
  Definition py_expected (prev c : list N) : vresult :=
    match first_bad 0 0 prev, c with
    | Some i, [] => (true, false, 0, i)
    | _, _ => ref_result prev c
    end.

  Lemma py_step prev c : bytes_ok prev -> bytes_ok c ->
    py_validate tbl (py_after prev) c = (py_after (prev ++ c), py_expected prev c).
  Proof.
    intros Hp Hc. rewrite py_validate_spec by (cbn; [apply run_closed; lia | exact Hc]).
    unfold py_after, py_expected, ref_result. cbn [py_state py_index].
    rewrite first_bad_app, run_app. destruct (first_bad 0 0 prev) as [i|] eqn:E.
    - (* already rejected *)
      rewrite (first_bad_some_run _ _ _ _ E), run_reject.
      destruct (first_bad_some _ _ _ _ E) as (k & Hj & Hk & _).
      destruct c as [|b r].
      + cbn [first_bad run fold_left nlen length]. rewrite N.add_0_r. reflexivity.
      + cbn [first_bad]. rewrite rfc_step_reject. cbn [N.eqb Pos.eqb]. rewrite N.add_0_r.
        replace (i - nlen prev) with 0 by (unfold nlen; lia). reflexivity.
    - rewrite (first_bad_shift c _ (0 + nlen prev)).
      destruct (first_bad (run rfc_step 0 prev) 0 c) as [j|] eqn:Ec; cbn [option_map].
      + rewrite (first_bad_some_run _ _ _ _ Ec).
        replace (0 + nlen prev + j - nlen prev) with j by lia.
        replace (0 + nlen prev + j) with (nlen prev + j) by lia. reflexivity.
      + rewrite nlen_app. rewrite <- run_app, accepts_iff_wf. reflexivity.
  Qed.

  Fixpoint py_expected_feed (prev : list N) (chunks : list (list N)) : list vresult :=
    match chunks with
    | [] => []
    | c :: cs => py_expected prev c :: py_expected_feed (prev ++ c) cs
    end.

  Lemma py_feed_spec chunks : forall prev, bytes_ok prev -> Forall bytes_ok chunks ->
    feed (py_validate tbl) (py_after prev) chunks = (py_after (prev ++ concat chunks), py_expected_feed prev chunks).
  Proof.
    induction chunks as [|c cs IH]; intros prev Hp Hc.
    - cbn. rewrite app_nil_r. reflexivity.
    - inversion Hc; subst. cbn [feed concat py_expected_feed].
      rewrite py_step by assumption. rewrite IH by (try apply bytes_ok_app; auto).
      rewrite app_assoc. reflexivity.
  Qed.

  Lemma py_reset_after : py_reset = py_after [].
  Proof. reflexivity. Qed.

  Lemma py_single bs : bytes_ok bs -> py_validate tbl py_reset bs = (py_after bs, ref_result [] bs).
  Proof. intros H. rewrite py_reset_after. rewrite py_step by (auto using bytes_ok_nil). reflexivity. Qed.

  (* the object's state never depends on the chunking - not even on empty chunks *)
  Lemma py_chunking_state chunks : Forall bytes_ok chunks ->
    fst (feed (py_validate tbl) py_reset chunks) = fst (py_validate tbl py_reset (concat chunks)).
  Proof.
    intros H. rewrite py_reset_after at 1. rewrite py_feed_spec by (auto using bytes_ok_nil).
    rewrite py_single. reflexivity.
    unfold bytes_ok. apply Forall_concat. exact H.
  Qed.

  Lemma py_expected_feed_nonempty chunks : forall prev, Forall (fun c => c <> []) chunks ->
    py_expected_feed prev chunks = ref_feed prev chunks.
  Proof.
    induction chunks as [|c cs IH]; intros prev H; [reflexivity|]. inversion H; subst.
    cbn [py_expected_feed ref_feed]. rewrite IH by assumption. f_equal.
    unfold py_expected. destruct (first_bad 0 0 prev); [destruct c; [congruence|reflexivity]|reflexivity].
  Qed.

  (* every call's full 4-tuple is the reference one, for all chunkings without empty chunks *)
  Lemma py_chunking_nonempty chunks : Forall bytes_ok chunks -> Forall (fun c => c <> []) chunks ->
    snd (feed (py_validate tbl) py_reset chunks) = ref_feed [] chunks.
  Proof.
    intros Hb Hn. rewrite py_reset_after, py_feed_spec by (auto using bytes_ok_nil).
    apply py_expected_feed_nonempty. exact Hn.
  Qed.

  Lemma py_expected_feed_until chunks : forall prev, first_bad 0 0 prev = None ->
    until_invalid (py_expected_feed prev chunks) = until_invalid (ref_feed prev chunks).
  Proof.
    induction chunks as [|c cs IH]; intros prev H; [reflexivity|].
    cbn [py_expected_feed ref_feed until_invalid]. unfold py_expected at 1. rewrite H.
    destruct (fst (fst (fst (ref_result prev c)))) eqn:E; [|reflexivity].
    f_equal. apply IH. apply viable_iff_first_bad. apply ref_result_valid. exact E.
  Qed.

  (* up to and including the first call that reports invalid: all chunkings, empty chunks included *)
  Lemma py_chunking_until chunks : Forall bytes_ok chunks ->
    until_invalid (snd (feed (py_validate tbl) py_reset chunks)) = until_invalid (ref_feed [] chunks).
  Proof.
    intros Hb. rewrite py_reset_after, py_feed_spec by (auto using bytes_ok_nil).
    apply py_expected_feed_until. reflexivity.
  Qed.

  (* after a reject, Python keeps rejecting every non-empty chunk at the same total index ... *)
  Lemma py_after_reject v b r : py_state v = 1 -> b < 256 ->
    py_validate tbl v (b :: r) = (v, (false, false, 0, py_index v)).
  Proof.
    intros Hs Hb. unfold py_validate. rewrite Hs, (py_loop_rejected tbl Htbl) by exact Hb.
    rewrite N.add_0_r. destruct v as [s i]. cbn in *. subst s. reflexivity.
  Qed.
  (* ... but reports valid for an empty one *)
  Lemma py_after_reject_empty v : py_state v = 1 -> py_validate tbl v [] = (v, (true, false, 0, py_index v)).
  Proof.
    intros Hs. unfold py_validate. cbn [py_loop nlen length]. rewrite Hs, N.add_0_r.
    destruct v as [s i]. cbn in *. subst s. reflexivity.
  Qed.
End Py.

(* ---------- NVX ---------- *)
Section Nvx.
  Variables tbl utbl : list N.
  Hypothesis Htbl : forall s b, s < 9 -> b < 256 -> dfa_step tbl s b = rfc_step s b.
  Hypothesis Hutbl : forall s b, s < 9 -> b < 256 -> unrolled_step utbl s b = rfc_step s b.

  Lemma c_validate_with_spec step v ba :
    (forall s b, s < 9 -> b < 256 -> step s b = rfc_step s b) ->
    c_state v < 9 -> c_state v <> 1 -> bytes_ok ba ->
    c_validate_with step v ba =
      match first_bad (c_state v) 0 ba with
      | Some j => ({| c_state := 1; c_cur := j; c_tot := c_tot v + j; c_impl := c_impl v |}, (-1)%Z)
      | None => ({| c_state := run rfc_step (c_state v) ba; c_cur := nlen ba; c_tot := c_tot v + nlen ba;
                    c_impl := c_impl v |},
                 if run rfc_step (c_state v) ba =? 0 then 0%Z else 1%Z)
      end.
  Proof.
    intros Hstep Hs H1 Hb. unfold c_validate_with. rewrite (c_loop_spec step Hstep) by assumption.
    destruct (first_bad (c_state v) 0 ba); reflexivity.
  Qed.

  Lemma nvx_validate_spec v ba : c_state v < 9 -> c_state v <> 1 -> bytes_ok ba ->
    nvx_validate tbl utbl v ba =
      match first_bad (c_state v) 0 ba with
      | Some j => ({| c_state := 1; c_cur := j; c_tot := c_tot v + j; c_impl := c_impl v |},
                   (false, false, j, c_tot v + j))
      | None => ({| c_state := run rfc_step (c_state v) ba; c_cur := nlen ba; c_tot := c_tot v + nlen ba;
                    c_impl := c_impl v |},
                 (true, run rfc_step (c_state v) ba =? 0, nlen ba, c_tot v + nlen ba))
      end.
  Proof.
    intros Hs H1 Hb. unfold nvx_validate, c_validate.
    destruct (c_impl v =? 2);
      (rewrite c_validate_with_spec by assumption;
       destruct (first_bad (c_state v) 0 ba); [reflexivity|];
       destruct (run rfc_step (c_state v) ba =? 0); reflexivity).
  Qed.

  (* entered in the reject state: the data is not looked at and the call reports "valid, incomplete" *)
  Lemma nvx_after_reject v ba : c_state v = 1 ->
    nvx_validate tbl utbl v ba =
      ({| c_state := 1; c_cur := nlen ba; c_tot := c_tot v + nlen ba; c_impl := c_impl v |},
       (true, false, nlen ba, c_tot v + nlen ba)).
  Proof.
    intros Hs. unfold nvx_validate, c_validate, c_validate_with. rewrite Hs.
    destruct (c_impl v =? 2); rewrite c_loop_rejected; reflexivity.
  Qed.

  (* the object after the still-viable octets [prev] *)
  Definition c_mid (prev : list N) (v : cv) : Prop :=
    c_state v = run rfc_step 0 prev /\ c_tot v = nlen prev.

  Lemma nvx_step prev v c : first_bad 0 0 prev = None -> c_mid prev v -> bytes_ok c ->
    snd (nvx_validate tbl utbl v c) = ref_result prev c /\
    (first_bad 0 0 (prev ++ c) = None -> c_mid (prev ++ c) (fst (nvx_validate tbl utbl v c))) /\
    c_impl (fst (nvx_validate tbl utbl v c)) = c_impl v.
  Proof.
    intros Hp [Hs Ht] Hc.
    assert (H9 : c_state v < 9) by (rewrite Hs; apply run_closed; lia).
    assert (H1 : c_state v <> 1) by (rewrite Hs; apply (first_bad_none prev 0 0); [lia|exact Hp]).
    rewrite nvx_validate_spec by assumption. unfold ref_result, c_mid.
    rewrite first_bad_app, Hp, (first_bad_shift c _ (0 + nlen prev)), Hs, Ht.
    destruct (first_bad (run rfc_step 0 prev) 0 c) as [j|] eqn:Ec; cbn [option_map fst snd c_state c_tot c_impl].
    - repeat split; [|discriminate].
      replace (0 + nlen prev + j - nlen prev) with j by lia.
      replace (0 + nlen prev + j) with (nlen prev + j) by lia. reflexivity.
    - repeat split.
      + rewrite <- run_app, accepts_iff_wf. reflexivity.
      + rewrite run_app. reflexivity.
      + rewrite nlen_app. reflexivity.
  Qed.

  Lemma nvx_chunking_until_gen chunks : forall prev v, first_bad 0 0 prev = None -> c_mid prev v ->
    Forall bytes_ok chunks ->
    until_invalid (snd (feed (nvx_validate tbl utbl) v chunks)) = until_invalid (ref_feed prev chunks).
  Proof.
    induction chunks as [|c cs IH]; intros prev v Hp Hm Hb; [reflexivity|]. inversion Hb; subst.
    destruct (nvx_step prev v c Hp Hm) as (Hr & Hn & _); [assumption|].
    cbn [feed ref_feed]. destruct (nvx_validate tbl utbl v c) as [v1 r] eqn:Ev. cbn [fst snd] in Hr, Hn.
    destruct (feed (nvx_validate tbl utbl) v1 cs) as [v2 rs] eqn:Ef. cbn [snd until_invalid].
    subst r. destruct (fst (fst (fst (ref_result prev c)))) eqn:E; [|reflexivity].
    f_equal. assert (Hv : first_bad 0 0 (prev ++ c) = None)
      by (apply viable_iff_first_bad; apply ref_result_valid; exact E).
    specialize (IH (prev ++ c) v1 Hv (Hn Hv) H2). rewrite Ef in IH. exact IH.
  Qed.

  Lemma c_mid_fresh v : c_state v = 0 -> c_tot v = 0 -> c_mid [] v.
  Proof. intros H1 H2. split; assumption. Qed.

  Lemma nvx_chunking_until v chunks : c_state v = 0 -> c_tot v = 0 -> Forall bytes_ok chunks ->
    until_invalid (snd (feed (nvx_validate tbl utbl) v chunks)) = until_invalid (ref_feed [] chunks).
  Proof. intros H1 H2 Hb. apply nvx_chunking_until_gen; [reflexivity|apply c_mid_fresh; assumption|exact Hb]. Qed.

  Lemma nvx_single v bs : c_state v = 0 -> c_tot v = 0 -> bytes_ok bs ->
    snd (nvx_validate tbl utbl v bs) = ref_result [] bs.
  Proof.
    intros H1 H2 Hb. destruct (nvx_step [] v bs) as (Hr & _); [reflexivity|apply c_mid_fresh; assumption|exact Hb|].
    exact Hr.
  Qed.
End Nvx.
