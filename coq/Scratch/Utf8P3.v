From Coq Require Import NArith ZArith List Bool Lia.
From AV Require Import Model.Utf8 Scratch.Utf8P2.
Import ListNotations.
Open Scope N_scope.

Lemma nlen_nil : nlen [] = 0. Proof. reflexivity. Qed.
Lemma nlen_cons b r : nlen (b :: r) = 1 + nlen r.
Proof. unfold nlen. cbn [length]. lia. Qed.
Lemma nlen_app a b : nlen (a ++ b) = nlen a + nlen b.
Proof. unfold nlen. rewrite app_length. lia. Qed.

Lemma bytes_ok_cons b r : bytes_ok (b :: r) <-> b < 256 /\ bytes_ok r.
Proof. unfold bytes_ok. split; [intros H; inversion H; auto | intros [H1 H2]; constructor; auto]. Qed.
Lemma bytes_ok_app a b : bytes_ok (a ++ b) <-> bytes_ok a /\ bytes_ok b.
Proof. unfold bytes_ok. apply Forall_app. Qed.
Lemma bytes_ok_nil : bytes_ok []. Proof. constructor. Qed.

(* ---------- first_bad: the reference machine's first rejecting offset ---------- *)
Lemma first_bad_shift bs : forall s i, first_bad s i bs = option_map (N.add i) (first_bad s 0 bs).
Proof.
  induction bs as [|b r IH]; intros s i; [reflexivity|]. cbn [first_bad].
  destruct (rfc_step s b =? 1); [unfold option_map; f_equal; lia|].
  rewrite (IH _ (i + 1)), (IH _ (0 + 1)). destruct (first_bad (rfc_step s b) 0 r); unfold option_map; [f_equal; lia|reflexivity].
Qed.

Lemma first_bad_app a : forall s i b,
  first_bad s i (a ++ b) =
    match first_bad s i a with Some j => Some j | None => first_bad (run rfc_step s a) (i + nlen a) b end.
Proof.
  induction a as [|x a IH]; intros s i b.
  - cbn [app first_bad run fold_left]. rewrite nlen_nil, N.add_0_r. reflexivity.
  - cbn [app first_bad]. destruct (rfc_step s x =? 1); [reflexivity|].
    rewrite IH, nlen_cons. cbn [run fold_left]. replace (i + 1 + nlen a) with (i + (1 + nlen a)) by lia. reflexivity.
Qed.

(* no rejecting offset <-> the machine is not in the reject state at the end *)
Lemma first_bad_none bs : forall s i, s <> 1 -> (first_bad s i bs = None <-> run rfc_step s bs <> 1).
Proof.
  induction bs as [|b r IH]; intros s i Hs.
  - cbn. tauto.
  - cbn [first_bad run fold_left]. destruct (rfc_step s b =? 1) eqn:E.
    + apply N.eqb_eq in E. rewrite E. change (fold_left rfc_step r 1) with (run rfc_step 1 r).
      rewrite run_reject. split; [discriminate | congruence].
    + apply N.eqb_neq in E. apply IH. exact E.
Qed.

Lemma first_bad_some_run bs : forall s i j, first_bad s i bs = Some j -> run rfc_step s bs = 1.
Proof.
  induction bs as [|b r IH]; intros s i j H; [discriminate|].
  cbn [first_bad] in H. cbn [run fold_left]. destruct (rfc_step s b =? 1) eqn:E.
  - apply N.eqb_eq in E. rewrite E. apply run_reject.
  - eapply IH. exact H.
Qed.

(* position facts: i <= j < i + length, the prefix before j has no rejecting offset, the prefix including j rejects *)
Lemma first_bad_some bs : forall s i j, first_bad s i bs = Some j ->
  exists k : nat, j = i + N.of_nat k /\ (k < length bs)%nat /\
                  first_bad s i (firstn k bs) = None /\ run rfc_step s (firstn (S k) bs) = 1.
Proof.
  induction bs as [|b r IH]; intros s i j H; [discriminate|].
  cbn [first_bad] in H. destruct (rfc_step s b =? 1) eqn:E.
  - inversion H; subst j. exists 0%nat. cbn. apply N.eqb_eq in E. repeat split; [lia|lia|exact E].
  - destruct (IH _ _ _ H) as (k & Hj & Hk & Hn & Hr).
    exists (S k). repeat split.
    + lia.
    + cbn [length]. lia.
    + cbn [firstn first_bad]. rewrite E. exact Hn.
    + cbn [firstn run fold_left]. exact Hr.
Qed.

(* ---------- viability ---------- *)
Definition completion (s : N) : list N :=
  match s with
  | 2 => [0x80] | 3 => [0x80; 0x80] | 4 => [0xA0; 0x80] | 5 => [0x80; 0x80]
  | 6 => [0x90; 0x80; 0x80] | 7 => [0x80; 0x80; 0x80] | 8 => [0x80; 0x80; 0x80]
  | _ => []
  end.

Lemma completion_ok s : s < 9 -> s <> 1 -> bytes_ok (completion s) /\ run rfc_step s (completion s) = 0.
Proof.
  intros Hs H1. cases_s s Hs; try congruence; (split; [repeat constructor | reflexivity]).
Qed.

Lemma wf_app_run a b : wf_utf8 (a ++ b) = wf_from (run rfc_step 0 a) b.
Proof. change (wf_utf8 (a ++ b)) with (wf_from 0 (a ++ b)). apply wf_from_run. lia. Qed.

Lemma viable_iff_run bs : viable bs <-> run rfc_step 0 bs <> 1.
Proof.
  unfold viable. split.
  - intros (ext & _ & H) E. rewrite wf_app_run, E in H. discriminate.
  - intros H. assert (Hs : run rfc_step 0 bs < 9) by (apply run_closed; lia).
    destruct (completion_ok _ Hs H) as [Hb Hc].
    exists (completion (run rfc_step 0 bs)). split; [exact Hb|].
    rewrite <- accepts_iff_wf, run_app, Hc. reflexivity.
Qed.

(* strong negative: once the machine rejects, NO continuation (octets or not) is well-formed *)
Lemma rejected_never_wf bs : run rfc_step 0 bs = 1 -> forall ext, wf_utf8 (bs ++ ext) = false.
Proof. intros H ext. rewrite wf_app_run, H. reflexivity. Qed.

Lemma viable_iff_first_bad bs : viable bs <-> first_bad 0 0 bs = None.
Proof. rewrite viable_iff_run. symmetry. apply first_bad_none. lia. Qed.

Lemma wf_viable bs : wf_utf8 bs = true -> viable bs.
Proof. intros H. exists []. split; [constructor|]. rewrite app_nil_r. exact H. Qed.

(* the reference result, characterised declaratively *)
Lemma first_bad_offender bs i : first_bad 0 0 bs = Some i ->
  i < nlen bs /\ viable (firstn (N.to_nat i) bs) /\
  (forall ext, wf_utf8 (firstn (N.to_nat i + 1) bs ++ ext) = false).
Proof.
  intros H. destruct (first_bad_some _ _ _ _ H) as (k & Hj & Hk & Hn & Hr).
  assert (N.to_nat i = k) as -> by lia. repeat split.
  - unfold nlen. lia.
  - apply viable_iff_first_bad. exact Hn.
  - replace (k + 1)%nat with (S k) by lia. apply rejected_never_wf. exact Hr.
Qed.

(* ---------- the loops, given any step function that agrees with the reference on states < 9, octets < 256 ---------- *)
Section Loops.
  Variable step : N -> N -> N.
  Hypothesis Hstep : forall s b, s < 9 -> b < 256 -> step s b = rfc_step s b.

  Lemma c_loop_spec ba : forall s i, s < 9 -> s <> 1 -> bytes_ok ba ->
    c_loop step s i ba =
      match first_bad s i ba with Some j => (1, Some j) | None => (run rfc_step s ba, None) end.
  Proof.
    induction ba as [|b r IH]; intros s i Hs H1 Hb; [reflexivity|].
    apply bytes_ok_cons in Hb. destruct Hb as [Hb Hr].
    cbn [c_loop first_bad run fold_left]. rewrite (proj2 (N.eqb_neq s 1)) by exact H1.
    rewrite Hstep by assumption. destruct (rfc_step s b =? 1) eqn:E.
    - apply N.eqb_eq in E. rewrite E. reflexivity.
    - apply N.eqb_neq in E. apply IH; [apply rfc_step_closed|exact E|exact Hr].
  Qed.

  (* entered in the reject state, the C loop does not look at the data at all *)
  Lemma c_loop_rejected ba i : c_loop step 1 i ba = (1, None).
  Proof. destruct ba; reflexivity. Qed.
End Loops.

Section PyLoop.
  Variable tbl : list N.
  Hypothesis Htbl : forall s b, s < 9 -> b < 256 -> dfa_step tbl s b = rfc_step s b.

  Lemma py_loop_spec ba : forall s i, s < 9 -> bytes_ok ba ->
    py_loop tbl s i ba =
      match first_bad s i ba with Some j => (1, Some j) | None => (run rfc_step s ba, None) end.
  Proof.
    induction ba as [|b r IH]; intros s i Hs Hb; [reflexivity|].
    apply bytes_ok_cons in Hb. destruct Hb as [Hb Hr].
    cbn [py_loop first_bad run fold_left]. rewrite Htbl by assumption.
    destruct (rfc_step s b =? 1) eqn:E.
    - apply N.eqb_eq in E. rewrite E. reflexivity.
    - apply IH; [apply rfc_step_closed|exact Hr].
  Qed.

  (* entered in the reject state with a non-empty chunk, Python bails out at offset 0 *)
  Lemma py_loop_rejected b r i : b < 256 -> py_loop tbl 1 i (b :: r) = (1, Some i).
  Proof. intros Hb. cbn [py_loop]. rewrite Htbl by (lia || exact Hb). reflexivity. Qed.
End PyLoop.
