From Coq Require Import NArith ZArith List Bool Lia.
From AV Require Import Model.Utf8.
Import ListNotations.
Open Scope N_scope.

(* ---------- the reference machine ---------- *)
Definition run (step : N -> N -> N) (s : N) (bs : list N) : N := fold_left step bs s.

Lemma run_app step s a b : run step s (a ++ b) = run step (run step s a) b.
Proof. unfold run. apply fold_left_app. Qed.

Ltac cases_s s H :=
  let E := fresh "E" in
  assert (E : s = 0 \/ s = 1 \/ s = 2 \/ s = 3 \/ s = 4 \/ s = 5 \/ s = 6 \/ s = 7 \/ s = 8) by lia;
  clear H; destruct E as [E|[E|[E|[E|[E|[E|[E|[E|E]]]]]]]]; subst s.

(* decide every comparison whose truth follows from the hypotheses by lia *)
Ltac decide_cmps :=
  repeat match goal with
  | |- context [?a <=? ?b] =>
      first [ rewrite (proj2 (N.leb_le a b)) by lia | rewrite (proj2 (N.leb_gt a b)) by lia ]
  | |- context [?a =? ?b] =>
      first [ rewrite (proj2 (N.eqb_eq a b)) by lia | rewrite (proj2 (N.eqb_neq a b)) by lia ]
  end.

Ltac split_cmps :=
  repeat match goal with
  | |- context [?a <=? ?b] => let E := fresh "E" in destruct (a <=? b) eqn:E; [apply N.leb_le in E | apply N.leb_gt in E]
  | |- context [?a =? ?b] => let E := fresh "E" in destruct (a =? b) eqn:E; [apply N.eqb_eq in E | apply N.eqb_neq in E]
  end.

Lemma rfc_step_closed s b : rfc_step s b < 9.
Proof.
  unfold rfc_step, inr.
  destruct s as [|p]; [|do 4 (try destruct p as [p|p|]); try lia];
  split_cmps; cbn; lia.
Qed.

Lemma rfc_step_reject b : rfc_step 1 b = 1.
Proof. reflexivity. Qed.

Lemma run_reject bs : run rfc_step 1 bs = 1.
Proof. induction bs as [|b r IH]; [reflexivity|]. exact IH. Qed.

Lemma run_closed bs : forall s, s < 9 -> run rfc_step s bs < 9.
Proof.
  induction bs as [|b r IH]; intros s Hs; [exact Hs|]. cbn. apply IH. apply rfc_step_closed.
Qed.

(* what state s still expects before the next code point boundary *)
Definition wf_from (s : N) (bs : list N) : bool :=
  match s with
  | 0 => wf_utf8 bs
  | 2 => match bs with b1 :: r => is_tail b1 && wf_utf8 r | _ => false end
  | 3 => match bs with b1 :: b2 :: r => is_tail b1 && is_tail b2 && wf_utf8 r | _ => false end
  | 4 => match bs with b1 :: b2 :: r => inr 0xA0 0xBF b1 && is_tail b2 && wf_utf8 r | _ => false end
  | 5 => match bs with b1 :: b2 :: r => inr 0x80 0x9F b1 && is_tail b2 && wf_utf8 r | _ => false end
  | 6 => match bs with b1 :: b2 :: b3 :: r => inr 0x90 0xBF b1 && is_tail b2 && is_tail b3 && wf_utf8 r | _ => false end
  | 7 => match bs with b1 :: b2 :: b3 :: r => is_tail b1 && is_tail b2 && is_tail b3 && wf_utf8 r | _ => false end
  | 8 => match bs with b1 :: b2 :: b3 :: r => inr 0x80 0x8F b1 && is_tail b2 && is_tail b3 && wf_utf8 r | _ => false end
  | _ => false
  end.

Lemma wf_from_nil s : s < 9 -> wf_from s [] = (s =? 0).
Proof. intros Hs. cases_s s Hs; reflexivity. Qed.

Lemma wf_from_reject bs : wf_from 1 bs = false.
Proof. reflexivity. Qed.

Lemma wf_utf8_cons b0 r0 :
  wf_utf8 (b0 :: r0) =
    ((b0 <=? 0x7F) && wf_utf8 r0
    || match r0 with
       | [] => false
       | b1 :: r1 =>
         inr 0xC2 0xDF b0 && is_tail b1 && wf_utf8 r1
         || match r1 with
            | [] => false
            | b2 :: r2 =>
              ((b0 =? 0xE0) && inr 0xA0 0xBF b1 || inr 0xE1 0xEC b0 && is_tail b1
               || (b0 =? 0xED) && inr 0x80 0x9F b1 || inr 0xEE 0xEF b0 && is_tail b1)
              && is_tail b2 && wf_utf8 r2
              || match r2 with
                 | [] => false
                 | b3 :: r3 =>
                   ((b0 =? 0xF0) && inr 0x90 0xBF b1 || inr 0xF1 0xF3 b0 && is_tail b1
                    || (b0 =? 0xF4) && inr 0x80 0x8F b1)
                   && is_tail b2 && is_tail b3 && wf_utf8 r3
                 end
            end
       end).
Proof. reflexivity. Qed.

(* one octet of the reference machine consumes one octet of the grammar *)
Lemma wf_from_step s b r : s < 9 -> wf_from s (b :: r) = wf_from (rfc_step s b) r.
Proof.
  intros Hs. cases_s s Hs.
  - (* on a boundary: classify the lead octet *)
    unfold wf_from at 1. rewrite wf_utf8_cons. unfold rfc_step, inr.
    assert (C : b <= 0x7F \/ (0x80 <= b <= 0xC1) \/ (0xC2 <= b <= 0xDF) \/ b = 0xE0 \/ (0xE1 <= b <= 0xEC)
                \/ b = 0xED \/ (0xEE <= b <= 0xEF) \/ b = 0xF0 \/ (0xF1 <= b <= 0xF3) \/ b = 0xF4 \/ 0xF5 <= b) by lia.
    destruct C as [C|[C|[C|[C|[C|[C|[C|[C|[C|[C|C]]]]]]]]]]; try subst b;
      decide_cmps; cbn [andb orb wf_from];
      destruct r as [|b1 [|b2 [|b3 r3]]]; cbn [andb orb];
      rewrite ?andb_false_r, ?orb_false_r; try reflexivity.
  - reflexivity.
  - unfold wf_from at 1, rfc_step, is_tail. destruct (inr 128 191 b); reflexivity.
  - unfold wf_from at 1, rfc_step, is_tail. destruct (inr 128 191 b); destruct r as [|? [|? ?]]; reflexivity.
  - unfold wf_from at 1, rfc_step. destruct (inr 160 191 b); destruct r as [|? [|? ?]]; reflexivity.
  - unfold wf_from at 1, rfc_step. destruct (inr 128 159 b); destruct r as [|? [|? ?]]; reflexivity.
  - unfold wf_from at 1, rfc_step. destruct (inr 144 191 b); destruct r as [|? [|? ?]]; reflexivity.
  - unfold wf_from at 1, rfc_step, is_tail. destruct (inr 128 191 b); destruct r as [|? [|? ?]]; reflexivity.
  - unfold wf_from at 1, rfc_step. destruct (inr 128 143 b); destruct r as [|? [|? ?]]; reflexivity.
Qed.

Lemma wf_from_run bs : forall s ext, s < 9 -> wf_from s (bs ++ ext) = wf_from (run rfc_step s bs) ext.
Proof.
  induction bs as [|b r IH]; intros s ext Hs; [reflexivity|].
  cbn [app]. rewrite wf_from_step by exact Hs. cbn. apply IH. apply rfc_step_closed.
Qed.

Lemma accepts_iff_wf_from bs s : s < 9 -> (run rfc_step s bs =? 0) = wf_from s bs.
Proof.
  intros Hs. rewrite <- (app_nil_r bs) at 2. rewrite wf_from_run by exact Hs.
  rewrite wf_from_nil by (apply run_closed; exact Hs). reflexivity.
Qed.

Lemma accepts_iff_wf bs : (run rfc_step 0 bs =? 0) = wf_utf8 bs.
Proof. apply (accepts_iff_wf_from bs 0). lia. Qed.
