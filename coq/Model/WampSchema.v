(* Schema language for WAMP messages and the generic parse / marshal (definitions only).
   Mirrors src/autobahn/wamp/message.py: every <Class>.parse is
       length check; positional elements in index order (the options/details dict is one of them);
       [HELLO: roles]; application-payload block; options in source order; [WELCOME: roles, custom];
       the constructor (assert statements -> AssertionError); _validate_kwargs (ProtocolError)
   and every <Class>.marshal emits the positional attributes, a dict holding each option under its own
   condition, and the payload tail.  A class is a [schema] value (Model/WampMsg.v); this file gives
   the meaning of a schema:  [check] (first failing check, in source order), [extract] (the attribute
   values read off the wire list), [parse], [marshal], [norm] (what marshal drops), validity.
   URI / custom-attribute validators are Section variables: everything holds for every validator. *)
From Coq Require Import NArith ZArith List Bool String.
From AV Require Import Model.WampValue.
Import ListNotations.
Open Scope string_scope.
Open Scope Z_scope.

(* ---------- outcomes ---------- *)
Inductive exn := ProtocolError | InvalidUriError | AssertionError | TypeError.
Inductive res (A : Type) := Ok (a : A) | Raise (e : exn).
Arguments Ok {A} a.
Arguments Raise {A} e.

(* a check: None = passed, Some e = raises e *)
Definition chk := option exn.
Definition andthen (a b : chk) : chk := match a with Some e => Some e | None => b end.
Notation "a ;; b" := (andthen a b) (at level 61, right associativity).
Definition require (b : bool) (e : exn) : chk := if b then None else Some e.
Fixpoint chk_all {A} (f : A -> chk) (l : list A) : chk :=
  match l with [] => None | x :: r => f x ;; chk_all f r end.

Definition exn_eqb (a b : exn) : bool :=
  match a, b with
  | ProtocolError, ProtocolError | InvalidUriError, InvalidUriError
  | AssertionError, AssertionError | TypeError, TypeError => true
  | _, _ => false
  end.

(* ---------- URI flavours: check_or_raise_uri(strict, allow_empty_components, allow_last_empty) ---------- *)
Inductive uri_fl := LooseNonEmpty | LooseEmpty | LooseLastEmpty | StrictNonEmpty | StrictEmpty | StrictLastEmpty.

(* message.py: check_or_raise_id  `value < 0 or value > 9007199254740992` *)
Definition id_max : Z := 9007199254740992.

(* message.py: PAYLOAD_ENC_STANDARD_IDENTIFIERS / PAYLOAD_ENC_STANDARD_SERIALIZERS *)
Definition enc_algos : list string := ["cryptobox"; "mqtt"; "xbr"].
Definition enc_sers : list string := ["json"; "msgpack"; "cbor"; "ubjson"; "flatbuffers"].

Definition mem_str (s : str) (l : list string) : bool := existsb (fun x => str_eqb s (s2l x)) l.
Definition is_nil {A} (l : list A) : bool := match l with [] => true | _ => false end.
Definition getn (k : string) (d : list (key * value)) : value :=
  match dget (s2l k) d with Some x => x | None => VNull end.

(* ---------- schema syntax ---------- *)
(* positional element kinds *)
Inductive pkind :=
| PId                                   (* check_or_raise_id *)
| PUri (fl : uri_fl) (allow_none : bool) (* check_or_raise_uri *)
| PUriMatch                             (* Register.procedure: flavour chosen by the 'match' option *)
| PStr                                  (* `type(x) != str` -> ProtocolError (Challenge.method, Authenticate.signature) *)
| PExtra                                (* check_or_raise_extra on a positional dict that is not the options dict *)
| PReqType.                             (* Error.request_type *)

Inductive slot := SField (attr : string) (k : pkind) | SOpts.

(* option kinds: the validation applied when the key is present *)
Inductive okind :=
| OStr | OBool | OInt
| OIntGe (lo : Z)                       (* int and >= lo (timeout >= 0, concurrency >= 1) *)
| ODictT                                (* `type(x) != dict` only *)
| OEnum (l : list string)               (* str and member of the list *)
| OListInt | OListStr                   (* list and every element int / str *)
| OUri (fl : uri_fl)                    (* check_or_raise_uri -> InvalidUriError *)
| OFwd                                  (* the forward_for validator loop *)
| OAny                                  (* details.get(k): no validation at all (Welcome) *)
| OBoolEq                               (* Register.force_reregister: `x not in [True, False, None]` *)
| OBoolNone.                            (* role feature: None or bool (RoleFeatures._check_all_bool) *)

(* condition under which marshal() writes the key *)
Inductive mcond :=
| MNotNone                              (* if self.x is not None *)
| MTruthy                               (* if self.x *)
| MNeqDefault                           (* if self.x and self.x != DEFAULT *)
| MGatedBy (j : nat).                   (* if self.<option j>  -- conditional on ANOTHER attribute; used by no class
                                           since fix a9cc81d8 (Welcome.authmethod), kept so that such code is expressible *)

(* constructor assertion on the attribute *)
Inductive ckind := CNone | CStr | CDict | CFwd.

Record ospec := {
  o_key : string;          (* key in the options/details dict *)
  o_attr : string;         (* attribute name of the message object *)
  o_kind : okind;
  o_default : value;       (* attribute value when the key is absent *)
  o_mc : mcond;
  o_reqif : option nat;    (* `elif <option j>: raise ProtocolError`: key mandatory when option j is truthy *)
  o_ctor : ckind }.

(* application payload block *)
Record pcfg := {
  pc_str_payload : bool;   (* `type(wmsg[i]) in [str, bytes]` (Publish, Call, Result) vs `== bytes` *)
  pc_publish : bool }.     (* Publish: args in [list,str,bytes], kwargs in [dict,str,bytes] *)

Inductive special := SpNone | SpHello | SpWelcome.

Record schema := {
  s_name : string;
  s_type : Z;
  s_slots : list slot;          (* wmsg[1..] *)
  s_opts : list ospec;          (* in the order parse() examines them *)
  s_optdict_optional : bool;    (* the dict is the last element and may be missing (lengths n, n+1) *)
  s_payload : option pcfg;
  s_special : special;
  s_combo : bool }.             (* Unsubscribed/Unregistered constructor assert on request vs subscription *)

(* ---------- message objects ---------- *)
Record payload := {
  p_args : value; p_kwargs : value; p_payload : value;
  p_enc_algo : value; p_enc_key : value; p_enc_ser : value }.
Definition null_pl : payload := Build_payload VNull VNull VNull VNull VNull VNull.

Record msg := {
  m_pos : list value;                   (* one per SField slot *)
  m_opts : list value;                  (* one per option, aligned with s_opts *)
  m_pl : payload;
  m_roles : list (key * list value);    (* role name -> feature values aligned with the role's feature list *)
  m_custom : list (key * value) }.      (* Welcome.custom *)

(* role.py: ROLE_NAME_TO_CLASS and the keyword parameters of each Role*Features.__init__ *)
Definition hello_roles : list (string * list string) :=
  [("subscriber", ["publisher_identification"; "publication_trustlevels"; "pattern_based_subscription";
                   "subscription_revocation"; "event_history"; "payload_transparency";
                   "payload_encryption_cryptobox"]);
   ("publisher", ["publisher_identification"; "subscriber_blackwhite_listing"; "publisher_exclusion";
                  "payload_transparency"; "x_acknowledged_event_delivery"; "payload_encryption_cryptobox"]);
   ("caller", ["caller_identification"; "call_timeout"; "call_canceling"; "progressive_call_results";
               "payload_transparency"; "payload_encryption_cryptobox"]);
   ("callee", ["caller_identification"; "call_trustlevels"; "pattern_based_registration";
               "shared_registration"; "call_timeout"; "call_canceling"; "progressive_call_results";
               "registration_revocation"; "payload_transparency"; "payload_encryption_cryptobox"])].
Definition welcome_roles : list (string * list string) :=
  [("broker", ["publisher_identification"; "publication_trustlevels"; "pattern_based_subscription";
               "session_meta_api"; "subscription_meta_api"; "subscriber_blackwhite_listing";
               "publisher_exclusion"; "subscription_revocation"; "event_history"; "payload_transparency";
               "x_acknowledged_event_delivery"; "payload_encryption_cryptobox"; "event_retention"]);
   ("dealer", ["caller_identification"; "call_trustlevels"; "pattern_based_registration";
               "session_meta_api"; "registration_meta_api"; "shared_registration"; "call_timeout";
               "call_canceling"; "progressive_call_results"; "registration_revocation";
               "payload_transparency"; "testament_meta_api"; "payload_encryption_cryptobox"])].
Definition roles_cfg (sp : special) : list (string * list string) :=
  match sp with SpNone => [] | SpHello => hello_roles | SpWelcome => welcome_roles end.

Definition feature_spec (f : string) : ospec :=
  {| o_key := f; o_attr := f; o_kind := OBoolNone; o_default := VNull; o_mc := MNotNone;
     o_reqif := None; o_ctor := CNone |}.
Definition role_specs (feats : list string) : list ospec := map feature_spec feats.

Fixpoint find_role (cfg : list (string * list string)) (name : str) : option (list string) :=
  match cfg with
  | [] => None
  | (n, fs) :: r => if str_eqb name (s2l n) then Some fs else find_role r name
  end.

Definition match_kinds : list string := ["exact"; "prefix"; "wildcard"].
Definition error_request_types : list Z := [32; 34; 16; 64; 66; 48; 68].

Section Schema.
  Variable uri_ok : uri_fl -> str -> bool.
  Variable custom_ok : str -> bool.      (* _CUSTOM_ATTRIBUTE.match *)

  (* ---------- field validators ---------- *)
  (* message.py: check_or_raise_id *)
  Definition check_id (v : value) : chk :=
    match v with
    | VInt z => require ((0 <=? z) && (z <=? id_max)) ProtocolError
    | _ => Some ProtocolError
    end.

  (* message.py: check_or_raise_uri *)
  Definition check_uri (fl : uri_fl) (allow_none : bool) (v : value) : chk :=
    match v with
    | VNull => require allow_none InvalidUriError
    | VStr s => require (uri_ok fl s) InvalidUriError
    | _ => Some InvalidUriError
    end.

  (* message.py: check_or_raise_extra *)
  Definition check_extra (v : value) : chk :=
    match v with
    | VDict d => require (keys_all_str d) ProtocolError
    | _ => Some ProtocolError
    end.

  (* message.py: is_valid_enc_algo / is_valid_enc_serializer *)
  Definition valid_enc_algo (v : value) : bool :=
    match v with VStr s => mem_str s enc_algos || custom_ok s | _ => false end.
  Definition valid_enc_ser (v : value) : bool :=
    match v with VStr s => mem_str s enc_sers || custom_ok s | _ => false end.

  (* message.py, every parse() with forward_for (13 sites, after fix ea2362f8):
       valid = False
       if type(forward_for) == list:
           for ff in forward_for:
               if type(ff) != dict: break
               if "session" not in ff or type(ff["session"]) != int: break
               if "authid" not in ff or (ff["authid"] is not None and type(ff["authid"]) != str): break
               if "authrole" not in ff or type(ff["authrole"]) != str: break
           else:
               valid = True         <-- only when the loop ran to completion
       if not valid: raise ProtocolError *)
  Definition ff_entry_passes (ff : value) : bool :=
    match ff with
    | VDict d =>
        (match dget (s2l "session") d with Some (VInt _) => true | _ => false end)
        && (match dget (s2l "authid") d with Some VNull | Some (VStr _) => true | _ => false end)
        && (match dget (s2l "authrole") d with Some (VStr _) => true | _ => false end)
    | _ => false
    end.
  Fixpoint ff_loop_broke (l : list value) : bool :=
    match l with [] => false | ff :: r => if ff_entry_passes ff then ff_loop_broke r else true end.
  Definition ff_valid (v : value) : bool :=
    match v with
    | VList l => negb (ff_loop_broke l)
    | _ => false
    end.

  (* constructor: `for ff in forward_for: assert type(ff) == dict; assert "session" in ff and type(..) == int;
     assert "authid" in ff and (ff["authid"] is None or type(..) == str); assert "authrole" in ff and type(..) == str` *)
  Definition ff_ctor_entry (ff : value) : bool :=
    match ff with
    | VDict d =>
        (match dget (s2l "session") d with Some (VInt _) => true | _ => false end)
        && (match dget (s2l "authid") d with Some VNull | Some (VStr _) => true | _ => false end)
        && (match dget (s2l "authrole") d with Some (VStr _) => true | _ => false end)
    | _ => false
    end.

  Definition okind_check (k : okind) (v : value) : chk :=
    match k with
    | OStr => require (is_str v) ProtocolError
    | OBool => require (is_bool v) ProtocolError
    | OInt => require (is_int v) ProtocolError
    | OIntGe lo => match v with VInt z => require (lo <=? z) ProtocolError | _ => Some ProtocolError end
    | ODictT => require (is_dict v) ProtocolError
    | OEnum l => match v with VStr s => require (mem_str s l) ProtocolError | _ => Some ProtocolError end
    | OListInt => match v with
                  | VList l => chk_all (fun x => require (is_int x) ProtocolError) l
                  | _ => Some ProtocolError end
    | OListStr => match v with
                  | VList l => chk_all (fun x => require (is_str x) ProtocolError) l
                  | _ => Some ProtocolError end
    | OUri fl => check_uri fl false v
    | OFwd => require (ff_valid v) ProtocolError
    | OAny => None
    | OBoolEq => require (is_null v || py_eq_true v || py_eq_false v) ProtocolError
    | OBoolNone => require (is_null v || is_bool v) ProtocolError
    end.

  Definition ckind_ok (c : ckind) (v : value) : bool :=
    match c with
    | CNone => true
    | CStr => is_null v || is_str v
    | CDict => is_null v || is_dict v
    | CFwd => match v with
              | VNull => true
              | VList l => forallb ff_ctor_entry l
              | _ => negb (truthy v)      (* `if forward_for:` guards the loop; parse only lets lists through *)
              end
    end.

  (* Register.parse: the 'match' option is examined before wmsg[3] and selects the URI flavour *)
  Definition match_flavour (v : value) : uri_fl :=
    match v with
    | VStr s => if str_eqb s (s2l "prefix") then LooseLastEmpty
                else if str_eqb s (s2l "wildcard") then LooseEmpty else LooseNonEmpty
    | _ => LooseNonEmpty
    end.

  Definition pkind_check (od : list (key * value)) (k : pkind) (v : value) : chk :=
    match k with
    | PId => check_id v
    | PUri fl an => check_uri fl an v
    | PUriMatch =>
        match dget (s2l "match") od with
        | None => check_uri LooseNonEmpty false v
        | Some x => okind_check (OEnum match_kinds) x ;; check_uri (match_flavour x) false v
        end
    | PStr => require (is_str v) ProtocolError
    | PExtra => check_extra v
    | PReqType => match v with
                  | VInt z => require (existsb (Z.eqb z) error_request_types) ProtocolError
                  | _ => Some ProtocolError end
    end.

  (* ---------- layout ---------- *)
  Definition nslots (s : schema) : nat := List.length (s_slots s).
  (* admissible len(wmsg) *)
  Definition lens (s : schema) : list nat :=
    let n := nslots s in
    match s_payload s with
    | Some _ => [n + 1; n + 2; n + 3]%nat
    | None => if s_optdict_optional s then [n; n + 1]%nat else [n + 1]%nat
    end.
  Definition len_ok (s : schema) (n : nat) : bool := existsb (Nat.eqb n) (lens s).

  Fixpoint find_opts (sl : list slot) (body : list value) : list (key * value) :=
    match sl, body with
    | SOpts :: _, VDict d :: _ => d
    | SOpts :: _, _ => []
    | _ :: sl', _ :: body' => find_opts sl' body'
    | _, _ => []
    end.

  Fixpoint extract_pos (sl : list slot) (body : list value) : list value :=
    match sl with
    | [] => []
    | SOpts :: sl' => extract_pos sl' (tl body)
    | SField _ _ :: sl' => hd VNull body :: extract_pos sl' (tl body)
    end.

  Fixpoint check_slots (od : list (key * value)) (sl : list slot) (body : list value) : chk :=
    match sl, body with
    | [], _ => None
    | SOpts :: sl', v :: body' => check_extra v ;; check_slots od sl' body'
    | SField _ k :: sl', v :: body' => pkind_check od k v ;; check_slots od sl' body'
    | _ :: _, [] => None      (* only the optional trailing dict can be missing once the length check passed *)
    end.

  (* ---------- options ---------- *)
  Definition oval (od : list (key * value)) (o : ospec) : value :=
    match dget (s2l (o_key o)) od with Some x => x | None => o_default o end.
  Definition ovals (specs : list ospec) (od : list (key * value)) : list value := map (oval od) specs.

  Definition check_opt (vals : list value) (od : list (key * value)) (o : ospec) : chk :=
    match dget (s2l (o_key o)) od with
    | Some x => okind_check (o_kind o) x
    | None => match o_reqif o with
              | Some j => require (negb (truthy (nth j vals VNull))) ProtocolError
              | None => None
              end
    end.
  Definition check_opts (specs : list ospec) (od : list (key * value)) : chk :=
    chk_all (check_opt (ovals specs od) od) specs.

  (* marshal(): is option o (value v) written, given all option values *)
  Definition holds (all : list value) (o : ospec) (v : value) : bool :=
    match o_mc o with
    | MNotNone => negb (is_null v)
    | MTruthy => truthy v
    | MNeqDefault => truthy v && negb (value_eqb v (o_default o))
    | MGatedBy j => truthy (nth j all VNull)
    end.
  Fixpoint emit_aux (all : list value) (specs : list ospec) (vals : list value) : list (key * value) :=
    match specs, vals with
    | o :: specs', v :: vals' =>
        (if holds all o v then [(KS (s2l (o_key o)), v)] else []) ++ emit_aux all specs' vals'
    | _, _ => []
    end.
  Definition emit (specs : list ospec) (vals : list value) := emit_aux vals specs vals.

  Fixpoint norm_aux (all : list value) (specs : list ospec) (vals : list value) : list value :=
    match specs, vals with
    | o :: specs', v :: vals' => (if holds all o v then v else o_default o) :: norm_aux all specs' vals'
    | _, _ => []
    end.
  Definition norm_opts (specs : list ospec) (vals : list value) := norm_aux vals specs vals.

  (* ---------- application payload ---------- *)
  Definition is_payload_type (pc : pcfg) (v : value) : bool :=
    is_bytes v || (pc_str_payload pc && is_str v).
  (* `len(wmsg) == i + 1 and type(wmsg[i]) in [...]` *)
  Definition payload_mode (pc : pcfg) (tail : list value) : bool :=
    match tail with [x] => is_payload_type pc x | _ => false end.

  Definition extract_pl (pc : pcfg) (od : list (key * value)) (tail : list value) : payload :=
    if payload_mode pc tail then
      {| p_args := VNull; p_kwargs := VNull; p_payload := hd VNull tail;
         p_enc_algo := getn "enc_algo" od; p_enc_key := getn "enc_key" od; p_enc_ser := getn "enc_serializer" od |}
    else
      {| p_args := nth 0 tail VNull; p_kwargs := nth 1 tail VNull; p_payload := VNull;
         p_enc_algo := VNull; p_enc_key := VNull; p_enc_ser := VNull |}.

  Definition check_args (pc : pcfg) (a : value) : chk :=
    (* Publish (after fix dbd3c93e): `args is not None and type(args) not in [list, str, bytes]` *)
    if pc_publish pc then require (is_null a || is_list a || is_str a || is_bytes a) ProtocolError
    else require (is_null a || is_list a) ProtocolError.
  Definition check_kwargs (pc : pcfg) (k : value) : chk :=
    if pc_publish pc then require (is_dict k || is_str k || is_bytes k) ProtocolError
    else require (is_dict k) ProtocolError.

  Definition check_pl (pc : pcfg) (od : list (key * value)) (tail : list value) : chk :=
    if payload_mode pc tail then
      let ea := getn "enc_algo" od in
      let ek := getn "enc_key" od in
      let es := getn "enc_serializer" od in
      require (negb (truthy ea) || valid_enc_algo ea) ProtocolError ;;
      require (negb (truthy ek) || is_str ek) ProtocolError ;;
      require (negb (truthy es) || valid_enc_ser es) ProtocolError
    else
      match tail with
      | [] => None
      | a :: r => check_args pc a ;; match r with [] => None | k :: _ => check_kwargs pc k end
      end.

  (* constructor assertions about the 6-set *)
  Definition pl_ctor_ok (p : payload) : bool :=
    (is_null (p_payload p) || is_bytes (p_payload p))
    && (is_null (p_payload p) || (is_null (p_args p) && is_null (p_kwargs p)))
    && (is_null (p_enc_algo p) || valid_enc_algo (p_enc_algo p))
    && ((is_null (p_enc_algo p) && is_null (p_enc_key p) && is_null (p_enc_ser p))
        || (negb (is_null (p_payload p)) && negb (is_null (p_enc_algo p))))
    && (is_null (p_enc_key p) || is_str (p_enc_key p))
    && (is_null (p_enc_ser p) || valid_enc_ser (p_enc_ser p)).

  (* MessageWithAppPayload._init_app_payload -> _validate_kwargs (ProtocolError, after the asserts) *)
  Definition kwargs_ok (k : value) : bool :=
    match k with VNull => true | VDict d => keys_all_str d | _ => false end.

  Definition marshal_tail (p : payload) : list value :=
    if truthy (p_payload p) then [p_payload p]
    else if truthy (p_kwargs p) then [p_args p; p_kwargs p]
    else if truthy (p_args p) then [p_args p]
    else [].
  Definition emit_nn (k : string) (v : value) : list (key * value) :=
    if is_null v then [] else [(KS (s2l k), v)].
  Definition emit_enc (p : payload) : list (key * value) :=
    if truthy (p_payload p)
    then emit_nn "enc_algo" (p_enc_algo p) ++ emit_nn "enc_key" (p_enc_key p) ++ emit_nn "enc_serializer" (p_enc_ser p)
    else [].
  Definition norm_pl (p : payload) : payload :=
    if truthy (p_payload p) then
      {| p_args := VNull; p_kwargs := VNull; p_payload := p_payload p;
         p_enc_algo := p_enc_algo p; p_enc_key := p_enc_key p; p_enc_ser := p_enc_ser p |}
    else if truthy (p_kwargs p) then
      {| p_args := p_args p; p_kwargs := p_kwargs p; p_payload := VNull;
         p_enc_algo := VNull; p_enc_key := VNull; p_enc_ser := VNull |}
    else if truthy (p_args p) then
      {| p_args := p_args p; p_kwargs := VNull; p_payload := VNull;
         p_enc_algo := VNull; p_enc_key := VNull; p_enc_ser := VNull |}
    else null_pl.

  (* ---------- roles (Hello / Welcome) and custom attributes (Welcome) ---------- *)
  Definition has_key (k : string) (d : list (key * value)) : bool :=
    match dget (s2l k) d with Some _ => true | None => false end.

  Definition check_role (cfg : list (string * list string)) (kv : key * value) : chk :=
    match fst kv with
    | KBad => Some ProtocolError
    | KS name =>
        match find_role cfg name with
        | None => Some ProtocolError                                   (* invalid role *)
        | Some feats =>
            check_extra (snd kv) ;;
            match snd kv with
            | VDict d =>
                match dget (s2l "features") d with
                | None => None
                | Some f =>
                    check_extra f ;;
                    match f with
                    | VDict fd =>
                        (* role_cls( ** features): a key "self" collides with the bound first parameter *)
                        require (negb (has_key "self" fd)) TypeError ;;
                        check_opts (role_specs feats) fd
                    | _ => None
                    end
                end
            | _ => None
            end
        end
    end.
  Definition check_roles (cfg : list (string * list string)) (od : list (key * value)) : chk :=
    match dget (s2l "roles") od with
    | None => Some ProtocolError                                       (* missing mandatory roles *)
    | Some r =>
        check_extra r ;;
        match r with
        | VDict rd => require (negb (is_nil rd)) ProtocolError ;; chk_all (check_role cfg) rd
        | _ => None
        end
    end.

  Definition extract_role (cfg : list (string * list string)) (kv : key * value) : key * list value :=
    (fst kv,
     match fst kv with
     | KBad => []
     | KS name =>
         match find_role cfg name with
         | None => []
         | Some feats =>
             match snd kv with
             | VDict d => match dget (s2l "features") d with
                          | Some (VDict fd) => ovals (role_specs feats) fd
                          | _ => map (fun _ => VNull) feats
                          end
             | _ => map (fun _ => VNull) feats
             end
         end
     end).
  Definition extract_roles (cfg : list (string * list string)) (od : list (key * value)) : list (key * list value) :=
    match dget (s2l "roles") od with
    | Some (VDict rd) => map (extract_role cfg) rd
    | _ => []
    end.

  Definition marshal_role (cfg : list (string * list string)) (r : key * list value) : key * value :=
    (fst r,
     match fst r with
     | KBad => VDict []
     | KS name =>
         match find_role cfg name with
         | None => VDict []
         | Some feats =>
             let e := emit (role_specs feats) (snd r) in
             if is_nil e then VDict [] else VDict [(KS (s2l "features"), VDict e)]
         end
     end).
  Definition marshal_roles (cfg : list (string * list string)) (rs : list (key * list value)) : value :=
    VDict (map (marshal_role cfg) rs).

  Definition is_custom_key (kv : key * value) : bool :=
    match fst kv with KS k => custom_ok k | KBad => false end.
  Definition extract_custom (od : list (key * value)) : list (key * value) := filter is_custom_key od.

  (* ---------- the constructor ---------- *)
  Fixpoint opts_ctor_ok (specs : list ospec) (vals : list value) : bool :=
    match specs, vals with
    | o :: specs', v :: vals' => ckind_ok (o_ctor o) v && opts_ctor_ok specs' vals'
    | _, _ => true
    end.

  Definition py_is_zero (v : value) : bool :=
    match v with VInt z => Z.eqb z 0 | VBool b => negb b | VFloat t => N.eqb t 0 | _ => false end.
  (* Unsubscribed / Unregistered:
       if request is not None and subscription is not None:
           assert (request != 0 and subscription is None) or (request == 0 and subscription != 0) *)
  Definition combo_ok (pos opts : list value) : bool :=
    let r := nth 0 pos VNull in
    let sub := nth 0 opts VNull in
    is_null r || is_null sub || (py_is_zero r && negb (py_is_zero sub)).

  Definition ctor_ok (s : schema) (m : msg) : bool :=
    opts_ctor_ok (s_opts s) (m_opts m)
    && (match s_payload s with Some _ => pl_ctor_ok (m_pl m) | None => true end)
    && (if s_combo s then combo_ok (m_pos m) (m_opts m) else true).

  (* ---------- extract / check / parse ---------- *)
  Definition extract (s : schema) (wmsg : list value) : msg :=
    let body := tl wmsg in
    let od := find_opts (s_slots s) body in
    let tail := skipn (nslots s) body in
    {| m_pos := extract_pos (s_slots s) body;
       m_opts := ovals (s_opts s) od;
       m_pl := match s_payload s with Some pc => extract_pl pc od tail | None => null_pl end;
       m_roles := match s_special s with SpNone => [] | sp => extract_roles (roles_cfg sp) od end;
       m_custom := match s_special s with SpWelcome => extract_custom od | _ => [] end |}.

  Definition check (s : schema) (wmsg : list value) : chk :=
    match wmsg with
    | VInt t :: body =>
        (* `assert len(wmsg) > 0 and wmsg[0] == Cls.MESSAGE_TYPE` *)
        require (Z.eqb t (s_type s)) AssertionError ;;
        require (len_ok s (List.length wmsg)) ProtocolError ;;
        let od := find_opts (s_slots s) body in
        let tail := skipn (nslots s) body in
        check_slots od (s_slots s) body ;;
        (match s_special s with SpHello => check_roles hello_roles od | _ => None end) ;;
        (match s_payload s with Some pc => check_pl pc od tail | None => None end) ;;
        check_opts (s_opts s) od ;;
        (match s_special s with SpWelcome => check_roles welcome_roles od | _ => None end) ;;
        let m := extract s wmsg in
        require (ctor_ok s m) AssertionError ;;
        (match s_payload s with
         | Some _ => require (kwargs_ok (p_kwargs (m_pl m))) ProtocolError
         | None => None end)
    | _ => Some AssertionError
    end.

  Definition parse (s : schema) (wmsg : list value) : res msg :=
    match check s wmsg with
    | Some e => Raise e
    | None => Ok (extract s wmsg)
    end.

  (* ---------- marshal ---------- *)
  Definition marshal_dict (s : schema) (m : msg) : list (key * value) :=
    let base := emit (s_opts s) (m_opts m) in
    match s_special s with
    | SpNone => base ++ (match s_payload s with Some _ => emit_enc (m_pl m) | None => [] end)
    | SpHello => (KS (s2l "roles"), marshal_roles hello_roles (m_roles m)) :: base
    | SpWelcome => m_custom m ++ base ++ [(KS (s2l "roles"), marshal_roles welcome_roles (m_roles m))]
    end.

  Fixpoint marshal_slots (sl : list slot) (pos : list value) (dictv : option value) : list value :=
    match sl with
    | [] => []
    | SOpts :: sl' => (match dictv with Some d => [d] | None => [] end) ++ marshal_slots sl' pos dictv
    | SField _ _ :: sl' => hd VNull pos :: marshal_slots sl' (tl pos) dictv
    end.

  Definition marshal (s : schema) (m : msg) : list value :=
    let d := marshal_dict s m in
    let dictv := if s_optdict_optional s && is_nil d then None else Some (VDict d) in
    VInt (s_type s) :: marshal_slots (s_slots s) (m_pos m) dictv
      ++ (match s_payload s with Some _ => marshal_tail (m_pl m) | None => [] end).

  (* what survives marshal: non-written options fall back to their defaults, the 6-set collapses to one mode *)
  Definition norm (s : schema) (m : msg) : msg :=
    {| m_pos := m_pos m;
       m_opts := norm_opts (s_opts s) (m_opts m);
       m_pl := match s_payload s with Some _ => norm_pl (m_pl m) | None => null_pl end;
       m_roles := match s_special s with SpNone => [] | _ => m_roles m end;
       m_custom := match s_special s with SpWelcome => m_custom m | _ => [] end |}.

  (* ---------- validity of a message object (what a peer may legitimately construct) ---------- *)
  Definition nfields (sl : list slot) : nat :=
    List.length (filter (fun x => match x with SField _ _ => true | SOpts => false end) sl).

  Definition role_shape_ok (cfg : list (string * list string)) (r : key * list value) : bool :=
    match fst r with
    | KBad => false
    | KS name => match find_role cfg name with
                 | Some feats => Nat.eqb (List.length (snd r)) (List.length feats)
                 | None => false end
    end.

  (* the structural side conditions under which extract (marshal m) = norm m *)
  Definition shape_ok (s : schema) (m : msg) : bool :=
    Nat.eqb (List.length (m_pos m)) (nfields (s_slots s))
    && Nat.eqb (List.length (m_opts m)) (List.length (s_opts s))
    && (match s_payload s with
        | Some pc =>
            let p := m_pl m in
            if truthy (p_payload p) then is_payload_type pc (p_payload p)
            else if truthy (p_kwargs p) then true
            else if truthy (p_args p) then negb (is_payload_type pc (p_args p))
            else true
        | None => true end)
    && forallb (role_shape_ok (roles_cfg (s_special s))) (m_roles m)
    && forallb is_custom_key (m_custom m).

  Fixpoint pos_ok (od : list (key * value)) (sl : list slot) (pos : list value) : bool :=
    match sl with
    | [] => true
    | SOpts :: sl' => pos_ok od sl' pos
    | SField _ k :: sl' =>
        (match pkind_check od k (hd VNull pos) with None => true | Some _ => false end) && pos_ok od sl' (tl pos)
    end.

  Fixpoint opts_ok_aux (all nall : list value) (specs : list ospec) (vals : list value) : bool :=
    match specs, vals with
    | o :: specs', v :: vals' =>
        (if holds all o v
         then match okind_check (o_kind o) v with None => true | Some _ => false end
         else match o_reqif o with Some j => negb (truthy (nth j nall VNull)) | None => true end)
        && opts_ok_aux all nall specs' vals'
    | _, _ => true
    end.
  Definition opts_ok (specs : list ospec) (vals : list value) : bool :=
    opts_ok_aux vals (norm_opts specs vals) specs vals.

  Definition chk_ok (c : chk) : bool := match c with None => true | Some _ => false end.

  (* the checks parse() applies to what marshal() writes for the 6-set (by marshal's three-way branch) *)
  Definition pl_fields_ok (pc : pcfg) (p : payload) : bool :=
    (if truthy (p_payload p) then
       (negb (truthy (p_enc_algo p)) || valid_enc_algo (p_enc_algo p))
       && (negb (truthy (p_enc_key p)) || is_str (p_enc_key p))
       && (negb (truthy (p_enc_ser p)) || valid_enc_ser (p_enc_ser p))
     else if truthy (p_kwargs p) then
       chk_ok (check_args pc (p_args p)) && chk_ok (check_kwargs pc (p_kwargs p))
     else if truthy (p_args p) then chk_ok (check_args pc (p_args p))
     else true)
    && kwargs_ok (p_kwargs (norm_pl p)).

  Definition role_ok (cfg : list (string * list string)) (r : key * list value) : bool :=
    match fst r with
    | KBad => false
    | KS name => match find_role cfg name with
                 | Some feats => opts_ok (role_specs feats) (snd r)
                 | None => false end
    end.

  (* every check of parse() passes on the written fields *)
  Definition fields_ok (s : schema) (m : msg) : bool :=
    pos_ok (marshal_dict s m) (s_slots s) (m_pos m)
    && opts_ok (s_opts s) (m_opts m)
    && (match s_payload s with Some pc => pl_fields_ok pc (m_pl m) | None => true end)
    && (match s_special s with
        | SpNone => true
        | sp => negb (is_nil (m_roles m)) && forallb (role_ok (roles_cfg sp)) (m_roles m) end)
    && forallb (fun kv => match fst kv with KS _ => true | KBad => false end) (m_custom m)
    && ctor_ok s (norm s m).

  Definition payload_eqb (a b : payload) : bool :=
    value_eqb (p_args a) (p_args b) && value_eqb (p_kwargs a) (p_kwargs b)
    && value_eqb (p_payload a) (p_payload b) && value_eqb (p_enc_algo a) (p_enc_algo b)
    && value_eqb (p_enc_key a) (p_enc_key b) && value_eqb (p_enc_ser a) (p_enc_ser b).

  (* a valid message: shape, all field checks, and nothing that marshal would drop *)
  Definition valid (s : schema) (m : msg) : Prop :=
    shape_ok s m = true /\ fields_ok s m = true /\ norm s m = m.

End Schema.

(* ---------- the strict reading of the property text for options (what SHOULD be enforced) ---------- *)
Section Strict.
  Variable uri_ok : uri_fl -> str -> bool.
  Definition id_in_range (v : value) : bool :=
    match v with VInt z => (0 <=? z) && (z <=? id_max) | _ => false end.
  (* a well-formed forward_for entry: {"session": id, "authid": str|None, "authrole": str} *)
  Definition ff_entry_strict (ff : value) : bool :=
    match ff with
    | VDict d =>
        (match dget (s2l "session") d with Some x => id_in_range x | None => false end)
        && (match dget (s2l "authid") d with Some VNull | Some (VStr _) => true | _ => false end)
        && (match dget (s2l "authrole") d with Some (VStr _) => true | _ => false end)
    | _ => false
    end.
  (* every int-valued option of the 25 classes is a WAMP id (session / subscription / registration id) *)
  Definition strict_okind_ok (k : okind) (x : value) : bool :=
    match k with
    | OInt => id_in_range x
    | OListInt => match x with VList l => forallb id_in_range l | _ => false end
    | OFwd => match x with VList l => forallb ff_entry_strict l | _ => false end
    | OBoolEq => is_bool x
    | OAny => true            (* typed only by the constructor: see ctor_ok *)
    | _ => match okind_check uri_ok k x with None => true | Some _ => false end
    end.
End Strict.

(* "the option is set", judged on the option's own value only *)
Definition own_holds (o : ospec) (v : value) : bool :=
  match o_mc o with
  | MNotNone => negb (is_null v)
  | MTruthy => truthy v
  | MNeqDefault => truthy v && negb (value_eqb v (o_default o))
  | MGatedBy _ => negb (is_null v)
  end.

(* ---------- the *shape* of a schema: what translators/schema_shape.py reads off message.py ---------- *)
(* guard atoms of the `if` statements enclosing a dict-key assignment in marshal() *)
Inductive gatom :=
| GNotNone (a : string)      (* self.a is not None *)
| GTruthy (a : string)       (* self.a *)
| GNeqDef (a : string)       (* self.a and self.a != <class constant> *)
| GOr (l : list gatom).      (* g1 or g2 ... *)

Record shape := {
  sh_name : string;
  sh_type : Z;
  sh_lens : list nat;                          (* admissible len(wmsg), ascending *)
  sh_parse_keys : list string;                 (* keys looked up in options/details by parse(), first-use order *)
  sh_marshal : list (string * string * list gatom);  (* key written by marshal(), attribute it takes the value from, guards; parse order *)
  sh_custom : bool }.                          (* marshal() does details.update(self.custom) *)

Definition own_atom (specs : list ospec) (o : ospec) : gatom :=
  match o_mc o with
  | MNotNone => GNotNone (o_attr o)
  | MTruthy => GTruthy (o_attr o)
  | MNeqDefault => GNeqDef (o_attr o)
  | MGatedBy j => GTruthy (match nth_error specs j with Some g => o_attr g | None => "?" end)
  end.

Definition enc_keys : list string := ["enc_algo"; "enc_key"; "enc_serializer"].

Definition shape_of (s : schema) : shape :=
  let specs := s_opts s in
  let outer := if s_optdict_optional s && Nat.ltb 1 (List.length specs)
               then [GOr (map (own_atom specs) specs)] else [] in
  let okeys := map o_key specs in
  let omar := map (fun o => (o_key o, o_attr o, (outer ++ [own_atom specs o])%list)) specs in
  let ekeys := match s_payload s with Some _ => enc_keys | None => [] end in
  let emar := match s_payload s with
              | Some _ => map (fun k => (k, k, [GTruthy "payload"; GNotNone k])) enc_keys
              | None => [] end in
  {| sh_name := s_name s;
     sh_type := s_type s;
     sh_lens := lens s;
     sh_parse_keys := match s_special s with
                      | SpNone => (ekeys ++ okeys)%list
                      | SpHello => "roles" :: okeys
                      | SpWelcome => (okeys ++ ["roles"])%list end;
     sh_marshal := match s_special s with
                   | SpNone => (emar ++ omar)%list
                   | SpHello => ("roles", "", []) :: omar
                   | SpWelcome => (omar ++ [("roles", "", [])])%list end;
     sh_custom := match s_special s with SpWelcome => true | _ => false end |}.
