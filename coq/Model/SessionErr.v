(* Model of the remote-exception mapping of a WAMP session (definitions only).
   Sources mirrored (autobahn/wamp):
     protocol.py   BaseSession.__init__ (registries), define, _message_from_exception,
                   _exception_from_message, ApplicationSession.onMessage (ERROR branch; INVOCATION error() callback)
     exception.py  ApplicationError.__init__
     uri.py        error() decorator (a decorated class carries a non-empty list _wampuris)
     message.py    Error.marshal / Error.parse (args / kwargs positions only)
   Application values (elements of args, values of kwargs) are an opaque type V: the code under study never
   inspects them.  kwargs are association lists with string keys (Python dict, insertion ordered, unique keys).
   Python exceptions are explicit: [Ok x | Raise e]; an exception leaving _exception_from_message leaves onMessage
   (observable ESCAPED). *)
From Coq Require Import List String Bool NArith.
Import ListNotations.
Open Scope string_scope.

(* ------------------------------------------------------------------ association maps *)
Section AMap.
  Context {K A : Type} (keqb : K -> K -> bool).
  Fixpoint aget (k : K) (m : list (K * A)) : option A :=
    match m with
    | [] => None
    | (k', v) :: r => if keqb k k' then Some v else aget k r
    end.
  (* d[k] = v : replace in place when present, else append (dict insertion order) *)
  Fixpoint aset (k : K) (v : A) (m : list (K * A)) : list (K * A) :=
    match m with
    | [] => [(k, v)]
    | (k', v') :: r => if keqb k k' then (k', v) :: r else (k', v') :: aset k v r
    end.
  (* d.pop(k, None) *)
  Fixpoint adel (k : K) (m : list (K * A)) : list (K * A) :=
    match m with
    | [] => []
    | (k', v') :: r => if keqb k k' then adel k r else (k', v') :: adel k r
    end.
  Definition ahas (k : K) (m : list (K * A)) : bool := match aget k m with Some _ => true | None => false end.
End AMap.

Definition cls := N.
Definition CLS_ApplicationError : cls := 0%N.
Definition CLS_SerializationError : cls := 1%N.
Definition CLS_PayloadExceededError : cls := 2%N.

Definition RUNTIME_ERROR := "wamp.error.runtime_error".
Definition INVALID_PAYLOAD := "wamp.error.invalid_payload".
Definition PAYLOAD_SIZE_EXCEEDED := "wamp.error.payload_size_exceeded".

(* the five keyword names ApplicationError.__init__ pops out of kwargs, in source order *)
Definition RESERVED : list string := ["enc_algo"; "callee"; "callee_authid"; "callee_authrole"; "forward_for"].

Inductive pyexc := TypeError | RuntimeError | ProtocolError | KeyError | AttributeError.

Inductive res (A : Type) := Ok (a : A) | Raise (e : pyexc).
Arguments Ok {A} a.
Arguments Raise {A} e.

(* ------------------------------------------------------------------ the application's onUserError override *)
(* user code: it may return or raise anything.  Both call sites studied here wrap it:
       try: self.onUserError(...)  except: pass
   [guarded_hook h] = the exception that leaves that statement: none, whatever the hook does. *)
Inductive hook := HookReturns | HookRaises.
Definition guarded_hook (h : hook) : option pyexc :=
  match h with
  | HookReturns => None
  | HookRaises => None          (* swallowed by the bare except *)
  end.

(* ------------------------------------------------------------------ registries and define() *)
Record registry := mkReg {
  ecls_to_uri : list (cls * list string);   (* _ecls_to_uri_pat : class -> URIs of its patterns (never empty) *)
  uri_to_ecls : list (string * cls)         (* _uri_to_ecls *)
}.

(* protocol.py BaseSession.__init__ *)
Definition init_registry : registry :=
  mkReg [] [(INVALID_PAYLOAD, CLS_SerializationError); (PAYLOAD_SIZE_EXCEEDED, CLS_PayloadExceededError)].

(* One call of session.define(exception, error).  [wampuris] is the class attribute _wampuris when the class is
   decorated with @wamp.error (first URI + rest: the decorator always appends, so the list is never empty).
   [pattern_ok u] = uri.Pattern(u, ...) does not raise. *)
Inductive defop :=
| DefDecorated (c : cls) (u : string) (us : list string)   (* define(C)            , C decorated   *)
| DefUndecorated (c : cls)                                 (* define(C)            , C undecorated *)
| DefExplicit (c : cls) (u : string)                       (* define(C, u)         , C undecorated *)
| DefExplicitDecorated (c : cls) (u : string).             (* define(C, u)         , C decorated   *)

Section Define.
  Variable pattern_ok : string -> bool.
  Definition define (r : registry) (o : defop) : registry * option pyexc :=
    match o with
    | DefDecorated c u us =>                                    (* protocol.py define: error is None, hasattr _wampuris *)
        (mkReg (aset N.eqb c (u :: us) (ecls_to_uri r)) (aset String.eqb u c (uri_to_ecls r)), None)
    | DefUndecorated _ => (r, Some RuntimeError)                (* "cannot define WAMP exception from class with no decoration" *)
    | DefExplicit c u =>
        if pattern_ok u
        then (mkReg (aset N.eqb c [u] (ecls_to_uri r)) (aset String.eqb u c (uri_to_ecls r)), None)
        else (r, Some TypeError)                                (* uri.Pattern raises before any update *)
    | DefExplicitDecorated _ _ => (r, Some RuntimeError)        (* "error URI is explicit, but class is decorated" *)
    end.
  Definition defines (r : registry) (ops : list defop) : registry :=
    fold_left (fun r o => fst (define r o)) ops r.
End Define.

Section Err.
  Variable V : Type.          (* application values *)
  Variable MV : Type.         (* values of the ERROR details callee / callee_authid / callee_authrole / forward_for / enc_algo *)
  Definition kw := list (string * V).

  (* an exception instance as seen by _message_from_exception *)
  Record exn := mkExn {
    x_cls : cls;               (* exc.__class__ *)
    x_app : bool;              (* isinstance(exc, ApplicationError) *)
    x_error : string;          (* exc.error (only read when x_app) *)
    x_args : list V;           (* exc.args *)
    x_kwargs : option kw       (* exc.kwargs if hasattr(exc, "kwargs") *)
  }.

  (* ---------------- callee side: protocol.py _message_from_exception, up to the payload codec ---------------- *)
  Definition truthy_kw (k : option kw) : bool := match k with Some (_ :: _) => true | _ => false end.

  (* if tb: (kwargs["traceback"] = tb  if kwargs else  kwargs = {"traceback": tb});  tb = None models a falsy tb *)
  Definition add_traceback (k : option kw) (tb : option V) : option kw :=
    match tb with
    | None => k
    | Some t => if truthy_kw k
                then match k with Some d => Some (aset String.eqb "traceback" t d) | None => None end
                else Some [("traceback", t)]
    end.

  Definition err_uri (r : registry) (e : exn) : string :=
    if x_app e then x_error e
    else match aget N.eqb (x_cls e) (ecls_to_uri r) with
         | Some (u :: _) => u                                   (* self._ecls_to_uri_pat[exc.__class__][0]._uri *)
         | Some [] => RUNTIME_ERROR                             (* unreachable: lists stored by define are non-empty *)
         | None => RUNTIME_ERROR
         end.

  (* (error, args, kwargs) handed to message.Error / to the payload codec *)
  Definition error_fields (r : registry) (e : exn) (tb : option V) : string * option (list V) * option kw :=
    (err_uri r e, Some (x_args e), add_traceback (x_kwargs e) tb).

  (* the ERROR message, fields relevant here; [m_meta] = details callee, callee_authid, callee_authrole, forward_for
     and enc_algo as one opaque value per name (None in a message built by _message_from_exception) *)
  Record errmsg := mkErr {
    m_rtype : N; m_request : N; m_error : string;
    m_args : option (list V); m_kwargs : option kw;
    m_meta : string -> option MV
  }.
  Definition no_meta : string -> option MV := fun _ => None.

  (* payload codec absent *)
  Definition message_from_exception (r : registry) (rtype req : N) (e : exn) (tb : option V) : errmsg :=
    let '(u, a, k) := error_fields r e tb in mkErr rtype req u a k no_meta.

  (* ---------------- message.py Error.marshal / Error.parse: where args and kwargs travel ---------------- *)
  Inductive wire_tail :=
  | W5                                        (* [ERROR, type, request, details, error] *)
  | W6 (a : option (list V))                  (* … , args]          *)
  | W7 (a : option (list V)) (k : kw).        (* … , args, kwargs]  *)
  Definition truthy_args (a : option (list V)) : bool := match a with Some (_ :: _) => true | _ => false end.
  Definition marshal_tail (m : errmsg) : wire_tail :=
    if truthy_kw (m_kwargs m) then W7 (m_args m) (match m_kwargs m with Some d => d | None => [] end)
    else if truthy_args (m_args m) then W6 (m_args m) else W5.
  Definition parse_tail (w : wire_tail) : option (list V) * option kw :=
    match w with W5 => (None, None) | W6 a => (a, None) | W7 a k => (a, Some k) end.
  (* what a peer's Error.parse makes of a marshalled ERROR (request type / id possibly rewritten by the router) *)
  Definition over_the_wire (rtype req : N) (meta : string -> option MV) (m : errmsg) : errmsg :=
    let '(a, k) := parse_tail (marshal_tail m) in mkErr rtype req (m_error m) a k meta.

  (* ---------------- caller side ---------------- *)
  Inductive metaval := FromKw (v : option V) | FromMsg (v : option MV).
  (* an exception instance as delivered to the caller's errback *)
  Record cexn := mkCexn {
    c_cls : cls;
    c_error : option string;       (* .error   (ApplicationError) *)
    c_args : list V;               (* .args *)
    c_kwargs : option kw;          (* .kwargs if present *)
    c_truthy : bool;               (* bool(exc): False when the class defines __bool__/__len__ so *)
    c_meta : list (string * metaval);  (* which of the five RESERVED attributes the instance has, and their values *)
    c_readonly : list string           (* attributes that are read-only (a property without setter): assignment raises *)
  }.

  Inductive ctor_result := CtorOk (i : cexn) | CtorRaise.   (* CtorRaise: any subclass of Exception *)
  (* which of the four call expressions is used *)
  Inductive shape := ArgsKwargs | KwargsOnly | ArgsOnly | NoArgs.

  (* exception.py ApplicationError.__init__(self, error, /, *args, **kwargs) called as ApplicationError(u, *a, **k):
     self and error are positional-only, so every keyword (also one named "error" or "self") lands in kwargs and the
     constructor cannot fail on (str, list, dict-with-string-keys) *)
  Definition app_error_ctor (u : string) (a : list V) (k : kw) : res cexn :=
    Ok (mkCexn CLS_ApplicationError (Some u) a
               (Some (fold_left (fun d n => adel String.eqb n d) RESERVED k))          (* kwargs.pop(name, None) x5 *)
               true
               (map (fun n => (n, FromKw (aget String.eqb n k))) RESERVED)
               []).

  (* the five  if hasattr(exc, name): setattr(exc, name, msg.<name>)  statements; assigning to a read-only property
     raises AttributeError (nothing guards these statements) *)
  Definition set_meta (m : errmsg) (e : cexn) : res cexn :=
    if existsb (fun n => ahas String.eqb n (c_meta e) && existsb (String.eqb n) (c_readonly e)) RESERVED
    then Raise AttributeError
    else Ok (mkCexn (c_cls e) (c_error e) (c_args e) (c_kwargs e) (c_truthy e)
               (map (fun '(n, v) => if existsb (String.eqb n) RESERVED then (n, FromMsg (m_meta m n)) else (n, v)) (c_meta e))
               (c_readonly e)).

  Section Caller.
    Variable construct : cls -> shape -> list V -> kw -> ctor_result.   (* ecls( *args, **kwargs ) : user code *)
    Variable caller_hook : hook.                                         (* the caller application's onUserError *)

    Definition or_nil {A} (o : option (list A)) : list A := match o with Some l => l | None => [] end.

    (* protocol.py _exception_from_message, msg.enc_algo unset.  Second component: was onUserError
       ("While re-constructing exception") called; whatever it raises is swallowed by the bare except. *)
    Definition exception_from_message (r : registry) (m : errmsg) : res cexn * bool :=
      let a := or_nil (m_args m) in
      let k := or_nil (m_kwargs m) in
      let '(exc, reported, escaped) :=
        match aget String.eqb (m_error m) (uri_to_ecls r) with
        | Some ecls =>
            let cr := if truthy_kw (m_kwargs m)
                      then (if truthy_args (m_args m) then construct ecls ArgsKwargs a k else construct ecls KwargsOnly [] k)
                      else (if truthy_args (m_args m) then construct ecls ArgsOnly a [] else construct ecls NoArgs [] []) in
            match cr with
            | CtorOk i => (Some i, false, None)
            | CtorRaise => (None, true, guarded_hook caller_hook)     (* try: self.onUserError(...) except: pass *)
            end
        | None => (None, false, None)
        end in
      match escaped with
      | Some x => (Raise x, reported)
      | None =>
          let built :=
            match exc with
            | Some i => if c_truthy i then Ok i                      (* if not exc: *)
                        else app_error_ctor (m_error m) a k
            | None => app_error_ctor (m_error m) a k                  (* "the following ctor never fails .." *)
            end in
          (match built with Ok e => set_meta m e | Raise x => Raise x end, reported)
      end.

    (* ---------------- onMessage, ERROR branch: six pending tables keyed by the request type code ------------- *)
    Record request := mkRequest { rq_id : N; rq_done : bool (* txaio.is_called(on_reply) *) }.
    Definition pending := list (N * list request).             (* request type code -> table *)
    Definition REQ_TYPES : list N := [48; 16; 32; 34; 64; 66]%N.  (* CALL PUBLISH SUBSCRIBE UNSUBSCRIBE REGISTER UNREGISTER *)

    Inductive delivery :=
    | Rejected (id : N) (e : cexn)          (* txaio.reject(on_reply, exc) *)
    | Dropped (id : N)                      (* on_reply already called: nothing happens *)
    | Escaped (id : N) (x : pyexc)          (* exception out of onMessage after the request was popped: on_reply never fires *)
    | NoReply                               (* the callee never sent an ERROR: the call stays pending *)
    | Protocol.                             (* ProtocolError: ERROR for a non-pending request *)

    Fixpoint find_req (id : N) (l : list request) : option request :=
      match l with [] => None | q :: r => if (rq_id q =? id)%N then Some q else find_req id r end.
    Fixpoint remove_req (id : N) (l : list request) : list request :=
      match l with [] => [] | q :: r => if (rq_id q =? id)%N then remove_req id r else q :: remove_req id r end.

    Definition on_error (r : registry) (p : pending) (m : errmsg) : pending * delivery :=
      if existsb (N.eqb (m_rtype m)) REQ_TYPES then
        match aget N.eqb (m_rtype m) p with
        | Some tbl =>
            match find_req (m_request m) tbl with
            | Some q =>
                let p' := aset N.eqb (m_rtype m) (remove_req (m_request m) tbl) p in     (* .pop(msg.request) *)
                if rq_done q then (p', Dropped (m_request m))
                else match fst (exception_from_message r m) with
                     | Ok e => (p', Rejected (m_request m) e)
                     | Raise x => (p', Escaped (m_request m) x)
                     end
            | None => (p, Protocol)
            end
        | None => (p, Protocol)
        end
      else (p, Protocol).
  End Caller.

  (* ---------------- callee side: the error() errback of an invocation (protocol.py onMessage INVOCATION) -------- *)
  Inductive send_result := SendOk | SendSerializationError | SendPayloadExceeded.
  Variable note : pyexc -> V.      (* the text argument of the replacement ERROR (an f-string) *)

  (* messages handed to transport.send, in order (the first send may have raised) *)
  Definition invocation_error (callee_hook : hook) (r : registry) (traceback_app : bool) (tbv : option V) (req : N) (e0 : exn)
             (sr : send_result) : list errmsg :=
    match guarded_hook callee_hook with            (* try: self.onUserError(err, errmsg) except: pass *)
    | Some _ => []                                 (* the errback would abort here: nothing is ever sent *)
    | None =>
    let e := e0 in   (* txaio.failure_message(err) / failure_format_traceback(err) call str(exc): no side effect on exc *)
    let tb := if traceback_app then tbv else None in
    let reply := message_from_exception r 68 req e tb in
    match sr with
    | SendOk => [reply]
    | SendSerializationError => [reply; mkErr 68 req INVALID_PAYLOAD (Some [note TypeError]) None no_meta]
    | SendPayloadExceeded => [reply; mkErr 68 req PAYLOAD_SIZE_EXCEEDED (Some [note RuntimeError]) None no_meta]
    end
    end.

  (* ---------------- call cancelling: INTERRUPT while the endpoint is still running ---------------- *)
  (* self._invocations : request id -> running invocation.  protocol.py onMessage INTERRUPT only cancels the
     endpoint's future (txaio.cancel(invoked.on_reply)); the record STAYS until the endpoint's callback / errback
     deletes it.  An INTERRUPT for an unknown request is logged and ignored. *)
  Definition on_interrupt (table : list N) (req : N) : list N := table.
  (* the errback starts with `del self._invocations[msg.request]`: KeyError — and nothing is ever sent — if the
     record is not there any more *)
  Definition fail_invocation (table : list N) (callee_hook : hook) (r : registry) (traceback_app : bool) (tbv : option V)
             (req : N) (e : exn) (sr : send_result) : list N * res (list errmsg) :=
    if existsb (N.eqb req) table
    then (filter (fun x => negb (N.eqb x req)) table, Ok (invocation_error callee_hook r traceback_app tbv req e sr))
    else (table, Raise KeyError).
  (* n INTERRUPTs arrive, then the endpoint (which survived the cancellation, e.g. cleaned up asynchronously) raises e *)
  Definition interrupted_failure (table : list N) (n : nat) (callee_hook : hook) (r : registry) (traceback_app : bool)
             (tbv : option V) (req : N) (e : exn) (sr : send_result) : list N * res (list errmsg) :=
    fail_invocation (Nat.iter n (fun t => on_interrupt t req) table) callee_hook r traceback_app tbv req e sr.

  (* the router (dealer) forwards ERROR(INVOCATION, inv_req) as ERROR(CALL, call_req) with the same URI and payload *)
  Definition end_to_end (callee_hook : hook) (construct : cls -> shape -> list V -> kw -> ctor_result) (caller_hook : hook)
             (callee_reg caller_reg : registry) (traceback_app : bool) (tbv : option V) (e : exn)
             (inv_req call_req : N) (meta : string -> option MV) (p : pending) : pending * delivery :=
    match invocation_error callee_hook callee_reg traceback_app tbv inv_req e SendOk with
    | reply :: _ => on_error construct caller_hook caller_reg p (over_the_wire 48 call_req meta reply)
    | [] => (p, NoReply)
    end.
End Err.

Arguments mkExn {V}.
Arguments x_cls {V}. Arguments x_app {V}. Arguments x_error {V}. Arguments x_args {V}. Arguments x_kwargs {V}.
Arguments mkErr {V MV}.
Arguments m_rtype {V MV}. Arguments m_request {V MV}. Arguments m_error {V MV}. Arguments m_args {V MV}.
Arguments m_kwargs {V MV}. Arguments m_meta {V MV}.
Arguments mkCexn {V MV}.
Arguments c_cls {V MV}. Arguments c_error {V MV}. Arguments c_args {V MV}. Arguments c_kwargs {V MV}.
Arguments c_truthy {V MV}. Arguments c_meta {V MV}. Arguments c_readonly {V MV}.
Arguments CtorOk {V MV}.
Arguments CtorRaise {V MV}.
Arguments FromKw {V MV}.
Arguments FromMsg {V MV}.
Arguments W5 {V}.
Arguments W6 {V}.
Arguments W7 {V}.
Arguments Rejected {V MV}.
Arguments Dropped {V MV}.
Arguments Escaped {V MV}.
Arguments Protocol {V MV}.
Arguments NoReply {V MV}.
Arguments truthy_kw {V}. Arguments truthy_args {V}. Arguments add_traceback {V}. Arguments err_uri {V}.
Arguments error_fields {V}. Arguments no_meta {MV}. Arguments message_from_exception {V MV}.
Arguments marshal_tail {V MV}. Arguments parse_tail {V}. Arguments over_the_wire {V MV}.
Arguments app_error_ctor {V MV}. Arguments set_meta {V MV}. Arguments or_nil {A}.
Arguments exception_from_message {V MV}. Arguments on_error {V MV}.
Arguments invocation_error {V MV}. Arguments end_to_end {V MV}.
Arguments fail_invocation {V MV}. Arguments interrupted_failure {V MV}.
