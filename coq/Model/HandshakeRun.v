(* Executable entry points for the C07 correspondence run (harness/props/c07.py).
   The oracles of Model/Handshake.v are instantiated here:
     sha1      a Gallina SHA-1 (FIPS 180-4), compared with hashlib through the Accept digests
     urlparse / parse_qs / urlsplit / hyperlink / PMCE parse+accept
               finite tables recorded by the driver from the real libraries for exactly the
               arguments the implementation passed; a model query outside the table yields a
               distinguished value that can never equal the implementation's outcome. *)
From Coq Require Import NArith ZArith List Bool.
From Coq Require String.
Import String.StringSyntax.
From AV Require Import Gen.Latin1Tables Gen.HandshakeConsts Model.Handshake.
Import ListNotations.
Open Scope N_scope.

(* ---------------- SHA-1 ---------------- *)
Definition w32 : N := 4294967296.
Definition add32 (a b : N) : N := (a + b) mod w32.
Definition rotl (n x : N) : N := N.lor (N.shiftl x n mod w32) (N.shiftr x (32 - n)).
Definition not32 (x : N) : N := N.lxor x (w32 - 1).

Fixpoint be_bytes (k : nat) (v : N) : list N :=    (* k octets, big endian *)
  match k with
  | O => []
  | S k' => be_bytes k' (v / 256) ++ [v mod 256]
  end.

Definition sha1_pad (m : list N) : list N :=
  let l := N.of_nat (length m) in
  let k := (119 - l mod 64) mod 64 in
  m ++ [128] ++ repeat 0 (N.to_nat k) ++ be_bytes 8 (8 * l).

Fixpoint words (fuel : nat) (l : list N) : list N :=
  match fuel with
  | O => []
  | S f => match l with
           | a :: b :: c :: d :: r => (((a * 256 + b) * 256 + c) * 256 + d) :: words f r
           | _ => []
           end
  end.

(* schedule kept newest-first *)
Fixpoint extend (n : nat) (ws : list N) : list N :=
  match n with
  | O => ws
  | S n' => extend n' (rotl 1 (N.lxor (N.lxor (nth 2 ws 0) (nth 7 ws 0)) (N.lxor (nth 13 ws 0) (nth 15 ws 0))) :: ws)
  end.

Definition sha1_f (t : N) (b c d : N) : N :=
  if t <? 20 then N.lor (N.land b c) (N.land (not32 b) d)
  else if t <? 40 then N.lxor (N.lxor b c) d
  else if t <? 60 then N.lor (N.lor (N.land b c) (N.land b d)) (N.land c d)
  else N.lxor (N.lxor b c) d.
Definition sha1_k (t : N) : N :=
  if t <? 20 then 1518500249 else if t <? 40 then 1859775393 else if t <? 60 then 2400959708 else 3395469782.

Fixpoint sha1_rounds (t : N) (ws : list N) (a b c d e : N) : N * N * N * N * N :=
  match ws with
  | [] => (a, b, c, d, e)
  | w :: r =>
      let tmp := add32 (add32 (add32 (add32 (rotl 5 a) (sha1_f t b c d)) e) (sha1_k t)) w in
      sha1_rounds (t + 1) r tmp a (rotl 30 b) c d
  end.

Definition sha1_block (h : N * N * N * N * N) (blk : list N) : N * N * N * N * N :=
  let '(h0, h1, h2, h3, h4) := h in
  let ws := rev (extend 64 (rev (words 16 blk))) in
  let '(a, b, c, d, e) := sha1_rounds 0 ws h0 h1 h2 h3 h4 in
  (add32 h0 a, add32 h1 b, add32 h2 c, add32 h3 d, add32 h4 e).

Fixpoint sha1_blocks (fuel : nat) (h : N * N * N * N * N) (l : list N) : N * N * N * N * N :=
  match fuel with
  | O => h
  | S f => match l with
           | [] => h
           | _ => sha1_blocks f (sha1_block h (firstn 64 l)) (skipn 64 l)
           end
  end.

Definition sha1_impl (m : list N) : list N :=
  let p := sha1_pad m in
  let '(h0, h1, h2, h3, h4) :=
      sha1_blocks (S (length p / 64)) (1732584193, 4023233417, 2562383102, 271733878, 3285377520) p in
  be_bytes 4 h0 ++ be_bytes 4 h1 ++ be_bytes 4 h2 ++ be_bytes 4 h3 ++ be_bytes 4 h4.

(* ---------------- UTF-8 well-formedness (RFC 3629, Table 3-7 of Unicode) ---------------- *)
Definition in_rng (lo hi c : N) : bool := (lo <=? c) && (c <=? hi).
Fixpoint utf8_valid_fuel (fuel : nat) (s : list N) : bool :=
  match fuel with
  | O => false
  | S f =>
    match s with
    | [] => true
    | a :: r =>
        if a <? 128 then utf8_valid_fuel f r
        else if in_rng 194 223 a then
          match r with b :: r2 => in_rng 128 191 b && utf8_valid_fuel f r2 | _ => false end
        else if in_rng 224 239 a then
          match r with
          | b :: c :: r3 =>
              (if a =? 224 then in_rng 160 191 b else if a =? 237 then in_rng 128 159 b else in_rng 128 191 b)
              && in_rng 128 191 c && utf8_valid_fuel f r3
          | _ => false
          end
        else if in_rng 240 244 a then
          match r with
          | b :: c :: d :: r4 =>
              (if a =? 240 then in_rng 144 191 b else if a =? 244 then in_rng 128 143 b else in_rng 128 191 b)
              && in_rng 128 191 c && in_rng 128 191 d && utf8_valid_fuel f r4
          | _ => false
          end
        else false
    end
  end.
Definition utf8_valid (s : list N) : bool := utf8_valid_fuel (S (length s)) s.

(* ---------------- structural equality for comparing outcomes ---------------- *)
Definition opt_eqb {A} (f : A -> A -> bool) (a b : option A) : bool :=
  match a, b with Some x, Some y => f x y | None, None => true | _, _ => false end.
Fixpoint list_eqb {A} (f : A -> A -> bool) (a b : list A) : bool :=
  match a, b with
  | [], [] => true
  | x :: a', y :: b' => f x y && list_eqb f a' b'
  | _, _ => false
  end.
Definition pair_eqb {A B} (f : A -> A -> bool) (g : B -> B -> bool) (a b : A * B) : bool :=
  f (fst a) (fst b) && g (snd a) (snd b).

Definition exn_eqb (a b : exn) : bool :=
  match a, b with
  | ValueError, ValueError | UnicodeDecodeError, UnicodeDecodeError | IndexError, IndexError
  | URLParseError, URLParseError | IDNAError, IDNAError | InvalidCodepoint, InvalidCodepoint => true
  | OtherExn x, OtherExn y => str_eqb x y
  | _, _ => false
  end.

Definition params_eqb : ext_params -> ext_params -> bool :=
  list_eqb (pair_eqb str_eqb (list_eqb (opt_eqb str_eqb))).

Definition s_outcome_eqb (a b : s_outcome) : bool :=
  match a, b with
  | SOpen r p rest, SOpen r' p' rest' => str_eqb r r' && opt_eqb str_eqb p p' && str_eqb rest rest'
  | SHttpError c h, SHttpError c' h' => (c =? c')%Z && list_eqb (pair_eqb str_eqb str_eqb) h h'
  | SStatusPage r, SStatusPage r' => opt_eqb (pair_eqb str_eqb Z.eqb) r r'
  | SRedirect u, SRedirect u' => str_eqb u u'
  | SFlashPolicy, SFlashPolicy | SNeedMore, SNeedMore | SStuck, SStuck => true
  | SEscaped e, SEscaped e' => exn_eqb e e'
  | _, _ => false
  end.

Definition c_outcome_eqb (a b : c_outcome) : bool :=
  match a, b with
  | COpen p x rest, COpen p' x' rest' => opt_eqb str_eqb p p' && list_eqb str_eqb x x' && str_eqb rest rest'
  | CFailed, CFailed | CNeedMore, CNeedMore => true
  | CEscaped e, CEscaped e' => exn_eqb e e'
  | _, _ => false
  end.

(* ---------------- table oracles ---------------- *)
Definition MISS : str := Eval cbv in lit "oracle-miss".

Fixpoint lookup {A} (k : str) (t : list (str * A)) : option A :=
  match t with
  | [] => None
  | (k', v) :: r => if str_eqb k k' then Some v else lookup k r
  end.

Fixpoint lookup_ext {A} (n : str) (p : ext_params) (t : list (str * ext_params * A)) : option A :=
  match t with
  | [] => None
  | (n', p', v) :: r => if str_eqb n n' && params_eqb p p' then Some v else lookup_ext n p r
  end.

(* what the user's onConnect does in a run *)
Inductive policy :=
| PNone                                   (* return None (the default) *)
| PFirstOf (mine : list str)              (* first of the client's protocols that the server speaks, else None *)
| PFixed (p : str)                        (* return p whatever the client sent *)
| PTuple (p : option str) (h : list (str * list str))
| PDeny (code : Z)
| PError.

Definition run_policy (pl : policy) (rq : s_request) : conn_res :=
  match pl with
  | PNone => CrPlain None
  | PFirstOf mine => CrPlain (find (fun p => mem_str p mine) (rq_protocols rq))
  | PFixed p => CrPlain (Some p)
  | PTuple p h => CrTuple p h
  | PDeny c => CrDeny c
  | PError => CrError
  end.

Record tables := {
  t_uri : list (str * uri_res);
  t_qs : list (str * option (list (str * list str)));
  t_split : list (str * urlsplit_res);
  t_hl : list (str * hl_res);
  t_offer : list (str * ext_params * bool);
  t_accept : option str;
  t_response : list (str * ext_params * ext_verdict)
}.

Definition run_env (t : tables) (pl : policy) : env := {|
  urlparse_o := fun s => match lookup s (t_uri t) with Some r => r | None => UriOk MISS MISS MISS end;
  parse_qs_o := fun s => match lookup s (t_qs t) with Some r => r | None => Some [(REDIRECT_S, [MISS]); (AFTER_S, [MISS])] end;
  urlsplit_o := fun s => match lookup s (t_split t) with Some r => r | None => UsOk MISS (Some MISS) PortNone end;
  hyperlink_o := fun s => match lookup s (t_hl t) with Some r => r | None => HlRaises (OtherExn MISS) end;
  sha1 := sha1_impl;
  on_connect := run_policy pl;
  pmce_offer_ok := fun n p => match lookup_ext n p (t_offer t) with Some b => b | None => false end;
  pmce_accept := fun _ => t_accept t;
  pmce_response := fun n p => match lookup_ext n p (t_response t) with Some v => v | None => ExtParseError end
|}.

(* ---------------- cases ---------------- *)
Record server_case := {
  sc_cfg : scfg; sc_policy : policy; sc_tables : tables;
  sc_chunks : list str; sc_expect : s_outcome }.

Definition server_case_ok (c : server_case) : bool :=
  s_outcome_eqb (s_result (s_run (sc_cfg c) (run_env (sc_tables c) (sc_policy c)) (sc_chunks c))) (sc_expect c).

Definition server_case_out (c : server_case) : s_outcome :=
  s_result (s_run (sc_cfg c) (run_env (sc_tables c) (sc_policy c)) (sc_chunks c)).

(* the factory's URL as urllib sees it: urlparse(url) and unquote(path or "/"), plus what the factory stored as its path *)
Record url_case := { uc_parsed : urlparse_full; uc_unquoted : str; uc_factory_path : str }.

Definition url_case_ok (c : ccfg) (u : url_case) : bool :=
  match parse_url (fun _ => uc_unquoted u) (uc_parsed u) with
  | Some p => str_eqb (u_host p) (c_host c) && (u_port p =? c_port c)%Z && str_eqb (u_resource p) (c_resource c)
              && str_eqb (u_path p) (uc_factory_path u)
  | None => false
  end.

Record client_case := {
  cc_cfg : ccfg; cc_url : option url_case; cc_nonce : list N; cc_tables : tables;
  cc_request : str;                      (* octets the implementation wrote in connectionMade *)
  cc_chunks : list str; cc_expect : c_outcome }.

Definition header_of (chunks : list str) : option str :=
  match split_eoh (concat chunks) with Some (h, _) => Some h | None => None end.

Definition client_case_ok (c : client_case) : bool :=
  let e := run_env (cc_tables c) PNone in
  match cc_url c with Some u => url_case_ok (cc_cfg c) u | None => true end
  && str_eqb (c_request (cc_cfg c) (cc_nonce c)) (cc_request c)
  && c_outcome_eqb (c_result (c_run (cc_cfg c) e (client_key (cc_nonce c)) (cc_chunks c))) (cc_expect c).

Definition client_case_out (c : client_case) :=
  (c_request (cc_cfg c) (cc_nonce c),
   c_result (c_run (cc_cfg c) (run_env (cc_tables c) PNone) (client_key (cc_nonce c)) (cc_chunks c))).

(* origin allow-list: the wildcard matcher against Python's re on (pattern, origin header) pairs *)
Definition wild_case := (str * str * bool)%type.
Definition wild_case_ok (c : wild_case) : bool :=
  let '(p, s, expect) := c in Bool.eqb (wild_match p s) expect.

(* Python primitives against the interpreter: (kind, input, expected) *)
Inductive prim_case :=
| PcSplitlines (s : str) (r : list str)
| PcStrip (s r : str)
| PcLower (s r : str)
| PcSplitWs (s : str) (r : list str)
| PcInt (s : str) (r : option Z)
| PcB64 (s r : str)
| PcSha1 (s r : list N)
| PcUtf8 (s : list N) (r : bool)
| PcExt (s : str) (r : list extension)
| PcHeader (s : str) (r : option (str * hdrs))
| PcOrigin (s : str) (us : urlsplit_res) (r : option origin)      (* _url_to_origin on one Origin value *)
| PcSameOrigin (o : origin) (allowed : list str) (r : bool).      (* _is_same_origin on a triple and an allow-list *)

Definition ext_eqb : extension -> extension -> bool := pair_eqb str_eqb params_eqb.
Definition hdrs_eqb : hdrs -> hdrs -> bool := list_eqb (pair_eqb str_eqb (pair_eqb str_eqb N.eqb)).

Definition origin_eqb (a b : origin) : bool :=
  match a, b with
  | ONull, ONull => true
  | OTriple s h p, OTriple s' h' p' => str_eqb s s' && str_eqb h h' && opt_eqb Z.eqb p p'
  | _, _ => false
  end.

Definition prim_case_ok (c : prim_case) : bool :=
  match c with
  | PcSplitlines s r => list_eqb str_eqb (splitlines s) r
  | PcStrip s r => str_eqb (strip s) r
  | PcLower s r => str_eqb (lower s) r
  | PcSplitWs s r => list_eqb str_eqb (split_ws s) r
  | PcInt s r => opt_eqb Z.eqb (py_int s) r
  | PcB64 s r => str_eqb (b64_encode s) r
  | PcSha1 s r => str_eqb (sha1_impl s) r
  | PcUtf8 s r => Bool.eqb (utf8_valid s) r
  | PcExt s r => list_eqb ext_eqb (parse_extensions_header s) r
  | PcHeader s r => opt_eqb (pair_eqb str_eqb hdrs_eqb) (parse_http_header s) r
  | PcOrigin s us r => opt_eqb origin_eqb (url_to_origin (fun _ => us) s) r
  | PcSameOrigin o allowed r => Bool.eqb (is_same_origin o allowed) r
  end.

(* sanity: FIPS 180 "abc" vector and the RFC 6455 section 1.3 example *)
Example sha1_abc : sha1_impl [97; 98; 99] =
  [169; 153; 62; 54; 71; 6; 129; 106; 186; 62; 37; 113; 120; 80; 194; 108; 156; 208; 216; 157].
Proof. vm_compute. reflexivity. Qed.
Example rfc6455_accept :
  accept_of sha1_impl (lit "dGhlIHNhbXBsZSBub25jZQ==") = lit "s3pPLMBiTxaQ9kYGzzhZRbK+xOo=".
Proof. vm_compute. reflexivity. Qed.

(* multi-connection scenarios: the trace of (countConnections, per-connection OPEN?) after every operation *)
Definition multi_case := (N * list fop * list (N * list bool))%type.
Fixpoint f_trace (mx : N) (st : fstate) (ops : list fop) : list (N * list bool) :=
  match ops with
  | [] => []
  | o :: r => let st' := f_step mx st o in
              (f_count st', map (fun s => match s with KOpen => true | KGone => false end) (f_conns st')) :: f_trace mx st' r
  end.
Definition multi_case_ok (c : multi_case) : bool :=
  let '(mx, ops, expect) := c in
  list_eqb (pair_eqb N.eqb (list_eqb Bool.eqb)) (f_trace mx f_init ops) expect.

(* configuration plumbing: the factory was configured by a SEQUENCE of setProtocolOptions calls; the model runs on the
   configuration those calls are documented to produce: defaults / constructor values overridden call by call *)
Record config_case := {
  fc_base : scfg; fc_calls : list s_update; fc_policy : policy; fc_tables : tables; fc_chunks : list str; fc_expect : s_outcome }.
Definition config_case_ok (c : config_case) : bool :=
  s_outcome_eqb (s_result (s_run (configure (fc_base c) (fc_calls c)) (run_env (fc_tables c) (fc_policy c)) (fc_chunks c))) (fc_expect c).
Definition config_case_out (c : config_case) : s_outcome :=
  s_result (s_run (configure (fc_base c) (fc_calls c)) (run_env (fc_tables c) (fc_policy c)) (fc_chunks c)).
