(* Model of the WAMP-over-RawSocket transports (definitions only).
   Sources mirrored (tree under test, $AV_REPO/src/autobahn):
     twisted/rawsocket.py   WampRawSocketProtocol / WampRawSocketServerProtocol / WampRawSocketClientProtocol
     asyncio/rawsocket.py   PrefixProtocol / RawSocketProtocol / RawSocket{Client,Server}Protocol /
                            WampRawSocketMixinGeneral / WampRawSocketMixinAsyncio
     twisted.protocols.basic.IntNStringReceiver (Twisted 26.4.0, library code: modelled from its source, trusted base)
   Octets are N (< 256), lengths are N.  Python exceptions are explicit: an exception that leaves a framework entry
   point (dataReceived / data_received) is the event [Escaped e]; an exception returned to the caller of the
   ITransport API (send / close / abort) is [Raised e].
   Environment assumption (named in the trusted base): once a framing-level failure closed the transport or let an
   exception escape, or once the opening handshake was refused, the lower transport delivers no further octets
   (Twisted's reactor disconnects a selectable whose doRead raised; asyncio transports stop reading after
   close()/abort() and force-close on an exception from data_received).  This is the absorbing state [FDead]/[PDead];
   the buffer the code would still hold there is never read again. *)
From Coq Require Import NArith List Bool.
From AV Require Import Gen.RawSocketConsts.
Import ListNotations.
Open Scope N_scope.

Definition blen (d : list N) : N := N.of_nat (length d).

Inductive exn :=
| ETransportLost      (* autobahn.wamp.exception.TransportLost *)
| EPayloadExceeded    (* autobahn.exception.PayloadExceededError *)
| ENotImplemented     (* NotImplementedError (PrefixProtocol.ping / pong) *)
| EValueError         (* ValueError("Data too big") of PrefixProtocol.sendString *)
| ESerialization      (* autobahn.wamp.exception.SerializationError *)
| EOther.             (* anything else, propagated unchanged *)

(* ------------------------------------------------------------------------------------------------------------- *)
(* 1. The 4-octet opening handshake: one decision function per implementation and role                            *)
(* ------------------------------------------------------------------------------------------------------------- *)

Definition hi4 (o : N) : N := N.shiftr o 4.          (* o >> 4 *)
Definition lo4 (o : N) : N := N.land o 15.           (* o & 0x0F *)
Definition memN (x : N) (l : list N) : bool := existsb (N.eqb x) l.
Definition max_send_of (o2 : N) : N := 2 ^ (9 + hi4 o2).
Definition octet2 (lexp ser : N) : N := N.lor (N.shiftl lexp 4) ser.

Inductive hs_out :=
| HsAttach (ser max_send : N) (reply : list N)   (* session factory called, session.onOpen(self); reply written first *)
| HsRefuse (abort : bool) (reply : list N)        (* abort = true: transport.abortConnection(); false: transport.close() *)
| HsEscaped (e : exn) (reply : list N).           (* exception leaves dataReceived / data_received *)

(* twisted/rawsocket.py WampRawSocketServerProtocol.dataReceived, "if len(self._handshake_bytes) == 4:" block.
   [sup] = keys of factory._serializers, [rexp] = int(math.ceil(math.log(self._max_message_size, 2))). *)
Definition tx_server_hs (sup : list N) (rexp : N) (o1 o2 o3 o4 : N) : hs_out :=
  if negb (o1 =? 127) then HsRefuse true []                              (* _magic != 127: self.abort(); return *)
  else if negb (o3 =? 0) || negb (o4 =? 0) then HsRefuse true []          (* _handshake_bytes[2:4] != b"\x00\x00": abort *)
  else let ser := lo4 o2 in                                               (* ser_id = octet2 & 0x0F *)
       if memN ser sup                                                    (* ser_id in self.factory._serializers *)
       then HsAttach ser (max_send_of o2)                                 (* _max_len_send = 2 ** (9 + (octet2 >> 4)) *)
                     [127; octet2 (rexp - 9) ser; 0; 0]                   (* three transport.write calls *)
       else HsRefuse true [].                                             (* no suitable serializer: self.abort(); return *)

(* twisted/rawsocket.py WampRawSocketClientProtocol.dataReceived; [own] = factory._serializer.RAWSOCKET_SERIALIZER_ID *)
Definition tx_client_hs (own : N) (o1 o2 o3 o4 : N) : hs_out :=
  if negb (o1 =? 127) then HsRefuse true []
  else if negb (o3 =? 0) || negb (o4 =? 0) then HsRefuse true []          (* reserved octets must be zero *)
  else if negb (lo4 o2 =? own) then HsRefuse true []                     (* ser_id != self._serializer.RAWSOCKET_SERIALIZER_ID *)
  else HsAttach (lo4 o2) (max_send_of o2) [].

(* asyncio/rawsocket.py RawSocketProtocol.parse_handshake: None = HandshakeError *)
Definition aio_parse_handshake (o1 o2 o3 o4 : N) : option (N * N) :=
  if negb (o1 =? 127) then None                                           (* buf[0] != MAGIC_BYTE *)
  else if negb (o3 =? 0) || negb (o4 =? 0) then None                      (* "Reserved bytes must be zero" *)
  else Some (lo4 o2, hi4 o2).                                             (* ser, lexp; max_length_send = 2 ** (lexp + 9) *)

(* asyncio/rawsocket.py RawSocketServerProtocol.process_handshake + WampRawSocketServerProtocol.supports_serializer;
   HandshakeError -> RawSocketProtocol.data_received: protocol_error -> transport.close().
   Unsupported serializer: send_response(ERR_SERIALIZER_UNSUPPORTED = 1, 0) writes 7F 10 00 00, then HandshakeError. *)
Definition aio_server_hs (sup : list N) (lexp : N) (o1 o2 o3 o4 : N) : hs_out :=
  match aio_parse_handshake o1 o2 o3 o4 with
  | None => HsRefuse false []
  | Some (ser, peer_lexp) =>
      if memN ser sup
      then HsAttach ser (2 ^ (peer_lexp + 9)) [127; octet2 lexp (N.land ser 15); 0; 0]   (* send_response(self._length_exp, ser_id) *)
      else HsRefuse false [127; octet2 1 (N.land 0 15); 0; 0]                             (* send_response(1, 0); raise HandshakeError *)
  end.

(* asyncio/rawsocket.py RawSocketClientProtocol.process_handshake *)
Definition aio_client_hs (own : N) (o1 o2 o3 o4 : N) : hs_out :=
  match aio_parse_handshake o1 o2 o3 o4 with
  | None => HsRefuse false []
  | Some (ser, peer_lexp) =>
      if ser =? 0 then HsRefuse false []                                  (* "Server returned handshake error" *)
      else if negb (own =? ser) then HsRefuse false []                    (* different serializer *)
      else HsAttach ser (2 ^ (peer_lexp + 9)) []
  end.

(* what each client writes in connectionMade / connection_made *)
Definition tx_client_request (own rexp : N) : list N := [127; octet2 (rexp - 9) own; 0; 0].
Definition aio_client_request (own lexp : N) : list N := [127; octet2 lexp own; 0; 0].

(* ------------------------------------------------------------------------------------------------------------- *)
(* 2. Length-prefixed framing: the two receive-buffer machines                                                    *)
(* ------------------------------------------------------------------------------------------------------------- *)

Inductive fev :=
| FFrame (p : list N)        (* stringReceived(p) *)
| FLose                      (* PrefixProtocol.protocol_error: transport.close() *)
| FEscaped (e : exn).

Inductive fstate :=
| FOpen (buf : list N) (hdr : option (N * N))   (* Twisted: _unprocessed (hdr = None); asyncio: _buffer, _header *)
| FDead                                          (* see the environment assumption in the header *)
| FOutOfFuel.                                    (* never produced when the fuel is >= the buffer length (proved) *)

Definition be32 (b0 b1 b2 b3 : N) : N := ((b0 * 256 + b1) * 256 + b2) * 256 + b3.     (* struct.unpack("!I") *)
Definition be24 (b1 b2 b3 : N) : N := (b1 * 256 + b2) * 256 + b3.                     (* unpack("!L", b"\0" + header[1:]) *)

(* twisted.protocols.basic.IntNStringReceiver.dataReceived (prefixLength 4, "!I"), with
   WampRawSocketProtocol.lengthLimitExceeded, which RAISES PayloadExceededError (so the exception leaves
   dataReceived).  [paused] and the [recvd] compatibility hack are not used by autobahn and not modelled. *)
Fixpoint tx_loop (fuel : nat) (maxlen : N) (u : list N) : fstate * list fev :=
  match u with
  | b0 :: b1 :: b2 :: b3 :: rest =>                         (* len(alldata) >= currentOffset + prefixLength *)
      let len := be32 b0 b1 b2 b3 in
      if maxlen <? len then (FDead, [FEscaped EPayloadExceeded])     (* length > self.MAX_LENGTH: lengthLimitExceeded *)
      else if blen rest <? len then (FOpen u None, [])               (* len(alldata) < messageEnd: break *)
      else match fuel with
           | O => (FOutOfFuel, [])
           | S f => let '(s, evs) := tx_loop f maxlen (skipn (N.to_nat len) rest) in
                    (s, FFrame (firstn (N.to_nat len) rest) :: evs)  (* self.stringReceived(packet) *)
           end
  | _ => (FOpen u None, [])
  end.

Definition tx_feed (maxlen : N) (s : fstate) (d : list N) : fstate * list fev :=
  match s with
  | FOpen u _ => tx_loop (length (u ++ d)) maxlen (u ++ d)          (* alldata = self._unprocessed + data *)
  | _ => (s, [])
  end.

(* asyncio/rawsocket.py PrefixProtocol.data_received.  The WAMP classes do not define ping()/pong(): a complete
   PING/PONG frame raises NotImplementedError out of data_received. *)
Fixpoint aio_loop (fuel : nat) (maxlen : N) (hdr : option (N * N)) (buf : list N) : fstate * list fev :=
  match buf with
  | b0 :: b1 :: b2 :: b3 :: rest =>                          (* while remaining >= self.prefix_length *)
      let dec :=
        match hdr with
        | Some h => Some h                                    (* if self._header: reuse, no re-validation *)
        | None => let t := N.land b0 7 in                     (* frame_type = ord(header[0:1]) & 0b00000111 *)
                  if 2 <? t then None                         (* frame_type > FRAME_TYPE_PONG: protocol_error *)
                  else let l := be24 b1 b2 b3 in
                       if maxlen <? l then None               (* frame_length > self.max_length: protocol_error *)
                       else Some (t, l)
        end in
      match dec with
      | None => (FDead, [FLose])
      | Some (t, l) =>
          if blen rest <? l then (FOpen buf (Some (t, l)), [])        (* save header; break *)
          else if t =? 0
          then match fuel with
               | O => (FOutOfFuel, [])
               | S f => let '(s, evs) := aio_loop f maxlen None (skipn (N.to_nat l) rest) in
                        (s, FFrame (firstn (N.to_nat l) rest) :: evs)
               end
          else (FDead, [FEscaped ENotImplemented])                     (* self.ping(data) / self.pong(data) *)
      end
  | _ => (FOpen buf hdr, [])
  end.

Definition aio_feed (maxlen : N) (s : fstate) (d : list N) : fstate * list fev :=
  match s with
  | FOpen u h => aio_loop (length (u ++ d)) maxlen h (u ++ d)       (* self._buffer += data *)
  | _ => (s, [])
  end.

(* the only states the asyncio machine reaches: parsing the buffer again from scratch is a no-op that yields
   exactly the saved header *)
Definition aio_wf (maxlen : N) (s : fstate) : Prop :=
  match s with
  | FOpen u h => aio_loop (length u) maxlen None u = (FOpen u h, [])
  | FDead => True
  | FOutOfFuel => False
  end.
Definition tx_wf (maxlen : N) (s : fstate) : Prop :=
  match s with
  | FOpen u h => h = None /\ tx_loop (length u) maxlen u = (FOpen u None, [])
  | FDead => True
  | FOutOfFuel => False
  end.

(* feeding a list of segments *)
Fixpoint feed_all (feed : fstate -> list N -> fstate * list fev) (s : fstate) (segs : list (list N))
  : fstate * list fev :=
  match segs with
  | [] => (s, [])
  | d :: r => let '(s1, e1) := feed s d in let '(s2, e2) := feed_all feed s1 r in (s2, e1 ++ e2)
  end.

(* ------------------------------------------------------------------------------------------------------------- *)
(* 3. Send side                                                                                                   *)
(* ------------------------------------------------------------------------------------------------------------- *)

Definition enc32 (n : N) : list N := [n / 16777216 mod 256; n / 65536 mod 256; n / 256 mod 256; n mod 256].
Definition encode_frame (p : list N) : list N := enc32 (blen p) ++ p.     (* pack("!I", len(string)) + string *)

Inductive ser_out :=
| SerOk (payload : list N)
| SerFailSerialization         (* serializer raised SerializationError *)
| SerFailOther.                (* serializer raised something else (e.g. TypeError from json.dumps) *)

Inductive send_res := Sent (octets : list N) | SendRaise (e : exn).

(* twisted/rawsocket.py WampRawSocketProtocol.send + IntNStringReceiver.sendString *)
Definition tx_send (attached : bool) (max_send : N) (so : ser_out) : send_res :=
  if negb attached then SendRaise ETransportLost                           (* not self.isOpen() *)
  else match so with
       | SerFailSerialization | SerFailOther => SendRaise ESerialization   (* except Exception -> SerializationError *)
       | SerOk p => if (0 <? max_send) && (max_send <? blen p)             (* 0 < self._max_len_send < payload_len *)
                    then SendRaise EPayloadExceeded
                    else if 4294967296 <=? blen p then SendRaise EOther    (* StringTooLongError *)
                    else Sent (encode_frame p)
       end.

(* asyncio/rawsocket.py WampRawSocketMixinGeneral.send + PrefixProtocol.sendString *)
Definition aio_send (attached : bool) (max_send : N) (so : ser_out) : send_res :=
  if negb attached then SendRaise ETransportLost
  else match so with
       | SerFailSerialization | SerFailOther => SendRaise ESerialization   (* except Exception -> SerializationError *)
       | SerOk p => if max_send <? blen p then SendRaise EPayloadExceeded  (* send(): payload_len > self.max_length_send *)
                    else if max_send <? blen p then SendRaise EValueError  (* sendString(): l > self.max_length_send (dead) *)
                    else if 4294967296 <=? blen p then SendRaise EOther    (* struct.error *)
                    else Sent (encode_frame p)                             (* write(header); write(data) *)
       end.

(* ------------------------------------------------------------------------------------------------------------- *)
(* 4. The connection machine: handshake phase, framing, stringReceived ladder, connectionLost, ITransport API      *)
(* ------------------------------------------------------------------------------------------------------------- *)

Inductive impl := Tx | Aio.
Inductive role := Server | Client.

Record cfg := {
  c_impl : impl;
  c_role : role;
  c_sers : list N;       (* server: keys of factory._serializers; client: [own RAWSOCKET_SERIALIZER_ID] *)
  c_max : N;             (* Twisted: factory._max_message_size (512..2^24); asyncio: max_length (2^24 unless overridden) *)
  c_open_raises : bool   (* session.onOpen raises *)
}.

Definition own_ser (c : cfg) : N := hd 0 (c_sers c).
Definition tx_rexp (c : cfg) : N := N.log2_up (c_max c).          (* int(math.ceil(math.log(max_message_size, 2))) *)
Definition aio_lexp : N := 15.                                     (* RawSocketProtocol.__init__: self._length_exp = 15 *)
(* the receive limit in force once frames flow.  Twisted: the expression assigned to self.MAX_LENGTH by each role
   (server: in the handshake block of dataReceived; client: in connectionMade), TRANSLATED FROM THE SOURCE on every run
   (Gen/RawSocketConsts.v) - that it equals 2^(9 + announced nibble) is a theorem (C13_rs_announced_is_enforced), not a
   modelling decision.  asyncio: self.max_length (2^24 from RawSocketProtocol.__init__ unless overridden). *)
Definition recv_max (c : cfg) : N :=
  match c_impl c, c_role c with
  | Tx, Server => gen_tx_server_recv_limit (c_max c)
  | Tx, Client => gen_tx_client_recv_limit (c_max c)
  | Aio, _ => c_max c
  end.

Definition hs_decide (c : cfg) (o1 o2 o3 o4 : N) : hs_out :=
  match c_impl c, c_role c with
  | Tx, Server => tx_server_hs (c_sers c) (tx_rexp c) o1 o2 o3 o4
  | Tx, Client => tx_client_hs (own_ser c) o1 o2 o3 o4
  | Aio, Server => aio_server_hs (c_sers c) aio_lexp o1 o2 o3 o4
  | Aio, Client => aio_client_hs (own_ser c) o1 o2 o3 o4
  end.

Definition frame_feed (c : cfg) : fstate -> list N -> fstate * list fev :=
  match c_impl c with Tx => tx_feed (recv_max c) | Aio => aio_feed (recv_max c) end.

(* what the session does with one message *)
Inductive reaction := ROk | RProto (* raises ProtocolError *) | RCancel (* twisted CancelledError *) | ROther.
(* what a frame payload is: undecodable (serializer.unserialize raises ProtocolError), or a batch of messages
   (id, reaction of the session) *)
Inductive fclass := Undecodable | Batch (ms : list (N * reaction)).

Inductive ev :=
| Write (d : list N)
| Abort                       (* transport.abortConnection() / transport.abort() *)
| Lose                        (* transport.loseConnection() / transport.close() *)
| SessOpen                    (* session.onOpen(transport) called *)
| SessMsg (id : N)            (* session.onMessage(msg) called *)
| SessClose (clean : bool)    (* session.onClose(wasClean) called *)
| Escaped (e : exn)
| Raised (e : exn).

(* stringReceived: the for-loop over the unserialized batch and the exception ladder *)
Fixpoint deliver (i : impl) (ms : list (N * reaction)) : list ev :=
  match ms with
  | [] => []
  | (id, r) :: rest =>
      SessMsg id ::
      match r, i with
      | ROk, _ => deliver i rest
      | RCancel, Tx => []                  (* except CancelledError: "connection will continue"; rest of the batch dropped *)
      | _, _ => [Abort]                    (* every other except clause: self.abort() *)
      end
  end.
Definition string_received (i : impl) (fc : fclass) : list ev :=
  match fc with
  | Undecodable => [Abort]                 (* ProtocolError from unserialize -> self.abort() *)
  | Batch ms => deliver i ms
  end.

(* framing events -> transport/session events; every FFrame consumes one script entry (missing entry = undecodable) *)
Fixpoint upper (i : impl) (script : list fclass) (fevs : list fev) : list fclass * list ev :=
  match fevs with
  | [] => (script, [])
  | FFrame _ :: r =>
      let fc := hd Undecodable script in
      let '(sc, evs) := upper i (tl script) r in (sc, string_received i fc ++ evs)
  | FLose :: r => let '(sc, evs) := upper i script r in (sc, Lose :: evs)
  | FEscaped e :: r => let '(sc, evs) := upper i script r in (sc, Escaped e :: evs)
  end.

Inductive cphase :=
| PHs (hb : list N)                       (* _handshake_bytes / _buffer before _handshake_done; fewer than 4 octets *)
| PEst (ser max_send : N) (f : fstate)    (* handshake complete *)
| PDead                                   (* handshake refused (see environment assumption) *)
| PGone.                                  (* connectionLost / connection_lost processed *)

Record cstate := { ph : cphase; sess : bool (* self._session is set *); script : list fclass }.

Inductive input :=
| IData (d : list N)
| ILost (clean : bool)
| ISend (so : ser_out)
| IClose
| IAbort.

Definition conn_init (script : list fclass) : cstate := {| ph := PHs []; sess := false; script := script |}.
(* connectionMade / connection_made *)
Definition conn_made (c : cfg) : list ev :=
  match c_role c, c_impl c with
  | Server, _ => []
  | Client, Tx => [Write (tx_client_request (own_ser c) (tx_rexp c))]
  | Client, Aio => [Write (aio_client_request (own_ser c) aio_lexp)]
  end.

Definition wr (d : list N) : list ev := match d with [] => [] | _ => [Write d] end.

Definition data_est (c : cfg) (ser ms : N) (f : fstate) (sc : list fclass) (d : list N) : cphase * list fclass * list ev :=
  let '(f', fevs) := frame_feed c f d in
  let '(sc', evs) := upper (c_impl c) sc fevs in
  (PEst ser ms f', sc', evs).

(* how each implementation cuts the handshake octets off a read: (handshake octets so far, octets left over).
   Twisted (both dataReceived): remaining = 4 - len(self._handshake_bytes); self._handshake_bytes += data[:remaining];
                                ... data = data[remaining:]; if data: self.dataReceived(data)
   asyncio (RawSocketProtocol.data_received): self._buffer += data; if len(self._buffer) >= 4: process_handshake() reads
                                self._buffer[:4]; data = self._buffer[4:]; self._buffer = b"" *)
Definition hs_take (i : impl) (hb d : list N) : list N * list N :=
  match i with
  | Tx => let remaining := (4 - length hb)%nat in (hb ++ firstn remaining d, skipn remaining d)
  | Aio => (firstn 4 (hb ++ d), skipn 4 (hb ++ d))
  end.

(* the decision on four handshake octets applied to the connection; [rest] goes to the frame receiver *)
Definition hs_apply (c : cfg) (s : cstate) (o1 o2 o3 o4 : N) (rest : list N) : cstate * list ev :=
  match hs_decide c o1 o2 o3 o4 with
  | HsAttach ser ms reply =>
      (* reply written; _on_handshake_complete: session = factory(); session.onOpen(self) (raises -> abort());
         then the octets after the handshake go to the frame receiver *)
      let '(p, sc, evs) := data_est c ser ms (FOpen [] None) (script s) rest in
      ({| ph := p; sess := true; script := sc |},
       wr reply ++ SessOpen :: (if c_open_raises c then [Abort] else []) ++ evs)
  | HsRefuse ab reply =>
      ({| ph := PDead; sess := false; script := script s |}, wr reply ++ [if ab then Abort else Lose])
  | HsEscaped e reply =>
      ({| ph := PDead; sess := false; script := script s |}, wr reply ++ [Escaped e])
  end.

Definition conn_data (c : cfg) (s : cstate) (d : list N) : cstate * list ev :=
  match ph s with
  | PHs hb =>
      let '(h4, rest) := hs_take (c_impl c) hb d in
      match h4 with
      | [o1; o2; o3; o4] => hs_apply c s o1 o2 o3 o4 rest           (* len(self._handshake_bytes) == 4 *)
      | few => ({| ph := PHs few; sess := sess s; script := script s |}, [])
      end
  | PEst ser ms f =>
      let '(p, sc, evs) := data_est c ser ms f (script s) d in
      ({| ph := p; sess := sess s; script := sc |}, evs)
  | PDead | PGone => (s, [])
  end.

Definition conn_step (c : cfg) (s : cstate) (i : input) : cstate * list ev :=
  match i with
  | IData d => conn_data c s d
  | ILost clean =>
      match ph s with
      | PGone => (s, [])                    (* the framework reports the loss once *)
      | _ => ({| ph := PGone; sess := false; script := script s |},
              if sess s then [SessClose clean] else [])      (* if self._session: onClose(wasClean); self._session = None *)
      end
  | ISend so =>
      let ms := match ph s with PEst _ m _ => m | _ => 0 end in
      match (match c_impl c with Tx => tx_send | Aio => aio_send end) (sess s) ms so with
      | Sent o => (s, [Write o])
      | SendRaise e => (s, [Raised e])
      end
  | IClose => (s, if sess s then [Lose] else [Raised ETransportLost])
  | IAbort =>
      match c_impl c with
      | Tx => (s, [Abort])                  (* guards on self.transport, which Twisted never clears *)
      | Aio => (s, if sess s then [Abort] else [Raised ETransportLost])
      end
  end.

Fixpoint conn_run (c : cfg) (s : cstate) (ins : list input) : cstate * list ev :=
  match ins with
  | [] => (s, [])
  | i :: r => let '(s1, e1) := conn_step c s i in let '(s2, e2) := conn_run c s1 r in (s2, e1 ++ e2)
  end.

(* observer automaton over the session-facing events: NoSession -> (SessOpen) -> Attached -> (SessClose) -> Told *)
Inductive obs := ONone | OAttached | OTold | OBad.
Definition obs_step (o : obs) (e : ev) : obs :=
  match e, o with
  | SessOpen, ONone => OAttached
  | SessOpen, _ => OBad
  | SessMsg _, OAttached => OAttached
  | SessMsg _, _ => OBad
  | SessClose _, OAttached => OTold
  | SessClose _, _ => OBad
  | _, o => o
  end.
Definition obs_run (o : obs) (evs : list ev) : obs := fold_left obs_step evs o.

Definition is_close (e : ev) : bool := match e with SessClose _ => true | _ => false end.
Definition count_close (evs : list ev) : nat := length (filter is_close evs).
