(* Value universe of deserialized WAMP structures (definitions only).
   What json / msgpack / cbor2 hand to autobahn.wamp.message.<Class>.parse:
     None | bool | int | float(+anything else, opaque) | str | bytes | list | dict.
   Strings are lists of Unicode code points, bytes are lists of octets, both as N.
   A dict is an association list in iteration order; a key that is not a str (possible with
   CBOR / MsgPack) is the opaque [KBad] (the only thing the code does with such a key is
   `isinstance(k, str)`).
   [VFloat t] is opaque; the tag only carries the two bits Python code can observe on it:
     t = 0 : falsy  and == False  (0.0)        t = 1 : truthy and == True (1.0)
     t = 2 : falsy, not == False (exotic)      t >= 3: truthy, equal to nothing modelled. *)
From Coq Require Import NArith ZArith List Bool Lia.
Import ListNotations.

Definition str := list N.

Inductive key := KS (s : str) | KBad.

Inductive value : Type :=
| VNull
| VBool (b : bool)
| VInt (z : Z)
| VFloat (t : N)
| VStr (s : str)
| VBytes (b : list N)
| VList (l : list value)
| VDict (d : list (key * value)).

(* ---- induction principle for the nested type ---- *)
Section value_ind2.
  Variable P : value -> Prop.
  Hypothesis HNull : P VNull.
  Hypothesis HBool : forall b, P (VBool b).
  Hypothesis HInt : forall z, P (VInt z).
  Hypothesis HFloat : forall t, P (VFloat t).
  Hypothesis HStr : forall s, P (VStr s).
  Hypothesis HBytes : forall b, P (VBytes b).
  Hypothesis HList : forall l, Forall P l -> P (VList l).
  Hypothesis HDict : forall d, Forall (fun kv => P (snd kv)) d -> P (VDict d).

  Fixpoint value_ind2 (v : value) : P v :=
    match v with
    | VNull => HNull
    | VBool b => HBool b
    | VInt z => HInt z
    | VFloat t => HFloat t
    | VStr s => HStr s
    | VBytes b => HBytes b
    | VList l =>
        HList l ((fix go (l : list value) : Forall P l :=
                    match l with
                    | [] => Forall_nil P
                    | x :: r => Forall_cons x (value_ind2 x) (go r)
                    end) l)
    | VDict d =>
        HDict d ((fix go (d : list (key * value)) : Forall (fun kv => P (snd kv)) d :=
                    match d with
                    | [] => Forall_nil _
                    | kv :: r => Forall_cons kv (value_ind2 (snd kv)) (go r)
                    end) d)
    end.
End value_ind2.

(* ---- size (for size-based arguments) ---- *)
Fixpoint vsize (v : value) : nat :=
  match v with
  | VList l => S (fold_right (fun x n => vsize x + n) 0 l)
  | VDict d => S (fold_right (fun kv n => vsize (snd kv) + n) 0 d)
  | _ => 1
  end.

(* ---- decidable equality ---- *)
Fixpoint str_eqb (a b : list N) : bool :=
  match a, b with
  | [], [] => true
  | x :: a', y :: b' => N.eqb x y && str_eqb a' b'
  | _, _ => false
  end.

Definition key_eqb (a b : key) : bool :=
  match a, b with
  | KS x, KS y => str_eqb x y
  | KBad, KBad => true
  | _, _ => false
  end.

Fixpoint value_eqb (a b : value) : bool :=
  match a, b with
  | VNull, VNull => true
  | VBool x, VBool y => Bool.eqb x y
  | VInt x, VInt y => Z.eqb x y
  | VFloat x, VFloat y => N.eqb x y
  | VStr x, VStr y => str_eqb x y
  | VBytes x, VBytes y => str_eqb x y
  | VList x, VList y =>
      (fix go (x y : list value) : bool :=
         match x, y with
         | [], [] => true
         | u :: x', w :: y' => value_eqb u w && go x' y'
         | _, _ => false
         end) x y
  | VDict x, VDict y =>
      (fix go (x y : list (key * value)) : bool :=
         match x, y with
         | [], [] => true
         | (k, u) :: x', (k', w) :: y' => key_eqb k k' && value_eqb u w && go x' y'
         | _, _ => false
         end) x y
  | _, _ => false
  end.

Fixpoint values_eqb (x y : list value) : bool :=
  match x, y with
  | [], [] => true
  | u :: x', w :: y' => value_eqb u w && values_eqb x' y'
  | _, _ => false
  end.

(* ---- the observations Python code makes on a value ---- *)
(* bool(x) *)
Definition truthy (v : value) : bool :=
  match v with
  | VNull => false
  | VBool b => b
  | VInt z => negb (Z.eqb z 0)
  | VFloat t => negb (N.eqb t 0 || N.eqb t 2)
  | VStr s => match s with [] => false | _ => true end
  | VBytes b => match b with [] => false | _ => true end
  | VList l => match l with [] => false | _ => true end
  | VDict d => match d with [] => false | _ => true end
  end.

Definition is_null (v : value) : bool := match v with VNull => true | _ => false end.
Definition is_str (v : value) : bool := match v with VStr _ => true | _ => false end.
Definition is_bytes (v : value) : bool := match v with VBytes _ => true | _ => false end.
Definition is_int (v : value) : bool := match v with VInt _ => true | _ => false end.   (* type(x) == int: bool excluded *)
Definition is_bool (v : value) : bool := match v with VBool _ => true | _ => false end.
Definition is_list (v : value) : bool := match v with VList _ => true | _ => false end.
Definition is_dict (v : value) : bool := match v with VDict _ => true | _ => false end.

(* x == True / x == False  (used by `x in [True, False, None]`) *)
Definition py_eq_true (v : value) : bool :=
  match v with VBool b => b | VInt z => Z.eqb z 1 | VFloat t => N.eqb t 1 | _ => false end.
Definition py_eq_false (v : value) : bool :=
  match v with VBool b => negb b | VInt z => Z.eqb z 0 | VFloat t => N.eqb t 0 | _ => false end.

(* d.get(k) / `k in d` / d[k] on a dict with string-constant key k *)
Fixpoint dget (k : str) (d : list (key * value)) : option value :=
  match d with
  | [] => None
  | (KS k', v) :: r => if str_eqb k k' then Some v else dget k r
  | (KBad, _) :: r => dget k r
  end.

Definition keys_all_str (d : list (key * value)) : bool :=
  forallb (fun kv => match fst kv with KS _ => true | KBad => false end) d.

(* ASCII string literal helper: code points of a Coq string *)
From Coq Require Import String Ascii.
Fixpoint s2l (s : string) : str :=
  match s with
  | EmptyString => []
  | String c r => N_of_ascii c :: s2l r
  end.
