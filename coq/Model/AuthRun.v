(* Executable entry points used by the C19 correspondence run (harness/props/c19.py).
   The oracles of Model/Auth.v are instantiated by FINITE TABLES holding exactly the calls the real code made to
   its primitives while computing the case (recorded by harness/impl/wamp_auth.py); a missing entry yields a
   sentinel, so a model that feeds other bytes to a primitive than the code did cannot agree by accident. *)
From Coq Require Import NArith ZArith List Bool.
From AV Require Import Model.Auth.
Import ListNotations.
Open Scope N_scope.

Definition missing : list N := [1000].

Fixpoint look1 (t : list (list N * list N)) (k : list N) : list N :=
  match t with
  | [] => missing
  | (k', v) :: r => if list_eqb k k' then v else look1 r k
  end.
Fixpoint look2 (t : list (list N * list N * list N)) (a b : list N) : list N :=
  match t with
  | [] => missing
  | (a', b', v) :: r => if list_eqb a a' && list_eqb b b' then v else look2 r a b
  end.
Fixpoint look4 (t : list (list N * list N * N * N * result (list N))) (a b : list N) (i l : N) : result (list N) :=
  match t with
  | [] => Raise OracleMissing
  | (a', b', i', l', v) :: r => if list_eqb a a' && list_eqb b b' && (i =? i') && (l =? l') then v else look4 r a b i l
  end.
Fixpoint lookr (t : list (list N * result (list N))) (k : list N) : result (list N) :=
  match t with
  | [] => Raise OracleMissing
  | (k', v) :: r => if list_eqb k k' then v else lookr r k
  end.

Record tables := mkT {
  t_h256 : list (list N * list N);
  t_hmac256 : list (list N * list N * list N);
  t_hmac1 : list (list N * list N * list N);
  t_pbkdf2 : list (list N * list N * N * N * result (list N));
  t_argon : list (list N * list N * N * N * result (list N));
  t_sign : list (list N * list N * list N);
  t_sasl : list (list N * result (list N));
  t_repr : list (list N * list N) }.

Definition exn_code (e : exn) : N :=
  match e with
  | ValueError => 0 | UnicodeEncodeError => 1 | BinasciiError => 2 | StructError => 3 | RuntimeError => 4
  | AssertionError => 5 | TypeError => 6 | PlainException => 7 | KeyError => 8 | IndexError => 9
  | OverflowError => 10 | OracleMissing => 11 | OtherExn => 12 | AttributeError => 13
  end.
Definition res_eqb {A} (eqA : A -> A -> bool) (a b : result A) : bool :=
  match a, b with
  | Ok x, Ok y => eqA x y
  | Raise e, Raise f => exn_code e =? exn_code f
  | _, _ => false
  end.

Section WithTables.
  Variable tb : tables.
  Definition r_cra := cra_on_challenge (look2 (t_hmac256 tb)) (look4 (t_pbkdf2 tb)).
  Definition r_derive_key := derive_key (look4 (t_pbkdf2 tb)).
  Definition r_wcs := compute_wcs (look2 (t_hmac256 tb)).
  Definition r_pbkdf2 := pbkdf2 (look4 (t_pbkdf2 tb)).
  Definition r_totp := compute_totp_at (look2 (t_hmac1 tb)).
  Definition r_check_totp := check_totp_at (look2 (t_hmac1 tb)).
  Definition r_scram_challenge :=
    scram_on_challenge (look1 (t_h256 tb)) (look2 (t_hmac256 tb)) (look4 (t_pbkdf2 tb)) (look4 (t_argon tb))
                       (lookr (t_sasl tb)) (look1 (t_repr tb)).
  Definition r_scram_welcome := scram_on_welcome (look2 (t_hmac256 tb)).
  Definition r_scram_run :=
    scram_obj_run (look1 (t_h256 tb)) (look2 (t_hmac256 tb)) (look4 (t_pbkdf2 tb)) (look4 (t_argon tb))
                  (lookr (t_sasl tb)) (look1 (t_repr tb)).
  Definition r_scram_cred := derive_scram_credential (look1 (t_h256 tb)) (look2 (t_hmac256 tb)) (look4 (t_argon tb)).
  Definition r_cs_sign := cs_sign_challenge (look2 (t_sign tb)).
End WithTables.

Inductive auth_case :=
  | CCra (tb : tables) (secret : str) (salted : option (pyval * N * N)) (challenge : str) (expected : result str)
  | CDeriveKey (tb : tables) (secret salt : pyval) (iterations keylen : N) (expected : result bytes)
  | CWcs (tb : tables) (key challenge : pyval) (expected : result bytes)
  | CPbkdf2 (tb : tables) (data salt : pyval) (iterations keylen : N) (expected : result bytes)
  | CTotp (tb : tables) (secret : str) (now offset : Z) (expected : result str)
  | CCheckTotp (tb : tables) (secret ticket : str) (now : Z) (expected : result bool)
  | CScramChallenge (tb : tables) (decode_salt : bool) (password authid client_nonce : str) (x : scram_extra)
                    (expected : result (bytes * bytes * bytes))      (* reply, _auth_message, _salted_password *)
  | CScramWelcome (tb : tables) (auth_message salted : bytes) (sig : pyval) (expected : result bool) (* accepted? *)
  | CScramHistory (tb : tables) (decode_salt : bool) (password authid : str) (ops : list scram_op)
                  (expected : list (result (list N)))                (* one outcome per call, see scram_obj_step *)
                  (expected_state : option bytes * option bytes)     (* _auth_message, _salted_password afterwards *)
  | CSessionWelcome (tb : tables) (strict : bool) (configured : option (list str))
                    (state : option bytes * option bytes)            (* _auth_message, _salted_password of the AuthScram *)
                    (authmethod : option str) (ax : w_authextra) (expected_joined : bool)
  | CScramCred (tb : tables) (password : str) (salt : bytes) (expected : result (bytes * bytes))
  | CCsSign (tb : tables) (seed : bytes) (challenge : pyval) (cid : option bytes) (cid_type : option str)
            (expected : result str)
  | CXor (a b : bytes) (expected : result bytes)
  | CCodec (codec : N) (input : list N) (expected : result (list N))
  | CCodecN (codec : N) (input : N) (expected : result (list N))
  | CCreate (name : str) (expected : result N).

Definition method_code (m : authmethod) : N :=
  match m with MScram => 0 | MCryptosign => 1 | MCryptosignProxy => 2 | MWampCra => 3 | MAnonymous => 4
             | MAnonymousProxy => 5 | MTicket => 6 end.
Definition map_res {A B} (f : A -> B) (r : result A) : result B := match r with Ok a => Ok (f a) | Raise e => Raise e end.
Definition eqb3 (a b : bytes * bytes * bytes) : bool :=
  let '(a1, a2, a3) := a in let '(b1, b2, b3) := b in list_eqb a1 b1 && list_eqb a2 b2 && list_eqb a3 b3.
Definition eqb2 (a b : bytes * bytes) : bool :=
  let '(a1, a2) := a in let '(b1, b2) := b in list_eqb a1 b1 && list_eqb a2 b2.

Fixpoint list_res_eqb (a b : list (result (list N))) : bool :=
  match a, b with
  | [], [] => true
  | x :: a', y :: b' => res_eqb list_eqb x y && list_res_eqb a' b'
  | _, _ => false
  end.
Definition opt_eqb (a b : option bytes) : bool :=
  match a, b with Some x, Some y => list_eqb x y | None, None => true | _, _ => false end.

Definition auth_case_ok (c : auth_case) : bool :=
  match c with
  | CCra tb s sa ch e => res_eqb list_eqb (r_cra tb s sa ch) e
  | CDeriveKey tb s sa i l e => res_eqb list_eqb (r_derive_key tb s sa i l) e
  | CWcs tb k ch e => res_eqb list_eqb (r_wcs tb k ch) e
  | CPbkdf2 tb d s i l e => res_eqb list_eqb (r_pbkdf2 tb d s i l) e
  | CTotp tb s now off e => res_eqb list_eqb (r_totp tb s now off) e
  | CCheckTotp tb s t now e => res_eqb Bool.eqb (r_check_totp tb s t now) e
  | CScramChallenge tb ds pw aid cn x e =>
    res_eqb eqb3 (map_res (fun '(reply, st) => (reply, ss_auth_message st, ss_salted_password st))
                          (r_scram_challenge tb ds pw aid cn x)) e
  | CScramWelcome tb am sp sig e =>
    res_eqb Bool.eqb (map_res (fun v => match v with Accept => true | Deny => false end)
                              (r_scram_welcome tb {| ss_auth_message := am; ss_salted_password := sp |} sig)) e
  | CScramHistory tb ds pw aid ops e est =>
    let '(o, outs) := r_scram_run tb ds pw aid scram_fresh ops in
    list_res_eqb outs e && opt_eqb (so_am o) (fst est) && opt_eqb (so_sp o) (snd est)
  | CSessionWelcome tb strict cfg st am ax e =>
    let o := {| so_nonce := None; so_am := fst st; so_sp := snd st |} in
    Bool.eqb (match session_on_welcome (look2 (t_hmac256 tb)) strict cfg o am ax with Joined => true | Aborted => false end) e
  | CScramCred tb pw salt e => res_eqb eqb2 (r_scram_cred tb pw salt) e
  | CCsSign tb seed ch cid ct e => res_eqb list_eqb (r_cs_sign tb seed ch cid ct) e
  | CXor a b e => res_eqb list_eqb (xor a b) e
  | CCodec k i e =>
    res_eqb list_eqb
      (if k =? 0 then Ok (b64encode i) else if k =? 1 then a2b_base64 i else if k =? 2 then Ok (b2a_hex i)
       else if k =? 3 then a2b_hex i else if k =? 4 then utf8_encode i else if k =? 5 then ascii_encode i
       else if k =? 8 then b32decode i else Ok (b32encode i)) e
  | CCodecN k n e => res_eqb list_eqb (if k =? 6 then Ok (dec_of_N n) else Ok (fmt_06d n)) e
  | CCreate nm e => res_eqb N.eqb (map_res method_code (create_authenticator nm)) e
  end.
