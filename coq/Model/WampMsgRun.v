(* Executable entry points for the C03 / C08 correspondence runs (harness/props/c03.py, c08.py).
   Concrete validators: a plain ASCII reading of the loose/strict URI grammar and of _CUSTOM_ATTRIBUTE,
   valid on the "uncontroversial core" only (ASCII, no trailing newline); the generated regexes of
   Model/WampUri.v (b-wampuri) cover everything else.  Theorems never depend on these instances. *)
From Coq Require Import NArith ZArith List Bool String.
From AV Require Import Model.WampValue Model.WampSchema Model.WampMsg.
Import ListNotations.
Open Scope string_scope.

(* ---------- simple validators ---------- *)
Definition is_space (c : N) : bool :=
  ((9 <=? c) && (c <=? 13) || (28 <=? c) && (c <=? 32) || (c =? 133) || (c =? 160))%N.
Definition loose_char (c : N) : bool := negb (is_space c || (c =? 46) || (c =? 35))%N.
Definition strict_char (c : N) : bool :=
  ((48 <=? c) && (c <=? 57) || (97 <=? c) && (c <=? 122) || (c =? 95))%N.

Fixpoint split_dot (s : str) : list str :=
  match s with
  | [] => [[]]
  | c :: r =>
      let parts := split_dot r in
      if (c =? 46)%N then [] :: parts
      else match parts with p :: ps => (c :: p) :: ps | [] => [[c]] end
  end.

Definition nonempty (c : str) : bool := match c with [] => false | _ => true end.
Fixpoint all_but_last_nonempty (l : list str) : bool :=
  match l with
  | [] => true
  | [_] => true
  | c :: r => nonempty c && all_but_last_nonempty r
  end.

Definition uri_simple (fl : uri_fl) (s : str) : bool :=
  let comps := split_dot s in
  let chars ok := forallb (forallb ok) comps in
  match fl with
  | LooseNonEmpty => chars loose_char && forallb nonempty comps
  | LooseEmpty => chars loose_char
  | LooseLastEmpty => chars loose_char && all_but_last_nonempty comps
  | StrictNonEmpty => chars strict_char && forallb nonempty comps
  | StrictEmpty => chars strict_char
  | StrictLastEmpty => chars strict_char && all_but_last_nonempty comps
  end.

(* ^x_([a-z][\da-z_]+)?$ *)
Definition custom_simple (s : str) : bool :=
  match s with
  | 120%N :: 95%N :: rest =>
      match rest with
      | [] => true
      | c :: r => ((97 <=? c) && (c <=? 122))%N && nonempty r && forallb strict_char r
      end
  | _ => false
  end.

Definition parse_i := parse uri_simple custom_simple.
Definition check_i := check uri_simple custom_simple.
Definition extract_i := extract custom_simple.
Definition unserialize1_i := unserialize1 uri_simple custom_simple.

(* ---------- case syntax (numerals are Z in case files) ---------- *)
Definition st (l : list Z) : str := map Z.to_N l.
Definition vs (l : list Z) : value := VStr (st l).
Definition vb (l : list Z) : value := VBytes (st l).
Definition ks (l : list Z) : key := KS (st l).
Definition vf (t : Z) : value := VFloat (Z.to_N t).
(* printable-ASCII strings are written as Coq string literals (much cheaper to parse) *)
Definition vq (s : string) : value := VStr (s2l s).
Definition kq (s : string) : key := KS (s2l s).

(* ---------- observable attributes of a message object ---------- *)
Fixpoint slot_attrs (sl : list slot) (pos : list value) : list (string * value) :=
  match sl with
  | [] => []
  | SOpts :: sl' => slot_attrs sl' pos
  | SField a _ :: sl' => (a, hd VNull pos) :: slot_attrs sl' (tl pos)
  end.
Fixpoint opt_attrs (specs : list ospec) (vals : list value) : list (string * value) :=
  match specs, vals with
  | o :: specs', v :: vals' => (o_attr o, v) :: opt_attrs specs' vals'
  | _, _ => []
  end.
Definition pl_attrs (p : payload) : list (string * value) :=
  [("args", p_args p); ("kwargs", p_kwargs p); ("payload", p_payload p);
   ("enc_algo", p_enc_algo p); ("enc_key", p_enc_key p); ("enc_serializer", p_enc_ser p)].
Definition role_value (cfg : list (string * list string)) (r : key * list value) : key * value :=
  (fst r, match fst r with
          | KS name => match find_role cfg name with
                       | Some feats => VDict (emit (role_specs feats) (snd r))
                       | None => VDict [] end
          | KBad => VDict [] end).
Definition msg_attrs (s : schema) (m : msg) : list (string * value) :=
  (slot_attrs (s_slots s) (m_pos m) ++ opt_attrs (s_opts s) (m_opts m)
   ++ (match s_payload s with Some _ => pl_attrs (m_pl m) | None => [] end)
   ++ (match s_special s with
       | SpNone => []
       | sp => [("roles", VDict (map (role_value (roles_cfg sp)) (m_roles m)))] end)
   ++ (match s_special s with SpWelcome => [("custom", VDict (m_custom m))] | _ => [] end))%list.

(* attribute lists are compared as finite maps (the implementation side lists them in __slots__ order) *)
Fixpoint attr_get (n : string) (l : list (string * value)) : option value :=
  match l with
  | [] => None
  | (n', v) :: r => if String.eqb n n' then Some v else attr_get n r
  end.
Definition attrs_sub (a b : list (string * value)) : bool :=
  forallb (fun nv => match attr_get (fst nv) b with Some v => value_eqb (snd nv) v | None => false end) a.
Definition attrs_eqb (a b : list (string * value)) : bool :=
  Nat.eqb (List.length a) (List.length b) && attrs_sub a b && attrs_sub b a.

(* dict comparison up to key order (one level; nested values exactly) *)
Definition dict_sub (a b : list (key * value)) : bool :=
  forallb (fun kv => match fst kv with
                     | KS k => match dget k b with Some v => value_eqb (snd kv) v | None => false end
                     | KBad => false end) a.
Definition dict_equiv (a b : list (key * value)) : bool :=
  Nat.eqb (List.length a) (List.length b) && dict_sub a b && dict_sub b a.
Fixpoint wmsg_equiv (a b : list value) : bool :=
  match a, b with
  | [], [] => true
  | VDict x :: a', VDict y :: b' => dict_equiv x y && wmsg_equiv a' b'
  | u :: a', w :: b' => value_eqb u w && wmsg_equiv a' b'
  | _, _ => false
  end.

(* ---------- cases ---------- *)
Inductive expect :=
| XOk (attrs : list (string * value)) (remarshal : list value)   (* parsed; attributes; obj.marshal() *)
| XRaise (e : exn)
| XOther.                                                        (* an exception class the model does not know *)

Definition msg_case := (string * list value * expect)%type.

(* Cls.parse(wmsg): same outcome class; on success same attributes and an equivalent marshal() *)
Definition parse_case_ok (c : msg_case) : bool :=
  let '(name, w, x) := c in
  match find_schema_by_name schemas name with
  | None => false
  | Some s =>
      match parse_i s w, x with
      | Ok m, XOk attrs rem => attrs_eqb (msg_attrs s m) attrs && wmsg_equiv (marshal s m) rem
      | Raise e, XRaise e' => exn_eqb e e'
      | _, _ => false
      end
  end.

(* Serializer.unserialize on one decoded raw message (dispatch + parse) *)
Definition unser_case := (value * expect)%type.
Definition unser_case_ok (c : unser_case) : bool :=
  let '(raw, x) := c in
  match unserialize1_i raw, x with
  | Ok (t, m), XOk attrs rem =>
      match find_schema schemas t with
      | Some s => attrs_eqb (msg_attrs s m) attrs && wmsg_equiv (marshal s m) rem
      | None => false end
  | Raise e, XRaise e' => exn_eqb e e'
  | _, _ => false
  end.

(* C03: the marshalled original [w]; after the real serialize/unserialize round trip the object has
   [attrs] and marshals to [rem].  The model's parse of w must give the same object, be valid-shaped,
   and the model round trip parse (marshal m) must reproduce norm m. *)
Definition roundtrip_case_ok (c : msg_case) : bool :=
  let '(name, w, x) := c in
  match find_schema_by_name schemas name with
  | None => false
  | Some s =>
      match parse_i s w, x with
      | Ok m, XOk attrs rem =>
          attrs_eqb (msg_attrs s m) attrs && wmsg_equiv (marshal s m) rem
          && match parse_i s (marshal s m) with
             | Ok m' => attrs_eqb (msg_attrs s m') (msg_attrs s (norm s m))
             | Raise _ => false end
      | _, _ => false
      end
  end.

(* batching *)
Definition bres_eqb (a b : bres) : bool :=
  match a, b with
  | BOk x, BOk y => Nat.eqb (List.length x) (List.length y) && forallb (fun p => str_eqb (fst p) (snd p)) (combine x y)
  | BErr, BErr => true
  | _, _ => false
  end.
(* (mode, octets, expected): mode 0 = JSON batched split, 1 = 32-bit length-prefix *)
Definition batch_case := (Z * list Z * option (list (list Z)))%type.
Definition batch_case_ok (c : batch_case) : bool :=
  let '(mode, p, x) := c in
  let r := if Z.eqb mode 0 then unbatch_json (st p) else unbatch32 (st p) in
  bres_eqb r (match x with Some l => BOk (map st l) | None => BErr end).
