(* Executable entry points used by the C11 correspondence run (harness/props/c11.py).
   A case = (flavour, operation history, what the real ApplicationSession was observed to do per operation). *)
From Coq Require Import NArith ZArith List Bool.
From AV Require Import Model.SessionSub.
Import ListNotations.
Open Scope N_scope.

Definition opt_eqb {A} (f : A -> A -> bool) (a b : option A) : bool :=
  match a, b with Some x, Some y => f x y | None, None => true | _, _ => false end.
Fixpoint list_eqb {A} (f : A -> A -> bool) (a b : list A) : bool :=
  match a, b with
  | [], [] => true
  | x :: a', y :: b' => f x y && list_eqb f a' b'
  | _, _ => false
  end.

Definition details_eqb (a b : details) : bool :=
  (d_owner a =? d_owner b) && (d_sub a =? d_sub b) && (d_pub a =? d_pub b)
  && opt_eqb N.eqb (d_publisher a) (d_publisher b) && (d_topic a =? d_topic b)
  && opt_eqb Bool.eqb (d_retained a) (d_retained b) && (d_extra a =? d_extra b).
Definition kval_eqb (a b : kval) : bool :=
  match a, b with
  | KInt x, KInt y => Z.eqb x y
  | KDet x, KDet y => details_eqb x y
  | _, _ => false
  end.
Definition kwargs_eqb : kwargs -> kwargs -> bool :=
  list_eqb (fun p q => (fst p =? fst q) && kval_eqb (snd p) (snd q)).

(* dict comparison ignores insertion order: sort by key (keys are unique) *)
Fixpoint kw_insert (p : key * kval) (d : kwargs) : kwargs :=
  match d with
  | [] => [p]
  | q :: r => if fst p <=? fst q then p :: q :: r else q :: kw_insert p r
  end.
Definition kw_sort (d : kwargs) : kwargs := fold_right kw_insert [] d.

Definition match_eqb (a b : matchpol) : bool :=
  match a, b with MExact, MExact | MPrefix, MPrefix | MWildcard, MWildcard => true | _, _ => false end.

Definition wmsg_eqb (a b : wmsg) : bool :=
  match a, b with
  | MSubscribe r t m g, MSubscribe r' t' m' g' =>
      (r =? r') && (t =? t') && opt_eqb match_eqb m m' && opt_eqb Bool.eqb g g'
  | MUnsubscribe r s, MUnsubscribe r' s' => (r =? r') && (s =? s')
  | _, _ => false
  end.
Definition exn_eqb (a b : exn) : bool :=
  match a, b with
  | EProtocolError, EProtocolError | ETransportLost, ETransportLost | EAssertion, EAssertion
  | EException, EException | ETypeError, ETypeError | EClosed, EClosed | ETypeCheck, ETypeCheck => true
  | EUser x, EUser y => x =? y
  | EAppError x, EAppError y => x =? y
  | _, _ => false
  end.
Definition result_eqb (a b : result) : bool :=
  match a, b with
  | RSub x, RSub y => x =? y
  | RNum x, RNum y => x =? y
  | RErr x, RErr y => exn_eqb x y
  | _, _ => false
  end.
Definition out_eqb (a b : out) : bool :=
  match a, b with
  | OSent x, OSent y => wmsg_eqb x y
  | OInvoke l w ar kw rn, OInvoke l' w' ar' kw' rn' =>
      (l =? l') && Bool.eqb w w' && list_eqb Z.eqb ar ar' && kwargs_eqb kw kw' && Bool.eqb rn rn'
  | OUserError l e, OUserError l' e' => (l =? l') && exn_eqb e e'
  | ORaised e, ORaised e' => exn_eqb e e'
  | ODone r x, ODone r' x' => (r =? r') && result_eqb x x'
  | ODoneG g xs, ODoneG g' xs' => (g =? g') && list_eqb result_eqb xs xs'
  | ODoneU l x, ODoneU l' x' => (l =? l') && result_eqb x x'
  | _, _ => false
  end.

(* what the driver can see: a call whose keywords the function's signature rejects never reaches the body *)
Fixpoint observable (os : list out) : list out :=
  match os with
  | [] => []
  | OInvoke l w a kw true :: r => OInvoke l w a (kw_sort kw) true :: observable r
  | OInvoke _ _ _ _ false :: r => observable r
  | o :: r => o :: observable r
  end.

Definition flavour_of (n : N) : flavour := match n with 0 => Tx | _ => Aio end.

Definition model_outputs (fl : N) (ops : list op) : list (list out) :=
  map observable (snd (run (flavour_of fl) init ops)).

Definition sub_case := (N * list op * list (list out))%type.

Definition sub_case_ok (c : sub_case) : bool :=
  let '(fl, ops, expected) := c in
  list_eqb (list_eqb out_eqb) (model_outputs fl ops) expected.

(* shorthand constructors keep the generated case files small *)
Definition Sig (fixed : nat) (va : bool) (kwo : list key) (vk : bool) : signature :=
  {| sg_fixed := fixed; sg_varargs := va; sg_kwonly := kwo; sg_varkw := vk |}.
Definition HS (sg : signature) (chk : bool) (ann : option anntype) (b : behaviour) : hspec :=
  {| hs_sig := sg; hs_check := chk; hs_ann := ann; hs_beh := b |}.
Definition Opts (d : option bool) (da : option key) (m : option matchpol) (gr : option bool) : subopts :=
  {| o_details := d; o_details_arg := da; o_match := m; o_get_retained := gr |}.
Definition Ev (sub pub : N) (args : list Z) (kw : kwargs) (publisher topic : option N) (ret : option bool) (extra : N) : event :=
  {| e_sub := sub; e_pub := pub; e_args := args; e_kwargs := kw; e_publisher := publisher; e_topic := topic;
     e_retained := ret; e_extra := extra |}.
Definition Det (owner sub pub : N) (publisher : option N) (topic : N) (ret : option bool) (extra : N) : kval :=
  KDet {| d_owner := owner; d_sub := sub; d_pub := pub; d_publisher := publisher; d_topic := topic; d_retained := ret;
          d_extra := extra |}.

(* the modelled options normalisation against the real SubscribeOptions / Subscribe.marshal:
   expected = None when the constructor raised AssertionError, else (details_arg, marshalled match, marshalled get_retained) *)
Definition opts_case := (subopts * option (option key * option matchpol * option bool))%type.
Definition opts_case_ok (c : opts_case) : bool :=
  let '(o, expected) := c in
  match expected with
  | None => negb (opts_valid o)
  | Some (da, m, gr) =>
      opts_valid o && opt_eqb N.eqb (norm_details o) da && opt_eqb match_eqb (wire_match (Some o)) m
      && opt_eqb Bool.eqb (wire_retained (Some o)) gr
  end.
