(* Executable entry points used by the C12 correspondence run (harness/props/c12.py).
   Every case carries the REAL implementation's observation; [*_case_ok] recomputes it with the model and compares. *)
From Coq Require Import ZArith NArith List Bool String Ascii.
From AV Require Import Gen.PmceConsts Model.Pmce.
Import ListNotations.
Open Scope Z_scope.

(* ---------- generic equality helpers ---------- *)
Fixpoint list_eqb {A} (eqb : A -> A -> bool) (a b : list A) : bool :=
  match a, b with
  | [], [] => true
  | x :: a', y :: b' => eqb x y && list_eqb eqb a' b'
  | _, _ => false
  end.
Definition opt_eqb {A} (eqb : A -> A -> bool) (a b : option A) : bool :=
  match a, b with None, None => true | Some x, Some y => eqb x y | _, _ => false end.
Definition stok := (string * option string)%type.           (* a rendered "; key[=value]" token *)
Definition stok_eqb (a b : stok) : bool := String.eqb (fst a) (fst b) && opt_eqb String.eqb (snd a) (snd b).
Definition sext := (string * list stok)%type.               (* extension name + tokens *)
Definition sext_eqb (a b : sext) : bool := String.eqb (fst a) (fst b) && list_eqb stok_eqb (snd a) (snd b).

Definition render (e : string * list token) : sext := (fst e, map (fun t => (key_string (fst t), snd t)) (snd e)).

(* option encodings used by the harness: -1 = None *)
Definition zopt (z : Z) : option Z := if z =? -1 then None else Some z.
Definition bopt (z : Z) : option bool := if z =? -1 then None else Some (negb (z =? 0)).
Definition zb (z : Z) : bool := negb (z =? 0).
Definition bz (b : bool) : Z := if b then 1 else 0.

Definition settings_list (s : any_settings) : list Z :=
  match s with
  | SeD s => [bz (s_is_server s); bz (s_server_nct s); bz (s_client_nct s); s_server_mwb s; s_client_mwb s; s_mem s]
  | SeB s => [bz (bs_is_server s); bs_server_mcl s; bs_client_mcl s]
  | SeR s | SeS s => [bz (ns_is_server s); bz (ns_server_nct s); bz (ns_client_nct s)]
  end.

Definition ext_of_code (c : N) : ext :=
  match c with 0%N => XDeflate | 1%N => XBzip2 | 2%N => XBrotli | _ => XSnappy end.

(* ---------- negotiation: one lattice point through the whole pipeline ----------
   stages: 0 offer ctor raised | 1 accept ctor raised (server declines) | 2 response-accept ctor raised (client denies)
           | 3 both ends open with a PMCE | 4 the server's parse of the offer string failed | 5 the client's parse failed *)
Definition neg_result := (N * list sext * list (list Z))%type.

Definition mk_offer (x : ext) (l : list Z) : res any_offer :=
  match x, l with
  | XDeflate, [a; b; c; d] => bind (d_offer_ctor (zb a) (zb b) (zb c) d) (fun o => Ok (OfD o))
  | XBzip2, [a; b] => bind (b_offer_ctor (zb a) b) (fun o => Ok (OfB o))
  | XBrotli, [a; b] => Ok (OfR {| no_acc_nct := zb a; no_req_nct := zb b |})
  | XSnappy, [a; b] => Ok (OfS {| no_acc_nct := zb a; no_req_nct := zb b |})
  | _, _ => Raise EIndex
  end.
Definition mk_accept (o : any_offer) (l : list Z) : res any_accept :=
  match o, l with
  | OfD o, [a; b; c; d; e] => bind (d_accept_ctor o (zb a) b (bopt c) (zopt d) (zopt e) None) (fun x => Ok (AcD x))
  | OfB o, [a; b] => bind (b_accept_ctor o a (zopt b)) (fun x => Ok (AcB x))
  | OfR o, [a; b] => bind (n_accept_ctor o (zb a) (bopt b)) (fun x => Ok (AcR x))
  | OfS o, [a; b] => bind (n_accept_ctor o (zb a) (bopt b)) (fun x => Ok (AcS x))
  | _, _ => Raise EIndex
  end.
Definition mk_raccept (r : any_response) (l : list Z) : res any_raccept :=
  match r, l with
  | ReD r, [a; b; c] => bind (d_raccept_ctor r (bopt a) (zopt b) (zopt c) None) (fun x => Ok (RaD x))
  | ReB r, [a] => bind (b_raccept_ctor r (zopt a)) (fun x => Ok (RaB x))
  | ReR r, [a] => bind (n_raccept_ctor r (bopt a)) (fun x => Ok (RaR x))
  | ReS r, [a] => bind (n_raccept_ctor r (bopt a)) (fun x => Ok (RaS x))
  | _, _ => Raise EIndex
  end.

Definition neg_run (xc : N) (off acc racc : list Z) : neg_result :=
  let x := ext_of_code xc in
  match mk_offer x off with
  | Raise _ => (0%N, [], [])
  | Ok o =>
      let ostr := offer_string o in
      (* server: parse the offer from the client's string (protocol.py succeedHandshake) *)
      match parse_offer ascii_int x (params_of_tokens (snd ostr)) with
      | Raise _ => (4%N, [render ostr], [])
      | Ok o' =>
          match mk_accept o' acc with
          | Raise _ => (1%N, [render ostr], [])
          | Ok a =>
              let astr := accept_string a in
              let s := from_offer_accept true a in
              match parse_response ascii_int x (params_of_tokens (snd astr)) with
              | Raise _ => (5%N, [render ostr; render astr], [settings_list s])
              | Ok r =>
                  match mk_raccept r racc with
                  | Raise _ => (2%N, [render ostr; render astr], [settings_list s])
                  | Ok ra =>
                      match from_response_accept x false ra with
                      | None => (6%N, [], [])
                      | Some c => (3%N, [render ostr; render astr], [settings_list s; settings_list c])
                      end
                  end
              end
          end
      end
  end.

Definition neg_result_eqb (a b : neg_result) : bool :=
  let '(c1, s1, z1) := a in let '(c2, s2, z2) := b in
  (c1 =? c2)%N && list_eqb sext_eqb s1 s2 && list_eqb (list_eqb Z.eqb) z1 z2.

Definition neg_case := (N * list Z * list Z * list Z * neg_result)%type.
Definition neg_case_ok (c : neg_case) : bool :=
  let '(x, off, acc, racc, expected) := c in neg_result_eqb (neg_run x off acc racc) expected.

(* ---------- constructor checks alone (also with values outside the lattice) ----------
   kind 0 offer(args) | 1 accept(offer args, args) | 2 response-accept(response fields, args); expected: true = constructed *)
Definition mk_response (x : ext) (l : list Z) : option any_response :=
  match x, l with
  | XDeflate, [a; b; c; d] => Some (ReD {| r_client_mwb := a; r_client_nct := zb b; r_server_mwb := c; r_server_nct := zb d |})
  | XBzip2, [a; b] => Some (ReB {| br_client_mcl := a; br_server_mcl := b |})
  | XBrotli, [a; b] => Some (ReR {| nr_client_nct := zb a; nr_server_nct := zb b |})
  | XSnappy, [a; b] => Some (ReS {| nr_client_nct := zb a; nr_server_nct := zb b |})
  | _, _ => None
  end.
Definition ctor_case := (N * N * list Z * list Z * bool)%type.
Definition ctor_case_ok (c : ctor_case) : bool :=
  let '(xc, kind, base, args, expected) := c in
  let x := ext_of_code xc in
  let got :=
    match kind with
    | 0%N => is_ok (mk_offer x args)
    | 1%N => match mk_offer x base with Ok o => is_ok (mk_accept o args) | Raise _ => false end
    | _ => match mk_response x base with Some r => is_ok (mk_raccept r args) | None => false end
    end in
  Bool.eqb got expected.

(* ---------- client / server handshake on parameter maps delivered by the REAL _parseExtensionsHeader ---------- *)
Definition raw_params := list (string * list (option string)).
Definition to_params (ps : raw_params) : params :=
  map (fun kv => (key_of_string (fst kv), map tok_val (snd kv))) ps.
Definition to_exts (es : list (string * raw_params)) : list (string * params) :=
  map (fun e => (fst e, to_params (snd e))) es.

(* policies used by the driver: 0 = accept with default arguments, 1 = return None *)
Definition client_policy (code : N) (r : any_response) : option any_raccept :=
  match code with
  | 0%N => match r with
           | ReD r => Some (RaD {| ra_response := r; ra_nct := None; ra_wbits := None; ra_mem := None; ra_maxmsg := None |})
           | ReB r => Some (RaB {| bra_response := r; bra_level := None |})
           | ReR r => Some (RaR {| nra_response := r; nra_nct := None |})
           | ReS r => Some (RaS {| nra_response := r; nra_nct := None |})
           end
  | _ => None
  end.
(* outcome: 0 OPEN without PMCE | 1 OPEN with PMCE (settings) | 2 handshake failed | 3 exception escaped *)
Definition client_case := (list (string * raw_params) * N * N * list Z)%type.
Definition client_case_ok (c : client_case) : bool :=
  let '(es, pol, exp_code, exp_settings) := c in
  match client_process ascii_int installed (to_exts es) (client_policy pol) with
  | COpen None => (exp_code =? 0)%N
  | COpen (Some s) => (exp_code =? 1)%N && list_eqb Z.eqb (settings_list s) exp_settings
  | CFail _ => (exp_code =? 2)%N
  | CEscaped => (exp_code =? 3)%N
  end.

(* the first offer the policy can accept with default arguments (what the driver's server policy does) *)
Definition server_policy (code : N) (os : list any_offer) : option any_accept :=
  match code, os with
  | 0%N, o :: _ =>
      match o with
      | OfD o => match d_accept_ctor o false 0 None None None None with Ok a => Some (AcD a) | Raise _ => None end
      | OfB o => match b_accept_ctor o 0 None with Ok a => Some (AcB a) | Raise _ => None end
      | OfR o => match n_accept_ctor o false None with Ok a => Some (AcR a) | Raise _ => None end
      | OfS o => match n_accept_ctor o false None with Ok a => Some (AcS a) | Raise _ => None end
      end
  | _, _ => None
  end.
(* outcome: 0 101 without extension | 1 101 with PMCE (response tokens, settings) | 2 handshake failed *)
Definition server_case := (list (string * raw_params) * N * N * list sext * list Z)%type.
Definition server_case_ok (c : server_case) : bool :=
  let '(es, pol, exp_code, exp_resp, exp_settings) := c in
  match server_negotiate ascii_int installed (to_exts es) (server_policy pol) with
  | SNoPmce => (exp_code =? 0)%N
  | SPmce s resp => (exp_code =? 1)%N && list_eqb sext_eqb [render resp] exp_resp && list_eqb Z.eqb (settings_list s) exp_settings
  | SFail _ => (exp_code =? 2)%N
  end.

(* ---------- message level ---------- *)
(* the "script codec": the k-th library call returns [sizes[k]] arbitrary octets (flush: plus the deflate tail when the
   discipline strips it); only sizes matter: used to compare frame boundaries / RSV / opcode / FIN with the real wire *)
Definition zeros (n : N) : bytes := repeat 0%N (N.to_nat n).
Definition script_compress (cs : list N) (_ : bytes) : list N * bytes := (tl cs, zeros (hd 0%N cs)).
Definition script_flush (tail : bool) (cs : list N) : list N * bytes := (tl cs, zeros (hd 0%N cs) ++ (if tail then tail4 else [])).

Definition frame_sig (f : frame) : list N := [if f_fin f then 1 else 0; f_rsv f; f_opcode f; N.of_nat (List.length (f_payload f))]%N.

(* one message: (ext code, pmce negotiated?, piece lengths ([n] for sendMessage; the sendMessageFrame pieces for the
   streaming API), streaming?, binary, fragment size (-1 = None), doNotCompress, the lengths the real
   compress_message_data.. / end_compress_message calls returned in order, expected frame signatures) *)
Definition wire_case := (N * bool * list N * bool * bool * Z * bool * list N * list (list N))%type.
Definition wire_case_ok (c : wire_case) : bool :=
  let '(xc, pmce_on, plens, streaming, binary, frag, dnc, sizes, expected) := c in
  let d := disc_of (ext_of_code xc) in
  let p0 : pmce (list N) unit := pmce_init (list N) unit d 15 8 true 15 false in
  let pm := if pmce_on then Some p0 else None in
  let cnew (_ _ : Z) : list N := sizes in
  let got :=
    if streaming
    then match send_stream (list N) unit cnew script_compress (script_flush (dc_tail d)) pm (map zeros plens) binary dnc with
         | Ok (_, fs) => Some fs | Raise _ => None end
    else match send_message (list N) unit cnew script_compress (script_flush (dc_tail d)) pm (zeros (hd 0%N plens)) binary (zopt frag) dnc with
         | (_, inl fs) => Some fs | (_, inr _) => None end in
  match got with
  | Some fs => list_eqb (list_eqb N.eqb) (map frame_sig fs) expected
  | None => false
  end.

(* a sequence of sends: which message (if any) raises.  msgs: (streaming?, lengths of the payload / of the pieces, dnc);
   expected: -1 = all sent (then the number of compressor objects created is compared too, the model's ghost
   generation counter), otherwise the index of the message that raised *)
Definition seq_case := (N * bool * list (bool * list N * bool) * Z * N)%type.
Definition seq_msg (m : bool * list N * bool) : msg_spec :=
  let '(streaming, lens, dnc) := m in
  if streaming then MStream (map zeros lens) true dnc else MWhole (zeros (hd 0%N lens)) true None dnc.
Definition seq_case_ok (c : seq_case) : bool :=
  let '(xc, cnct, msgs, expected, created) := c in      (* created: compressor objects the real side constructed *)
  let d := disc_of (ext_of_code xc) in
  let pm := Some (pmce_init unit unit d 15 8 cnct 15 false) in
  match send_msgs unit unit id_c_new id_c_compress (if dc_tail d then id_c_flush_tail else id_c_flush_none) pm (map seq_msg msgs) with
  | Sent _ _ (Some p) _ => (expected =? -1) && (p_gen p =? created)%N
  | Sent _ _ None _ => false
  | SendRaised _ _ (SE (ETypestate _)) sent => expected =? Z.of_nat (List.length sent)
  | SendRaised _ _ _ _ => false
  end.

(* receiving a frame sequence: frames (fin, rsv, opcode, payload length, number of chunks the payload arrives in,
   eos = this payload carries the last octet of its message's compressed stream);
   expected event classes: 0 = message delivered (binary flag in the second component), 1 = protocol violation,
   2 = exception escaped.  A stub stands in for the library (contents are not compared here): it passes octets through;
   for bzip2 it is end-of-stream strict like bz2.BZ2Decompressor (EVERY call after the stream's last octet raises
   EOFError, even decompress(b"")); zlib and brotli accept such calls (checked against the installed libraries). *)
Fixpoint split_chunks (k : nat) (b : bytes) : list bytes :=
  match k with
  | O | S O => [b]
  | S k' => match b with [] => [[]] | x :: r => [x] :: split_chunks k' r end
  end.
Definition ev_sig (e : revent) : N * bool :=
  match e with Delivered _ b => (0%N, b) | Violation _ => (1%N, false) | Escaped _ => (2%N, false) end.
Definition stub_d_feed (strict : bool) (eof : bool) (b : bytes) : option (bool * bytes) :=
  if strict && eof then None else Some (eof || existsb (N.eqb 1) b, b).
Definition eos_payload (len : N) (eos : bool) : bytes :=
  if eos && negb (len =? 0)%N then zeros (len - 1) ++ [1%N] else zeros len.
Definition recv_case := (N * bool * bool * list (bool * N * N * N * N * bool) * list (N * bool) * Z)%type.
Definition recv_case_ok (c : recv_case) : bool :=
  let '(xc, pmce_on, dnct, frames, expected, created) := c in   (* created: decompressor objects constructed; -1 = not observed *)
  let x := ext_of_code xc in
  let d := disc_of x in
  let strict := match x with XBzip2 => true | _ => false end in
  let pm : option (pmce unit bool) := if pmce_on then Some (pmce_init unit bool d 15 8 false 15 dnct) else None in
  let rfs := map (fun f => let '(fin, rsv, opcode, len, k, eos) := f in
                           (fin, rsv, opcode, split_chunks (N.to_nat k) (eos_payload len eos))) frames in
  let '(st, evs) := recv_frames unit bool (fun _ => false) (stub_d_feed strict) (rstate_init unit bool pm) rfs in
  list_eqb (fun a b => (fst a =? fst b)%N && Bool.eqb (snd a) (snd b)) (map ev_sig evs) expected &&
  ((created =? -1) || match r_pmce st with Some p => Z.of_N (p_gen p) =? created | None => created =? 0 end).

(* one sum type so that the harness can evaluate every kind of case in a single sharded run *)
Inductive any_case :=
| KCtor (c : ctor_case) | KNeg (c : neg_case) | KClient (c : client_case) | KServer (c : server_case)
| KWire (c : wire_case) | KSeq (c : seq_case) | KRecv (c : recv_case).
Definition any_case_ok (k : any_case) : bool :=
  match k with
  | KCtor c => ctor_case_ok c | KNeg c => neg_case_ok c | KClient c => client_case_ok c | KServer c => server_case_ok c
  | KWire c => wire_case_ok c | KSeq c => seq_case_ok c | KRecv c => recv_case_ok c
  end.
