(* Model of the SENDING side of autobahn/websocket/protocol.py (definitions only).
   Mirrors, statement group by statement group:
     sendFrame (incl. the explicit mask= / payload_len= parameters of the fuzzing API)
     sendMessage (fragmentation loop with its i / j / done / first variables, fragmentSize, autoFragmentSize,
                  maxMessagePayloadSize)
     beginMessage / beginMessageFrame / sendMessageFrameData / endMessage / sendMessageFrame  (send_state automaton)
     PreparedMessage.__init__ / WebSocketFactory.prepareMessage / sendPreparedMessage
     sendPing / sendPong
     sendData (chopsize / sync -> send_queue), _trigger, _send
   Per-message compression is OFF in this model (self._perMessageCompress is None); compression is property C12.
   Mask keys: random.getrandbits(32) packed "!I" is the next element of the key stream [ks : nat -> list N];
   the state holds the index of the next key.  Octets are N, Python ints that may be negative are Z. *)
From Coq Require Import NArith ZArith List Bool.
From AV Require Import Model.Masker Model.WsFrame.
Import ListNotations.
Open Scope N_scope.

(* WebSocketProtocol.STATE_* *)
Inductive pstate := PClosed | PConnecting | PClosing | POpen | PProxyConnecting.
(* WebSocketProtocol.SEND_STATE_* *)
Inductive sendstate := SGround | SMessageBegin | SInsideMessage | SInsideMessageFrame.

Inductive exn :=
| ExException            (* raise Exception(...) *)
| ExDisconnected         (* autobahn.exception.Disconnected *)
| ExPayloadExceeded      (* autobahn.exception.PayloadExceededError *)
| ExAssertion            (* AssertionError: create_xor_masker with a key that is not 4 octets (pure Python masker) *)
| ExAttribute.           (* AttributeError: self.send_compressed is read before beginMessage ever assigned it *)

Inductive ret :=
| RNone                  (* returned None *)
| RInt (z : Z)           (* sendMessageFrameData returns [rest] *)
| RRaise (e : exn)
| ROutOfFuel.            (* model artefact: a loop ran out of fuel; proved unreachable, excluded in the theorems *)

Definition pstate_eqb (a b : pstate) : bool :=
  match a, b with
  | PClosed, PClosed | PConnecting, PConnecting | PClosing, PClosing | POpen, POpen
  | PProxyConnecting, PProxyConnecting => true
  | _, _ => false
  end.

(* the protocol options that the send path reads (CONFIG_ATTRS copied from the factory) *)
Record scfg := mkScfg {
  is_server : bool;                   (* self.factory.isServer *)
  mask_client_frames : bool;          (* maskClientFrames, default True  *)
  mask_server_frames : bool;          (* maskServerFrames, default False *)
  apply_mask : bool;                  (* applyMask, default True *)
  auto_fragment_size : Z;             (* autoFragmentSize, default 0 *)
  max_message_payload_size : N;       (* maxMessagePayloadSize, default 0 = unlimited *)
  masker_flavour : flavour            (* which create_xor_masker is installed (unobservable, C15_factory) *)
}.

(* sendFrame / beginMessageFrame:
   (not self.factory.isServer and self.maskClientFrames) or (self.factory.isServer and self.maskServerFrames) *)
Definition masks (c : scfg) : bool :=
  (negb (is_server c) && mask_client_frames c) || (is_server c && mask_server_frames c).

(* data[:n] and data[n:] with an N index; structural on the list so that a huge index costs nothing
   (= firstn / skipn (N.to_nat n), proved) *)
Fixpoint take (n : N) (l : list N) : list N :=
  match l with
  | [] => []
  | x :: r => if n =? 0 then [] else x :: take (n - 1) r
  end.
Fixpoint drop (n : N) (l : list N) : list N :=
  match l with
  | [] => []
  | x :: r => if n =? 0 then l else drop (n - 1) r
  end.
(* data[i:j] for 0 <= i, j *)
Definition slice (d : list N) (i j : N) : list N := take (j - i) (drop i d).

(* ---- masker objects (xormasker.py) ---- *)
Inductive masker :=
| MNull (ptr : N)                               (* XorMaskerNull *)
| MXor (key : list N) (hint : N) (ptr : N).     (* create_xor_masker(key, hint) *)

Definition masker_ptr (m : masker) : N := match m with MNull p => p | MXor _ _ p => p end.

Definition masker_process (fl : flavour) (m : masker) (d : list N) : list N * masker :=
  match m with
  | MNull p => (d, MNull (p + lenN d))
  | MXor k h p => let '(o, p') := factory_process fl (Some h) k p d in (o, MXor k h p')
  end.

(* ---- one call of self.sendData(data, sync, chopsize) ---- *)
Record sdcall := mkSd { sd_data : list N; sd_sync : bool; sd_chop : option Z }.

(* ---- sendFrame: construction of the raw frame octets ---- *)
Inductive fr_result :=
| FrOk (raw : list N) (nk : nat)
| FrRaise (e : exn) (nk : nat).

Definition truthy (b : list N) : bool := match b with [] => false | _ => true end.

Definition build_frame (c : scfg) (ks : nat -> list N) (nk : nat)
    (opcode : N) (payload : list N) (fin : bool) (rsv : N) (mask : list N) (payload_len : option N)
  : fr_result :=
  (* if payload_len is not None: ... repeated payload *)
  let prep :=
    match payload_len with
    | Some plen =>
        if lenN payload <? 1 then None
        else Some (plen, concat (repeat payload (N.to_nat (plen / lenN payload)))
                         ++ take (plen mod lenN payload) payload)
    | None => Some (lenN payload, payload)
    end in
  match prep with
  | None => FrRaise ExException nk       (* "cannot construct repeated payload with length ..." *)
  | Some (l, pl) =>
      (* first byte: b0 |= 1 << 7 ; b0 |= (rsv % 8) << 4 ; b0 |= opcode % 128 *)
      let b0 := N.lor (N.lor (if fin then 128 else 0) (N.shiftl (rsv mod 8) 4)) (opcode mod 128) in
      (* second byte, mask *)
      let masked := truthy mask || masks c in
      let use_stream := masked && negb (truthy mask) in
      let key := if truthy mask then mask else ks nk in
      let nk' := if use_stream then S nk else nk in
      (* if not mask: mask = struct.pack(...); mv = mask   else: mv = b""   (F-C01-1: explicit key is not written) *)
      let mv := if use_stream then key else [] in
      if masked && (0 <? l) && apply_mask c && negb (Nat.eqb (length key) 4)
      then FrRaise ExAssertion nk'       (* create_xor_masker(mask, l): assert len(mask) == 4 *)
      else
        let plm := if masked && (0 <? l) && apply_mask c
                   then fst (factory_process (masker_flavour c) (Some l) key 0 pl)
                   else pl in
        match encode_len l with
        | None => FrRaise ExException nk'       (* "invalid payload length" *)
        | Some (l7, el) =>
            let b1 := N.lor (if masked then 128 else 0) l7 in
            FrOk (b0 :: b1 :: el ++ mv ++ plm) nk'
        end
  end.

(* ---- sendMessage: the fragmentation loop ----
     n = len(payload); i = 0; done = False; first = True
     while not done:
         j = i + pfs
         if j > n: done = True; j = n
         if first: self.sendFrame(opcode=opcode, payload=payload[i:j], fin=done, sync=sync, rsv=0); first = False
         else:     self.sendFrame(opcode=0, payload=payload[i:j], fin=done, sync=sync)
         i += pfs                                                                                   *)
Fixpoint frag_loop (fuel : nat) (c : scfg) (ks : nat -> list N) (nk : nat) (opcode : N) (payload : list N)
    (pfs n i : N) (first sync : bool) : nat * list sdcall * ret :=
  match fuel with
  | O => (nk, [], ROutOfFuel)
  | S fuel' =>
      let j0 := i + pfs in
      let done := n <? j0 in
      let j := if done then n else j0 in
      match build_frame c ks nk (if first then opcode else 0) (slice payload i j) done 0 [] None with
      | FrRaise e nk' => (nk', [], RRaise e)
      | FrOk raw nk' =>
          if done then (nk', [mkSd raw sync None], RNone)
          else let '(nk'', calls, r) := frag_loop fuel' c ks nk' opcode payload pfs n (i + pfs) false sync in
               (nk'', mkSd raw sync None :: calls, r)
      end
  end.

(* ---- prepared messages ---- *)
Record pmsg := mkPmsg { pm_payload : list N; pm_binary : bool; pm_hybi : list N }.

(* ---- the API-level state ---- *)
Record ast := mkAst {
  p_state : pstate;                 (* self.state *)
  s_state : sendstate;              (* self.send_state *)
  s_opcode : N;                     (* self.send_message_opcode *)
  s_flen : N;                       (* self.send_message_frame_length *)
  s_fmask : option (list N);        (* self.send_message_frame_mask *)
  s_masker : masker;                (* self.send_message_frame_masker *)
  s_compressed_set : bool;          (* the attribute self.send_compressed exists (assigned by beginMessage; it is
                                       not initialised in _connectionMade); its value is always False here *)
  next_key : nat;                   (* how many keys were drawn from random.getrandbits(32) *)
  prepared : list pmsg              (* PreparedMessage objects created so far (harness table) *)
}.

Definition ast0 : ast := mkAst POpen SGround 0 0 None (MNull 0) false O [].

Definition set_sstate (a : ast) (s : sendstate) : ast :=
  mkAst (p_state a) s (s_opcode a) (s_flen a) (s_fmask a) (s_masker a) (s_compressed_set a) (next_key a) (prepared a).
Definition set_nk (a : ast) (nk : nat) : ast :=
  mkAst (p_state a) (s_state a) (s_opcode a) (s_flen a) (s_fmask a) (s_masker a) (s_compressed_set a) nk (prepared a).
Definition set_pstate (a : ast) (p : pstate) : ast :=
  mkAst p (s_state a) (s_opcode a) (s_flen a) (s_fmask a) (s_masker a) (s_compressed_set a) (next_key a) (prepared a).

Inductive op :=
| OSendMessage (payload : list N) (is_binary : bool) (fragment_size : option Z) (sync : bool)
| OSendFrame (opcode : N) (payload : list N) (fin : bool) (rsv : N) (mask : list N) (payload_len : option N)
             (chopsize : option Z) (sync : bool)
| OPrepare (payload : list N) (is_binary : bool)         (* factory.prepareMessage(payload, isBinary) *)
| OSendPrepared (i : nat)                                (* sendPreparedMessage(i-th prepared message) *)
| OBeginMessage (is_binary : bool)
| OBeginMessageFrame (length : Z)
| OSendMessageFrameData (payload : list N) (sync : bool)
| OEndMessage
| OSendMessageFrame (payload : list N) (sync : bool)
| OSendPing (payload : list N)                           (* [] stands for None / b"" (both falsy) *)
| OSendPong (payload : list N)
| OPeerPing (payload : list N)                           (* the PEER's ping arrives: processControlFrame -> onPing ->
                                                            "if self.state == STATE_OPEN: self.sendPong(payload)";
                                                            the receive loop only gets here with <= 125 octets *)
| OSendData (data : list N) (sync : bool) (chopsize : option Z)
| OTick                                                  (* the pending txaio.call_later(_QUEUED_WRITE_DELAY, self._send) fires *)
| OSetState (p : pstate).                                (* environment: the rest of the protocol assigns self.state *)

Definition sendstate_eqb (a b : sendstate) : bool :=
  match a, b with
  | SGround, SGround | SMessageBegin, SMessageBegin | SInsideMessage, SInsideMessage
  | SInsideMessageFrame, SInsideMessageFrame => true
  | _, _ => false
  end.

Definition is_open (a : ast) : bool := pstate_eqb (p_state a) POpen.

(* sendFrame as called by the other API functions: one sendData call *)
Definition do_send_frame (c : scfg) (ks : nat -> list N) (a : ast)
    (opcode : N) (payload : list N) (fin : bool) (rsv : N) (mask : list N) (payload_len : option N)
    (chopsize : option Z) (sync : bool) : ast * list sdcall * ret :=
  match build_frame c ks (next_key a) opcode payload fin rsv mask payload_len with
  | FrRaise e nk => (set_nk a nk, [], RRaise e)
  | FrOk raw nk => (set_nk a nk, [mkSd raw sync chopsize], RNone)
  end.

(* beginMessageFrame(length) *)
Definition begin_message_frame (c : scfg) (ks : nat -> list N) (a : ast) (length : Z)
  : ast * list sdcall * ret :=
  if negb (is_open a) then (a, [], RNone)
  else if negb (sendstate_eqb (s_state a) SMessageBegin || sendstate_eqb (s_state a) SInsideMessage)
  then (a, [], RRaise ExException)                  (* "beginMessageFrame invalid in current sending state" *)
  else if (length <? 0)%Z || (Z.of_N max_len <? length)%Z
  then (a, [], RRaise ExException)                  (* "invalid value for message frame length" *)
  else
    let len := Z.to_N length in
    let fmask := if masks c then Some (ks (next_key a)) else None in
    let nk' := if masks c then S (next_key a) else next_key a in
    (* if self.send_message_frame_mask and length > 0 and self.applyMask: create_xor_masker(mask, length)
       else XorMaskerNull() *)
    let mk := match fmask with
              | Some k => if truthy k && (0 <? len) && apply_mask c then MXor k len 0 else MNull 0
              | None => MNull 0
              end in
    (* b0: opcode only on the first frame of the message, FIN never set *)
    let b0 := if sendstate_eqb (s_state a) SMessageBegin then N.lor 0 (s_opcode a mod 128) else 0 in
    let mbit := match fmask with Some k => truthy k | None => false end in
    let mv := match fmask with Some k => if truthy k then k else [] | None => [] end in
    match encode_len len with
    | None => (mkAst (p_state a) SInsideMessage (s_opcode a) len fmask mk (s_compressed_set a) nk' (prepared a), [],
               RRaise ExException)                  (* unreachable: length <= max_len was checked *)
    | Some (l7, el) =>
        let b1 := N.lor (if mbit then 128 else 0) l7 in
        (mkAst (p_state a) SInsideMessageFrame (s_opcode a) len fmask mk (s_compressed_set a) nk' (prepared a),
         [mkSd (b0 :: b1 :: el ++ mv) false None], RNone)
    end.

(* sendMessageFrameData(payload, sync) *)
Definition send_message_frame_data (c : scfg) (a : ast) (payload : list N) (sync : bool)
  : ast * list sdcall * ret :=
  if negb (is_open a) then (a, [], RNone)
  else if negb (s_compressed_set a) then (a, [], RRaise ExAttribute)    (* "if not self.send_compressed:" comes first *)
  else if negb (sendstate_eqb (s_state a) SInsideMessageFrame)
  then (a, [], RRaise ExException)                  (* "sendMessageFrameData invalid in current sending state" *)
  else
    let rl := lenN payload in
    let ptr := masker_ptr (s_masker a) in
    let '(rest, pl) :=
      if s_flen a <? ptr + rl
      then (let l := (Z.of_N (s_flen a) - Z.of_N ptr)%Z in
            ((- (Z.of_N rl - l))%Z, take (Z.to_N l) payload))         (* payload[:l]; 0 <= l in reachable states *)
      else ((Z.of_N (s_flen a) - Z.of_N ptr - Z.of_N rl)%Z, payload) in
    let '(plm, mk') := masker_process (masker_flavour c) (s_masker a) pl in
    let st' := if s_flen a <=? masker_ptr mk' then SInsideMessage else s_state a in
    (mkAst (p_state a) st' (s_opcode a) (s_flen a) (s_fmask a) mk' (s_compressed_set a) (next_key a) (prepared a),
     [mkSd plm sync None], RInt rest).

(* PreparedMessage.__init__(payload, isBinary, applyMask = not factory.isServer, doNotCompress) *)
Definition prepare_message (c : scfg) (ks : nat -> list N) (nk : nat) (payload : list N) (is_binary : bool)
  : option pmsg * nat :=
  let l := lenN payload in
  let b0 := if is_binary then N.lor 128 2 else N.lor 128 1 in
  let am := negb (is_server c) in
  let key := ks nk in
  let nk' := if am then S nk else nk in
  let plm := if am then (if l =? 0 then payload
                         else fst (factory_process (masker_flavour c) (Some l) key 0 payload))
             else payload in
  match encode_len l with
  | None => (None, nk')                              (* raise Exception("invalid payload length") *)
  | Some (l7, el) =>
      let b1 := N.lor (if am then 128 else 0) l7 in
      (Some (mkPmsg payload is_binary (b0 :: b1 :: el ++ (if am then key else []) ++ plm)), nk')
  end.

(* one API call: new API state, the sendData calls it makes (in order), what it returns / raises *)
Definition api_step (c : scfg) (ks : nat -> list N) (a : ast) (o : op) : ast * list sdcall * ret :=
  match o with
  | OSendMessage payload is_binary fragment_size sync =>
      if negb (is_open a) then (a, [], RRaise ExDisconnected)
      else
        let opcode := if is_binary then 2 else 1 in
        let n := lenN payload in
        if (0 <? max_message_payload_size c) && (max_message_payload_size c <? n)
        then (a, [], RRaise ExPayloadExceeded)
        else
          let pfs := match fragment_size with
                     | Some f => Some f
                     | None => if (0 <? auto_fragment_size c)%Z then Some (auto_fragment_size c) else None
                     end in
          let unfragmented := match pfs with None => true | Some f => (Z.of_N n <=? f)%Z end in
          if unfragmented then do_send_frame c ks a opcode payload true 0 [] None None sync
          else
            match pfs with
            | None => (a, [], RNone)                 (* impossible *)
            | Some f =>
                if (f <? 1)%Z then (a, [], RRaise ExException)   (* "payload fragment size must be at least 1" *)
                else let '(nk, calls, r) :=
                         frag_loop (S (length payload)) c ks (next_key a) opcode payload (Z.to_N f) n 0 true sync in
                     (set_nk a nk, calls, r)
            end
  | OSendFrame opcode payload fin rsv mask payload_len chopsize sync =>
      do_send_frame c ks a opcode payload fin rsv mask payload_len chopsize sync
  | OPrepare payload is_binary =>
      match prepare_message c ks (next_key a) payload is_binary with
      | (None, nk) => (set_nk a nk, [], RRaise ExException)
      | (Some pm, nk) =>
          (mkAst (p_state a) (s_state a) (s_opcode a) (s_flen a) (s_fmask a) (s_masker a) (s_compressed_set a) nk (prepared a ++ [pm]),
           [], RNone)
      end
  | OSendPrepared i =>
      (* sendPreparedMessage: connection state, size limit, then self.sendData(preparedMsg.payloadHybi); send_state is
         not looked at *)
      match nth_error (prepared a) i with
      | Some pm =>
          (* if self.state != STATE_OPEN: raise Disconnected("Attempt to send on a closed protocol") *)
          if negb (is_open a) then (a, [], RRaise ExDisconnected)
          (* payload_len = preparedMsg.payloadLength; if 0 < self.maxMessagePayloadSize < payload_len: raise *)
          else if (0 <? max_message_payload_size c) && (max_message_payload_size c <? lenN (pm_payload pm))
          then (a, [], RRaise ExPayloadExceeded)
          else (a, [mkSd (pm_hybi pm) false None], RNone)
      | None => (a, [], RRaise ExAssertion)          (* harness artefact: no such object; never generated *)
      end
  | OBeginMessage is_binary =>
      if negb (is_open a) then (a, [], RNone)
      else if negb (sendstate_eqb (s_state a) SGround)
      then (a, [], RRaise ExException)               (* "beginMessage invalid in current sending state" *)
      else (mkAst (p_state a) SMessageBegin (if is_binary then 2 else 1) (s_flen a) (s_fmask a) (s_masker a)
                  true (next_key a) (prepared a), [], RNone)      (* self.send_compressed = False *)
  | OBeginMessageFrame length => begin_message_frame c ks a length
  | OSendMessageFrameData payload sync => send_message_frame_data c a payload sync
  | OEndMessage =>
      (* the send_state check is commented out in the source: accepted in every send state *)
      if negb (is_open a) then (a, [], RNone)
      else if negb (s_compressed_set a) then (a, [], RRaise ExAttribute)      (* "if self.send_compressed:" *)
      else let '(a1, calls, r) := do_send_frame c ks a 0 [] true 0 [] None None false in
           match r with
           | RNone => (set_sstate a1 SGround, calls, RNone)
           | _ => (a1, calls, r)
           end
  | OSendMessageFrame payload sync =>
      if negb (is_open a) then (a, [], RNone)
      else if negb (s_compressed_set a) then (a, [], RRaise ExAttribute)      (* "if self.send_compressed:" *)
      else let '(a1, c1, r1) := begin_message_frame c ks a (Z.of_N (lenN payload)) in
           match r1 with
           | RNone => let '(a2, c2, r2) := send_message_frame_data c a1 payload sync in
                      (a2, c1 ++ c2, match r2 with RInt _ => RNone | r => r end)
           | _ => (a1, c1, r1)
           end
  | OSendPing payload =>
      if negb (is_open a) then (a, [], RNone)
      else if 125 <? lenN payload then (a, [], RRaise ExException)    (* "invalid payload for PING" *)
      else do_send_frame c ks a 9 payload true 0 [] None None false
  | OSendPong payload | OPeerPing payload =>
      if negb (is_open a) then (a, [], RNone)
      else if 125 <? lenN payload then (a, [], RRaise ExException)    (* "invalid payload for PONG" *)
      else do_send_frame c ks a 10 payload true 0 [] None None false
  | OSendData data sync chopsize => (a, [mkSd data sync chopsize], RNone)
  | OTick => (a, [], RNone)
  | OSetState p => (set_pstate a p, [], RNone)
  end.

(* ---- sendData / _trigger / _send ---- *)
Record qst := mkQst {
  queue : list (list N * bool);     (* self.send_queue : deque of (data, sync) *)
  triggered : bool                  (* self.triggered; a call_later(_send) is pending iff triggered *)
}.
Definition qst0 : qst := mkQst [] false.

(* _send: one element leaves the queue on the LEFT and is written unless the state is CLOSED;
   with an empty queue the trigger is released and no timer is re-armed *)
Definition q_send (ps : pstate) (q : qst) : qst * list (list N) :=
  match queue q with
  | e :: r => (mkQst r (triggered q), if pstate_eqb ps PClosed then [] else [fst e])
  | [] => (mkQst [] false, [])
  end.

(* _trigger *)
Definition q_trigger (ps : pstate) (q : qst) : qst * list (list N) :=
  if triggered q then (q, []) else q_send ps (mkQst (queue q) true).

(* the chop loop of sendData:
     i = 0; n = len(data); done = False
     while not done:
         j = i + chopsize
         if j >= n: done = True; j = n
         self.send_queue.append((data[i:j], True))
         i += chopsize                                  *)
Fixpoint chop_loop (fuel : nat) (data : list N) (chopsize n i : N) : option (list (list N)) :=
  match fuel with
  | O => None
  | S fuel' =>
      let j0 := i + chopsize in
      if n <=? j0 then Some [slice data i n]
      else match chop_loop fuel' data chopsize n (i + chopsize) with
           | Some r => Some (slice data i j0 :: r)
           | None => None
           end
  end.

(* sendData(data, sync, chopsize): None = out of fuel (unreachable, proved) *)
Definition send_data (ps : pstate) (q : qst) (c : sdcall) : option (qst * list (list N)) :=
  let chop := match sd_chop c with Some z => if (0 <? z)%Z then Some (Z.to_N z) else None | None => None end in
  match chop with
  | Some cs =>
      match chop_loop (S (length (sd_data c))) (sd_data c) cs (lenN (sd_data c)) 0 with
      | None => None
      | Some pieces =>
          Some (q_trigger ps (mkQst (queue q ++ map (fun p => (p, true)) pieces) (triggered q)))
      end
  | None =>
      if sd_sync c || negb (Nat.eqb (length (queue q)) 0)
      then Some (q_trigger ps (mkQst (queue q ++ [(sd_data c, sd_sync c)]) (triggered q)))
      else Some (q, [sd_data c])                     (* self.transport.write(data) *)
  end.

Fixpoint send_all (ps : pstate) (q : qst) (cs : list sdcall) : option (qst * list (list N)) :=
  match cs with
  | [] => Some (q, [])
  | c :: r =>
      match send_data ps q c with
      | None => None
      | Some (q1, w1) =>
          match send_all ps q1 r with
          | None => None
          | Some (q2, w2) => Some (q2, w1 ++ w2)
          end
      end
  end.

(* ---- the whole sender: API state x queue state ---- *)
Definition sst : Type := ast * qst.
Definition sst0 : sst := (ast0, qst0).

(* one operation: new state, the arguments of transport.write in order, result *)
Definition step (c : scfg) (ks : nat -> list N) (s : sst) (o : op) : sst * list (list N) * ret :=
  let '(a, q) := s in
  match o with
  | OTick => if triggered q then let '(q', w) := q_send (p_state a) q in ((a, q'), w, RNone)
             else (s, [], RNone)
  | _ => let '(a', calls, r) := api_step c ks a o in
         match send_all (p_state a') q calls with
         | Some (q', w) => ((a', q'), w, r)
         | None => ((a', q), [], ROutOfFuel)
         end
  end.

Fixpoint run (c : scfg) (ks : nat -> list N) (s : sst) (ops : list op) : sst * list (list (list N) * ret) :=
  match ops with
  | [] => (s, [])
  | o :: r => let '(s1, w, rt) := step c ks s o in
              let '(s2, outs) := run c ks s1 r in (s2, (w, rt) :: outs)
  end.

(* TWO connections living in one process: every operation is addressed to one of them (true = the first).  Each
   connection has its own state value -- in the code: instance attributes assigned in _connectionMade -- so the
   product is just the two models side by side; that the real objects share nothing is checked by the runs
   (several real connections in one process fed interleaved segments), not by a theorem. *)
Fixpoint run2 (c1 c2 : scfg) (ks1 ks2 : nat -> list N) (s1 s2 : sst) (ops : list (bool * op))
  : (sst * sst) * list (bool * (list (list N) * ret)) :=
  match ops with
  | [] => ((s1, s2), [])
  | (true, o) :: r =>
      let '(s1', w, rt) := step c1 ks1 s1 o in
      let '(ss, outs) := run2 c1 c2 ks1 ks2 s1' s2 r in (ss, (true, (w, rt)) :: outs)
  | (false, o) :: r =>
      let '(s2', w, rt) := step c2 ks2 s2 o in
      let '(ss, outs) := run2 c1 c2 ks1 ks2 s1 s2' r in (ss, (false, (w, rt)) :: outs)
  end.
Definition sel {A} (b : bool) (l : list (bool * A)) : list A :=
  map snd (filter (fun x => Bool.eqb (fst x) b) l).

(* let the reactor run until the write queue is drained: _send fires until it finds the queue empty *)
Fixpoint drain_loop (fuel : nat) (ps : pstate) (q : qst) : qst * list (list N) :=
  match fuel with
  | O => (q, [])
  | S fuel' => if triggered q
               then let '(q1, w1) := q_send ps q in
                    let '(q2, w2) := drain_loop fuel' ps q1 in (q2, w1 ++ w2)
               else (q, [])
  end.
Definition drain (ps : pstate) (q : qst) : qst * list (list N) := drain_loop (S (length (queue q))) ps q.

(* every octet given to transport.write by a run, in order, including the final drain *)
Definition writes_of (outs : list (list (list N) * ret)) : list (list N) := concat (map fst outs).
Definition wire (c : scfg) (ks : nat -> list N) (ops : list op) : list N :=
  let '((a, q), outs) := run c ks sst0 ops in
  concat (writes_of outs ++ snd (drain (p_state a) q)).
Definition rets_of (outs : list (list (list N) * ret)) : list ret := map snd outs.

(* ---- the application-level SPECIFICATION of the send APIs ----
   What a legal sequence of calls means, with no reference to frames, octets, keys or queues:
   which messages (and pings/pongs) were sent, in which order.  None = the call is not legal here
   (wrong order, wrong argument, or not an application-level send call at all). *)
Inductive spst :=
| SpGround
| SpBegun (b : bool)                                  (* beginMessage done, no frame yet *)
| SpInMsg (b : bool) (acc : list N)                   (* between frames; acc = payload so far *)
| SpInFrame (b : bool) (acc : list N) (rem : N).      (* inside a frame, rem octets still to be supplied *)

Definition spec_step (c : scfg) (prep : list (list N * bool)) (s : spst) (o : op)
  : option (spst * list (list N * bool) * list event) :=
  match o with
  | OSendMessage p b fs _ =>
      let pfs := match fs with
                 | Some f => Some f
                 | None => if (0 <? auto_fragment_size c)%Z then Some (auto_fragment_size c) else None
                 end in
      let frag_ok := match pfs with None => true | Some f => (Z.of_N (lenN p) <=? f)%Z || (1 <=? f)%Z end in
      let size_ok := (max_message_payload_size c =? 0) || (lenN p <=? max_message_payload_size c) in
      match s with
      | SpGround => if frag_ok && size_ok && (lenN p <=? max_len) then Some (s, prep, [EvMessage b p]) else None
      | _ => None
      end
  | OPrepare p b => if lenN p <=? max_len then Some (s, prep ++ [(p, b)], []) else None
  | OSendPrepared i =>
      match s, nth_error prep i with
      | SpGround, Some (p, b) =>
          if (max_message_payload_size c =? 0) || (lenN p <=? max_message_payload_size c)
          then Some (s, prep, [EvMessage b p]) else None
      | _, _ => None
      end
  | OBeginMessage b => match s with SpGround => Some (SpBegun b, prep, []) | _ => None end
  | OBeginMessageFrame len =>
      if (0 <=? len)%Z && (len <=? Z.of_N max_len)%Z then
        match s with
        | SpBegun b => Some (SpInFrame b [] (Z.to_N len), prep, [])
        | SpInMsg b acc => Some (SpInFrame b acc (Z.to_N len), prep, [])
        | _ => None
        end
      else None
  | OSendMessageFrameData p _ =>
      match s with
      | SpInFrame b acc rem =>
          (* octets beyond the announced frame length are not sent (the call reports them) *)
          let a := take rem p in
          if rem <=? lenN p then Some (SpInMsg b (acc ++ a), prep, [])
          else Some (SpInFrame b (acc ++ a) (rem - lenN p), prep, [])
      | _ => None
      end
  | OSendMessageFrame p _ =>
      if lenN p <=? max_len then
        match s with
        | SpBegun b => Some (SpInMsg b p, prep, [])
        | SpInMsg b acc => Some (SpInMsg b (acc ++ p), prep, [])
        | _ => None
        end
      else None
  | OEndMessage => match s with SpInMsg b acc => Some (SpGround, prep, [EvMessage b acc]) | _ => None end
  | OSendPing p =>
      match s with
      | SpInFrame _ _ _ => None
      | _ => if lenN p <=? 125 then Some (s, prep, [EvPing p]) else None
      end
  | OSendPong p | OPeerPing p =>
      (* an automatic pong is only accounted for when the peer's ping arrives at a frame boundary of our own
         sending; see spec_step_full / C01_delivery_full_refuted for the other case *)
      match s with
      | SpInFrame _ _ _ => None
      | _ => if lenN p <=? 125 then Some (s, prep, [EvPong p]) else None
      end
  | OTick => Some (s, prep, [])
  | OSendFrame _ _ _ _ _ _ _ _ | OSendData _ _ _ | OSetState _ => None
  end.

Fixpoint spec_run (c : scfg) (prep : list (list N * bool)) (s : spst) (ops : list op)
  : option (spst * list (list N * bool) * list event) :=
  match ops with
  | [] => Some (s, prep, [])
  | o :: r =>
      match spec_step c prep s o with
      | None => None
      | Some (s1, prep1, e1) =>
          match spec_run c prep1 s1 r with
          | None => None
          | Some (s2, prep2, e2) => Some (s2, prep2, e1 ++ e2)
          end
      end
  end.

(* the property at FULL strength: the peer may send a ping at ANY moment, also while the application is in the middle
   of a frame of the streaming API; the answer (a pong with the same payload) has to go out without disturbing the
   application's own frames *)
Definition spec_step_full (c : scfg) (prep : list (list N * bool)) (s : spst) (o : op)
  : option (spst * list (list N * bool) * list event) :=
  match o, s with
  | OPeerPing p, SpInFrame _ _ _ => if lenN p <=? 125 then Some (s, prep, [EvPong p]) else None
  | _, _ => spec_step c prep s o
  end.

Fixpoint spec_run_full (c : scfg) (prep : list (list N * bool)) (s : spst) (ops : list op)
  : option (spst * list (list N * bool) * list event) :=
  match ops with
  | [] => Some (s, prep, [])
  | o :: r =>
      match spec_step_full c prep s o with
      | None => None
      | Some (s1, prep1, e1) =>
          match spec_run_full c prep1 s1 r with
          | None => None
          | Some (s2, prep2, e2) => Some (s2, prep2, e1 ++ e2)
          end
      end
  end.

(* the message still open at a frame boundary; None for SpInFrame is not meaningful (see theorems) *)
Definition spec_open (s : spst) : option (bool * list N) :=
  match s with
  | SpInMsg b acc => Some (b, acc)
  | _ => None
  end.
Definition spec_at_boundary (s : spst) : bool := match s with SpInFrame _ _ _ => false | _ => true end.

(* ---- vocabulary of the theorems ---- *)
(* what struct.pack("!I", random.getrandbits(32)) can return: 4 octets *)
Definition keys_ok (ks : nat -> list N) : Prop := forall i, key_ok (ks i).

(* the masking decision of the role policy for the frame that draws key number i *)
Definition key_at (c : scfg) (ks : nat -> list N) (i : nat) : option (list N) :=
  if masks c then Some (ks i) else None.

(* the frames of ONE message whose payload is cut into [chunks]: the message opcode on the first frame, opcode 0
   on the others, FIN on exactly the last one, RSV = 0, the frame number j masked as [mk j] says *)
Fixpoint message_frames (mk : nat -> option (list N)) (j : nat) (first : bool) (opcode : N)
    (chunks : list (list N)) : list frame :=
  match chunks with
  | [] => []
  | ch :: rest =>
      mkFrame (match rest with [] => true | _ => false end) 0 (if first then opcode else 0) (mk j) ch
      :: message_frames mk (S j) false opcode rest
  end.

(* which reference-parser configurations a sender configuration is expected to satisfy *)
Definition policy_ok (rc : rcfg) (c : scfg) : Prop :=
  match rc_mask rc with
  | MustMask => is_server c = false /\ mask_client_frames c = true
  | MustNotMask => is_server c = true /\ mask_server_frames c = false
  | AnyMask => True
  end.

(* defaults of WebSocketServerFactory / WebSocketClientFactory.resetProtocolOptions *)
Definition default_cfg (server : bool) : scfg := mkScfg server true false true 0%Z 0 PurePython.
