(* Executable entry points for the C18 correspondence run (harness/props/c18.py).
   Application values are numbered by the harness (V := N: the model never inspects a value, it only moves it);
   the constructors of the caller-side exception classes are instantiated by [run_construct] below, one clause
   per Python class kind defined in harness/impl/wamp_errors.py. *)
From Coq Require Import List String Bool NArith.
From AV Require Import Model.SessionErr.
Import ListNotations.
Open Scope string_scope.

(* ---- equality tests ---- *)
Definition opt_eqb {A} (f : A -> A -> bool) (a b : option A) : bool :=
  match a, b with Some x, Some y => f x y | None, None => true | _, _ => false end.
Fixpoint list_eqb {A} (f : A -> A -> bool) (a b : list A) : bool :=
  match a, b with
  | [], [] => true
  | x :: a', y :: b' => f x y && list_eqb f a' b'
  | _, _ => false
  end.
Definition pair_eqb {A B} (f : A -> A -> bool) (g : B -> B -> bool) (a b : A * B) : bool :=
  f (fst a) (fst b) && g (snd a) (snd b).
Definition kw_eqb : kw N -> kw N -> bool := list_eqb (pair_eqb String.eqb N.eqb).   (* ordered, like a Python dict's items() *)
Definition pyexc_eqb (a b : pyexc) : bool :=
  match a, b with
  | TypeError, TypeError | RuntimeError, RuntimeError | ProtocolError, ProtocolError | KeyError, KeyError
  | AttributeError, AttributeError => true
  | _, _ => false
  end.
Definition tail_eqb (a b : wire_tail N) : bool :=
  match a, b with
  | W5, W5 => true
  | W6 x, W6 y => opt_eqb (list_eqb N.eqb) x y
  | W7 x k, W7 y k' => opt_eqb (list_eqb N.eqb) x y && kw_eqb k k'
  | _, _ => false
  end.

(* ---- constructor kinds of the caller-side classes (harness/impl/wamp_errors.py: make_class) ---- *)
Inductive ckind :=
| CPlain        (* class C(Exception): pass                     -> keywords rejected (TypeError)            *)
| CKw           (* __init__(self, *a, **k): args=a, kwargs=k    -> a keyword named "self" rejected           *)
| CNoArg        (* __init__(self)                               -> anything else rejected                    *)
| CKwOnly       (* __init__(self, **k)                          -> positional rejected                       *)
| CRaise        (* __init__ raises (TypeError / ValueError / KeyError variants)                               *)
| CFalsy        (* like CKw, but __len__ returns 0                                                            *)
| CWithCallee   (* like CKw, and the instance has an attribute "callee"                                       *)
| CReadOnly     (* like CKw, and "callee_authid" is a property without setter                                  *)
| CAppSub.      (* class C(ApplicationError): pass  -> __init__(self, error, /, *args, **kwargs): the FIRST positional
                   argument becomes .error, the rest .args; no positional argument -> TypeError                  *)

Definition run_construct (kinds : list (cls * ckind)) (c : cls) (s : shape) (a : list N) (k : kw N)
  : ctor_result N N :=
  let has_self := ahas String.eqb "self" k in
  match aget N.eqb c kinds with
  | Some CPlain => match k with [] => CtorOk (mkCexn c None a None true [] []) | _ => CtorRaise end
  | Some CKw => if has_self then CtorRaise else CtorOk (mkCexn c None a (Some k) true [] [])
  | Some CNoArg => match a, k with [], [] => CtorOk (mkCexn c None [] None true [] []) | _, _ => CtorRaise end
  | Some CKwOnly => if has_self then CtorRaise
                    else match a with [] => CtorOk (mkCexn c None [] (Some k) true [] []) | _ => CtorRaise end
  | Some CAppSub => match a with
                    | [] => CtorRaise
                    | _ :: rest => CtorOk (mkCexn c None rest (Some (fold_left (fun d n => adel String.eqb n d) RESERVED k)) true
                                                  (map (fun n => (n, FromKw (aget String.eqb n k))) RESERVED) [])
                    end
  | Some CRaise => CtorRaise
  | Some CFalsy => if has_self then CtorRaise else CtorOk (mkCexn c None a (Some k) false [] [])
  | Some CWithCallee => if has_self then CtorRaise
                        else CtorOk (mkCexn c None a (Some k) true [("callee", FromKw None)] [])
  | Some CReadOnly => if has_self then CtorRaise
                      else CtorOk (mkCexn c None a (Some k) true [("callee_authid", FromKw None)] ["callee_authid"])
  | None => CtorRaise
  end.

(* ---- expected observations ---- *)
Inductive xdelivery :=
| XRejected (c : cls) (error : option string) (args : list N) (kwargs : option (kw N))
            (meta : list (string * option N))        (* reserved attributes present on the instance, with values *)
| XEscaped (x : pyexc)
| XOther.

Definition meta_view (l : list (string * metaval N N)) : list (string * option N) :=
  map (fun '(n, v) => (n, match v with FromMsg x => x | FromKw x => x end)) l.

Definition delivery_ok (call_req : N) (d : delivery N N) (x : xdelivery) : bool :=
  match d, x with
  | Rejected id e, XRejected c er a k meta =>
      (id =? call_req)%N && (c_cls e =? c)%N && opt_eqb String.eqb (c_error e) er && list_eqb N.eqb (c_args e) a
      && opt_eqb kw_eqb (c_kwargs e) k && list_eqb (pair_eqb String.eqb (opt_eqb N.eqb)) (meta_view (c_meta e)) meta
  | Escaped id p, XEscaped q => (id =? call_req)%N && pyexc_eqb p q
  | _, _ => false
  end.

Definition define_results (pattern_ok : string -> bool) (ops : list defop) : list (option pyexc) * registry :=
  fold_left (fun (st : list (option pyexc) * registry) o =>
               let '(r', x) := define pattern_ok (snd st) o in ((fst st ++ [x])%list, r')) ops ([], init_registry).

Record err_case := mkCase {
  k_bad_patterns : list string;                 (* URIs for which uri.Pattern raises *)
  k_callee_ops : list defop;
  k_caller_ops : list defop;
  k_kinds : list (cls * ckind);                 (* caller-side classes *)
  k_exn : exn N;                                (* raised by the endpoint *)
  k_traceback_app : bool;
  k_tbv : option N;                             (* the (non-empty) formatted traceback *)
  k_router_callee : option N;                   (* "callee" detail added by the router *)
  k_interrupts : N;                             (* INTERRUPTs received before the endpoint fails *)
  k_callee_hook : hook;                         (* the callee application's onUserError override: returns / raises *)
  k_caller_hook : hook;
  (* expected *)
  x_callee_define : list (option pyexc);
  x_caller_define : list (option pyexc);
  x_wire_uri : string;
  x_wire_tail : wire_tail N;                    (* the ERROR sent by the callee *)
  x_reported : bool;                            (* onUserError("While re-constructing exception") on the caller *)
  x_pending_after : list N;                     (* caller's _call_reqs afterwards *)
  x_delivery : xdelivery
}.

Definition INV_REQ : N := 7001.

Definition err_case_ok (c : err_case) : bool :=
  let pok := fun u => negb (existsb (String.eqb u) (k_bad_patterns c)) in
  let '(dr1, callee_reg) := define_results pok (k_callee_ops c) in
  let '(dr2, caller_reg) := define_results pok (k_caller_ops c) in
  let construct := run_construct (k_kinds c) in
  let meta := fun n => if String.eqb n "callee" then k_router_callee c else None in
  let call_req := 1%N in
  let p : pending := [(48%N, [mkRequest 1 false; mkRequest 2 false])] in
  match snd (interrupted_failure (MV:=N) (fun _ => 0%N) [INV_REQ] (N.to_nat (k_interrupts c)) (k_callee_hook c) callee_reg
                                 (k_traceback_app c) (k_tbv c) INV_REQ (k_exn c) SendOk) with
  | Ok (reply :: _) =>
      let seen := over_the_wire 48 call_req meta reply in
      let '(p', d) := end_to_end (fun _ => 0%N) (k_callee_hook c) construct (k_caller_hook c) callee_reg caller_reg (k_traceback_app c) (k_tbv c) (k_exn c)
                                 INV_REQ call_req meta p in
      list_eqb (opt_eqb pyexc_eqb) dr1 (x_callee_define c)
      && list_eqb (opt_eqb pyexc_eqb) dr2 (x_caller_define c)
      && String.eqb (m_error reply) (x_wire_uri c)
      && tail_eqb (marshal_tail reply) (x_wire_tail c)
      && Bool.eqb (snd (exception_from_message construct (k_caller_hook c) caller_reg seen)) (x_reported c)
      && list_eqb N.eqb (match aget N.eqb 48%N p' with Some t => map rq_id t | None => [] end) (x_pending_after c)
      && delivery_ok call_req d (x_delivery c)
  | _ => false
  end.
