(* C16, send side: the message-level send APIs of WebSocketProtocol and the size guard each of them applies.

     sendMessage(payload, isBinary, doNotCompress)            protocol.py, "def sendMessage"
     sendPreparedMessage(factory.prepareMessage(payload, isBinary, doNotCompress))
                                                              protocol.py, "def sendPreparedMessage"

   With permessage-deflate negotiated and doNotCompress = False the message goes through the connection's compressor
   FIRST, and the limit is compared with the compressed size; the compressor keeps its context from message to message
   (context takeover), so what it has consumed is part of what the peer's inflater needs for every later message.  A
   refused message is never written: the sender resets its compressor (self._perMessageCompress._compressor = None, a
   fresh one is made by the next start_compress_message).

   The compressor is an oracle: [Z] is its context, [deflate z p] one whole message (start / compress / end).  Every
   threshold decision is the generated [sm_limit] / [spm_limit] (Gen/WsConsts.v, from the two functions' source). *)
From Coq Require Import NArith List Bool.
From AV Require Import Model.Masker Gen.WsConsts Model.WsRecv.
Import ListNotations.
Open Scope N_scope.

Inductive send_api :=
| ApiMessage (doNotCompress : bool)        (* sendMessage(..., doNotCompress=b) (fragmentSize only cuts what is written) *)
| ApiPrepared (doNotCompress : bool).      (* sendPreparedMessage(prepareMessage(..., doNotCompress=b)) *)

Record send_op := mkSend { so_api : send_api; so_payload : list N; so_bin : bool }.

(* what reaches the transport for one operation: nothing (PayloadExceededError was raised), or one message whose
   payload octets are [w_data], RSV1 = [w_rsv1] *)
Inductive send_out :=
| Refused
| Wrote (w_rsv1 : bool) (w_data : list N) (w_bin : bool).

Section WithCompressor.
Variable Z : Type.
Variable z0 : Z.                                   (* a fresh compressor *)
Variable deflate : Z -> list N -> Z * list N.      (* one message through the compressor: new context, octets *)

(* self._perMessageCompress._compressor: None = "make a fresh one when the next message starts" *)
Definition ctx (o : option Z) : Z := match o with Some z => z | None => z0 end.

(* sendMessage *)
Definition send_message (cf : cfg) (o : option Z) (dnc : bool) (payload : list N) (bin : bool) : option Z * send_out :=
  if pmc cf && negb dnc then
    let '(z', c) := deflate (ctx o) payload in
    if sm_limit (maxMsg cf) (lenN c) then (None, Refused)            (* the compressor is dropped: fresh context *)
    else (Some z', Wrote true c bin)
  else
    if sm_limit (maxMsg cf) (lenN payload) then (o, Refused) else (o, Wrote false payload bin).

(* sendPreparedMessage *)
Definition send_prepared (cf : cfg) (o : option Z) (dnc : bool) (payload : list N) (bin : bool) : option Z * send_out :=
  if negb (pmc cf) || dnc then
    if spm_limit (maxMsg cf) (lenN payload) then (o, Refused) else (o, Wrote false payload bin)
  else send_message cf o false payload bin.

Definition send_step (cf : cfg) (o : option Z) (op : send_op) : option Z * send_out :=
  match so_api op with
  | ApiMessage dnc => send_message cf o dnc (so_payload op) (so_bin op)
  | ApiPrepared dnc => send_prepared cf o dnc (so_payload op) (so_bin op)
  end.

Fixpoint send_all (cf : cfg) (o : option Z) (ops : list send_op) : option Z * list send_out :=
  match ops with
  | [] => (o, [])
  | op :: rest =>
      let '(o1, out) := send_step cf o op in
      let '(o2, outs) := send_all cf o1 rest in (o2, out :: outs)
  end.

(* does this operation go through the compressor? *)
Definition compressed (cf : cfg) (op : send_op) : bool :=
  pmc cf && negb (match so_api op with ApiMessage d => d | ApiPrepared d => d end).

(* the size the limit is compared with: what would be written *)
Definition measured (cf : cfg) (o : option Z) (op : send_op) : N :=
  if compressed cf op then lenN (snd (deflate (ctx o) (so_payload op))) else lenN (so_payload op).

(* the variant WITHOUT the reset (the code before the fix): the context moves on although nothing was written *)
Definition send_message_noreset (cf : cfg) (o : option Z) (dnc : bool) (payload : list N) (bin : bool) : option Z * send_out :=
  if pmc cf && negb dnc then
    let '(z', c) := deflate (ctx o) payload in
    if sm_limit (maxMsg cf) (lenN c) then (Some z', Refused) else (Some z', Wrote true c bin)
  else
    if sm_limit (maxMsg cf) (lenN payload) then (o, Refused) else (o, Wrote false payload bin).
Fixpoint send_all_noreset (cf : cfg) (o : option Z) (ops : list (list N * bool)) : option Z * list send_out :=
  match ops with
  | [] => (o, [])
  | (p, b) :: rest =>
      let '(o1, out) := send_message_noreset cf o false p b in
      let '(o2, outs) := send_all_noreset cf o1 rest in (o2, out :: outs)
  end.

(* ---- the peer: one inflater for the connection; [inflate i c] = one compressed message ---- *)
Variable I : Type.
Variable inflate : I -> list N -> I * option (list N).

Fixpoint peer_read (i : I) (outs : list send_out) : list (option (list N * bool)) :=
  match outs with
  | [] => []
  | Refused :: rest => peer_read i rest
  | Wrote false d b :: rest => Some (d, b) :: peer_read i rest
  | Wrote true d b :: rest =>
      let '(i', r) := inflate i d in
      match r with
      | Some p => Some (p, b) :: peer_read i' rest
      | None => [None]                                     (* the peer fails the connection *)
      end
  end.

(* what the application handed over and was not refused *)
Fixpoint accepted (ops : list send_op) (outs : list send_out) : list (option (list N * bool)) :=
  match ops, outs with
  | op :: ops', Refused :: outs' => accepted ops' outs'
  | op :: ops', Wrote _ _ _ :: outs' => Some (so_payload op, so_bin op) :: accepted ops' outs'
  | _, _ => []
  end.

(* the laws of a compressor / inflater pair with context takeover (RFC 7692 section 7.2.1/7.2.2, zlib):
   [sync z i] = "the inflater has seen everything the compressor refers back to" *)
Record deflate_laws (sync : Z -> I -> Prop) : Prop := {
  dl_step : forall z i p, sync z i ->
      exists i', inflate i (snd (deflate z p)) = (i', Some p) /\ sync (fst (deflate z p)) i';
  dl_fresh : forall z i, sync z i -> sync z0 i     (* a fresh compressor refers back to nothing *)
}.

End WithCompressor.

(* ---- a small concrete pair with context takeover, for non-vacuity: every message is prefixed with the number of
   messages the compressor has consumed; the inflater accepts its own count, or 0 (a fresh compressor) ---- *)
Definition toy_deflate (z : N) (p : list N) : N * list N := (z + 1, z :: p).
Definition toy_inflate (i : N) (c : list N) : N * option (list N) :=
  match c with
  | k :: p => if k =? i then (i + 1, Some p) else if k =? 0 then (1, Some p) else (i, None)
  | [] => (i, None)
  end.
Definition toy_sync (z i : N) : Prop := z = i \/ z = 0.

(* ================================================================================================= *)
(* The write queue (protocol.py sendData / _trigger / _send): synchronous and chopped writes go through a queue that the
   reactor drains one entry per turn; while it is non-empty EVERY write is appended to it -- also the close frame of a
   failure.  [wq_q] = send_queue (head first), [wq_wire] = what transport.write has been given, in order. *)
Record wq := mkWq { wq_q : list (list N); wq_wire : list (list N) }.

Definition pst_code (p : pst) : N :=
  match p with OPEN => state_open | CLOSING => state_closing | CLOSED => state_closed end.

(* sendData(data, sync) without chopsize *)
Definition nonemptyq (q : list (list N)) : bool := match q with [] => false | _ => true end.
Definition send_data (w : wq) (data : list N) (sync : bool) : wq :=
  if sync || nonemptyq (wq_q w) then mkWq (wq_q w ++ [data]) (wq_wire w) else mkWq (wq_q w) (wq_wire w ++ [data]).

(* one turn of _send in protocol state p: the head entry is popped; it is written unless the connection is CLOSED *)
Definition drain_one (p : pst) (w : wq) : wq :=
  match wq_q w with
  | [] => w
  | e :: r => mkWq r (if sq_write (pst_code p) then wq_wire w ++ [e] else wq_wire w)
  end.

Fixpoint drain (n : nat) (p : pst) (w : wq) : wq :=
  match n with O => w | S k => drain k p (drain_one p w) end.

(* failing the connection with the close-handshake policy: the close frame goes through sendData (not sync), the state
   becomes CLOSING, then the reactor drains the queue *)
Definition fail_and_drain (w : wq) (close_frame : list N) : wq :=
  let w1 := send_data w close_frame false in drain (length (wq_q w1)) CLOSING w1.
